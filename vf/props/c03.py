"""C03 - Neighbour list lists exactly the pairs closer than the cutoff.

Clauses (each decided by its own monitor; see RULE / the evidence counters):
  membership   j in list(i)  <=>  j != i and 27-image distance < cutoff       (oracle: O(N^2) brute force)
  structure    symmetric, sorted ascending, no duplicates, no self entries, indices in range
  coord        coord[i] == len(list(i)) == number of expected neighbours
  storage      identical lists for (initialsize, deltasize) in {(1,1),(1,3),(2,1),(5,7),(20,10)}
  roundtrip    dump() writes the list (independent reader), NeighborList(model=...) returns it unchanged
  kept         (round 4) a list that was handed out - raw array, NeighborList object, its deepcopy / pickle / copy,
               a list read back from a file - still presents the same rows after every later build (same object
               edited in place, other system of the same size, other cutoff, re-built or re-loaded object), dump
               and load; at the end of the chain it is judged against the brute-force oracle once more
  repeat       the same call with equal arguments gives the same lists whatever happened in between (also after
               the caller overwrote the array it had been handed)
  inputs       a build leaves positions, cell, origin and periodicity of the caller's System as they were
"""
from __future__ import annotations

import copy
import os
import pathlib
import pickle
import shutil
import sys
import tempfile

import numpy as np

from ..core import fingerprint
from ..gen import c03_systems as S
from ..oracle import c03_nlist as O
from .. import monitor

RULE = ('systems are generated round-robin over 10 configuration classes (sparse, sparse pairs across periodic faces, '
        'dense random, >40/>50/>60-atom clusters inside one bin, small crystals with the cutoff between or exactly on '
        'shells, atoms with relative coordinates exactly 0/1, atoms on and mirrored about bin edges, cutoff above the '
        'cell widths, exact integer lattices with pairs exactly at the cutoff, N=1..3) x 9 cell kinds (7 families, '
        'strongly tilted, rotated; exact class: integer cells with integer tilts) x 3 origin classes x 3 length scales '
        'x 8 periodicity settings x 5 storage-size pairs; every system is built with its own storage pair and with '
        '(1,1)/(20,10) (all five plus one random pair in [1,30]x[1,15] when N<=150) through NeighborList(...), System.neighborlist(...) or nlist(...), and is '
        'written and read back.  A case is non-trivial when the oracle finds at least one neighbour pair (or an atom '
        'whose own image lies inside the cutoff); distinct = distinct fingerprint of (positions, cell, origin, pbc, cutoff).  '
        'Argument forms rotate with the case index: positions as float64 / list / tuple / Fortran-ordered / strided / integer '
        'array, one / several / trailing unpopulated atom types, cutoff as float / numpy scalar / 0-d array (int, np.int64, '
        'np.float32 where the value is exact), storage sizes as int / np.int64 / np.int32, nlist(...) by keyword and by position; '
        'every array and object of a case is judged again at the end of the case.  '
        'Group "history": chains of 4 builds (+ an echo of the previous entry point after every step, + the first call once '
        'more on a fresh equal system at the end) over 12 step kinds (positions overwritten in place / re-assigned / perturbed, '
        'pbc changed in place, box rescaled in place, other system in the same cell, other cell with the same atom count, other '
        'cutoff, equal arguments again - also after the caller overwrote the array it held -, one atom fewer / more, default '
        'storage sizes after customised ones) x 5 entry points (NeighborList, System.neighborlist, nlist by keyword / position, '
        'NeighborList.build on an object that already holds a list) x 3 storage classes (defaults, roomy, tight) x 3 densities x '
        'N = 1..3 and 6..60; deepcopy / pickle / copy / five load forms of the first list; every result ever handed out is '
        'compared with the rows it showed then after every later build, copy, dump, load and re-load, and judged against the '
        'brute-force oracle at the end of the chain.')
ASSUMPTIONS = ['all atoms lie inside the cell (relative coordinates in [0,1], faces included): the stated precondition',
               'pairs whose 27-image distance is within 1e-9*cutoff + 64*eps*(|pos|max + 3L) of the cutoff are exempt '
               '(counted), except in the exact integer-lattice class where the comparison is exact and strict',
               'cells are right-handed with volume >= 10% of a*b*c; the bin grid is kept below 40000 bins by raising '
               'the smallest cutoffs in elongated/tilted cells',
               'the oracle uses the cell, origin and positions read back from the System object',
               'oracle shares numpy with the code under test',
               'positions stored in single precision are outside the quantifier: nlist refuses them loudly (ValueError, buffer '
               'dtype mismatch); the refusal is accepted and counted, a list that is returned is judged',
               'views handed out by one NeighborList (.nlist, .coord, [i]) share storage with that object by design; only '
               'changes caused by LATER builds / loads / copies are violations, not the caller writing into its own list']

CONFIG = {'quick': {'timeout': 900}, 'thorough': {'timeout': 3000}}

FIVE_SIZES_MAX_N = 150


class State:
    def __init__(self):
        self.expected = {}      # id(system) -> dict(cutoff, adj, exempt, tab, exact, detail)
        self.last_stats = None


def _pbc_str(pbc):
    return ''.join('T' if p else 'F' for p in pbc)


def _detail(info, **extra):
    d = dict(vects=info['vects'], origin=info['origin'], pbc=info['pbc'], cutoff=info['cutoff'], natoms=len(info['pos']))
    if len(info['pos']) <= 40:
        d['pos'] = info['pos']
    d.update(extra)
    return d


def oracle_for(system, cutoff, exact=False):
    pos = np.array(system.atoms.pos, float)
    vects = np.array(system.box.vects, float)
    origin = np.array(system.box.origin, float)
    pbc = tuple(bool(x) for x in system.pbc)
    bound = 0.0 if exact else O.compare_bound(pos, vects, cutoff)
    adj, ex, tab = O.expected(pos, vects, pbc, cutoff, bound)
    return dict(cutoff=cutoff, adj=adj, exempt=ex, tab=tab, exact=exact, bound=bound,
                pos=pos, vects=vects, origin=origin, pbc=pbc)


def check_array(rec, arr, info, where):
    """All clauses that can be decided on the raw (N, 1+width) array."""
    n = len(info['pos'])
    a = np.asarray(arr)
    ok = rec.check(a.ndim == 2 and a.shape[0] == n and a.shape[1] >= 1 and np.issubdtype(a.dtype, np.integer),
                   'the list is an integer array with one row per atom', f'{where}:array-shape',
                   shape=a.shape, dtype=str(a.dtype), natoms=n)
    if not ok:
        return None
    coord = a[:, 0]
    okc = rec.check(bool((coord >= 0).all() and (coord <= a.shape[1] - 1).all()),
                    'coordination numbers lie between 0 and the row capacity', f'{where}:coord-range',
                    **_detail(info, coord=coord[:20], width=a.shape[1]))
    _, rows = O.rows_from_array(a)
    rep = O.structure_report(rows, n)
    rec.check(rep['range'] == 0, 'neighbour ids are atom indices', f'{where}:rows:index-range', **_detail(info, first=rep['first'].get('range')))
    rec.check(rep['unsorted'] == 0, 'every list is sorted ascending', f'{where}:rows:unsorted', **_detail(info, first=rep['first'].get('unsorted')))
    rec.check(rep['duplicate'] == 0, 'no list holds a duplicate', f'{where}:rows:duplicate', **_detail(info, first=rep['first'].get('duplicate')))
    rec.check(rep['self'] == 0, 'no atom is its own neighbour', f'{where}:rows:self', **_detail(info, first=rep['first'].get('self')))
    m, bad = O.adjacency_from_rows(rows, n)
    asym = m & ~m.T
    rec.check(not asym.any(), 'lists are symmetric', f'{where}:rows:asymmetric', **_detail(info, pairs=np.argwhere(asym)[:5]))
    adj, ex = info['adj'], info['exempt']
    missing = adj & ~m & ~ex
    spurious = m & ~adj & ~ex
    np.fill_diagonal(spurious, False)
    dmin = info['tab']['dmin']
    if info['exact']:
        at = spurious & (dmin == info['cutoff'])
        spurious = spurious & ~at
        rec.check(not at.any(), 'a pair exactly at the cutoff is not listed (distance must be below the cutoff)',
                  f'{where}:membership:at-cutoff', **_detail(info, pairs=np.argwhere(at)[:5]))
    pm = np.argwhere(missing)[:5]
    rec.check(not missing.any(), 'every pair closer than the cutoff is listed', f'{where}:membership:missing',
              **_detail(info, pairs=pm, dmin=[dmin[i, j] for i, j in pm], direct=[info['tab']['direct'][i, j] for i, j in pm],
                        n_missing=int(missing.sum())))
    ps = np.argwhere(spurious)[:5]
    rec.check(not spurious.any(), 'no pair at or beyond the cutoff is listed', f'{where}:membership:spurious',
              **_detail(info, pairs=ps, dmin=[dmin[i, j] for i, j in ps], n_spurious=int(spurious.sum())))
    decided_rows = ~ex.any(axis=1)
    want = adj.sum(axis=1)
    if okc:
        badc = decided_rows & (coord != want)
        rec.check(not badc.any(), 'coord[i] is the number of neighbours of atom i', f'{where}:coord:count',
                  **_detail(info, atoms=np.flatnonzero(badc)[:5], got=coord[badc][:5], expected=want[badc][:5]))
    rec.count('pairs_decided', int((~ex).sum() - n) // 2)
    rec.count('pairs_exempt_near_cutoff', int(ex.sum()) // 2)
    rec.count('pairs_listed', int(m.sum()) // 2)
    return rows


def install_monitors(rec, state, nlmod):
    """Postcondition on the Cython entry point itself: fires on every call,
    whichever public entry point made it."""

    def post(args, kwargs, result, exc, old):
        st = dict(nlmod._verif_stats)
        state.last_stats = st if exc is None else None
        if exc is not None:
            return
        rec.count('hook:calls')
        if st:
            rec.count('hook:reported')
            rec.count('hook:ghost_only_bins_swept', st.get('bins_ghost_only_swept', 0))
            rec.count('hook:cases_ghost_only_bin_swept', int(st.get('bins_ghost_only_swept', 0) > 0))
            rec.count('hook:cases_row_growth', int(st.get('row_growths', 0) > 0))
            rec.count('hook:row_growth_events', st.get('row_growths', 0))
            rec.count('hook:cases_bin_growth', int(st.get('bin_growths', 0) >= 1))
            rec.count('hook:cases_bin_growth_twice', int(st.get('bin_growths', 0) >= 2))
            rec.count('hook:cases_zero_ghosts', int(st.get('nghosts', -1) == 0))
            rec.count('hook:real_bins_unswept', st.get('bins_real_unswept', 0))
        system = args[0] if args else kwargs.get('system')
        cutoff = args[1] if len(args) > 1 else kwargs.get('cutoff')
        info = state.expected.get(id(system))
        if info is None or info['cutoff'] != cutoff:
            if system.natoms > 600:
                rec.count('monitor:nlist:too-large-for-inline-oracle')
                return
            info = oracle_for(system, cutoff)
        check_array(rec, result, info, 'nlist')

    return monitor.observe_function(nlmod.nlist, post, label='nlist')


def build(am, nlfun, system, cutoff, sizes, how, positional=False):
    """One build through one of the public entry points; returns (raw array, NeighborList or None)."""
    ini, dl = sizes
    if how == 'nlist' and positional:
        return nlfun(system, cutoff, ini, dl), None
    if how == 'NeighborList':
        nl = am.NeighborList(system=system, cutoff=cutoff, initialsize=ini, deltasize=dl)
        return nl.nlist, nl
    if how == 'System.neighborlist':
        nl = system.neighborlist(cutoff=cutoff, initialsize=ini, deltasize=dl)
        return nl.nlist, nl
    return nlfun(system, cutoff, initialsize=ini, deltasize=dl), None


POSFORMS = ['float64', 'list', 'fortran', 'strided', 'int', 'tuple']
TYPEFORMS = ['one-type', 'several-types', 'trailing-unpopulated-type']
SIZEFORMS = ['int', 'np.int64', 'np.int32']


def pos_form(pos, form):
    """The same coordinates handed over in another form (the values are unchanged)."""
    p = np.asarray(pos, float)
    if form == 'int':
        if p.size and np.array_equal(np.round(p), p) and np.abs(p).max() < 2 ** 40:
            return 'int', p.astype(np.int64)
        form = 'tuple'
    if form == 'list':
        return form, p.tolist()
    if form == 'tuple':
        return form, tuple(tuple(float(x) for x in r) for r in p)
    if form == 'fortran':
        return form, np.asfortranarray(p)
    if form == 'strided':
        big = np.full((len(p), 6), np.nan)
        big[:, ::2] = p
        return form, big[:, ::2]
    return 'float64', np.array(p)


def cutoff_form(cutoff, q, exact):
    """The cutoff handed over as another numeric type of exactly the same value."""
    c = float(cutoff)
    if exact:
        form = ['float', 'int', 'np.int64', 'np.float32', 'np.float64'][q % 5]
        if form in ('int', 'np.int64') and c != int(c):
            form = '0-d array'
        if form == 'np.float32' and float(np.float32(c)) != c:
            form = 'np.float64'
    else:
        form = ['float', 'np.float64', '0-d array'][q % 3]
    arg = {'float': c, 'int': int(c) if c == int(c) else c, 'np.int64': np.int64(int(c)) if c == int(c) else c, 'np.float32': np.float32(c),
           'np.float64': np.float64(c), '0-d array': np.array(c)}[form]
    return form, arg


def size_form(sizes, form):
    if form == 'np.int64':
        return (np.int64(sizes[0]), np.int64(sizes[1]))
    if form == 'np.int32':
        return (np.int32(sizes[0]), np.int32(sizes[1]))
    return (int(sizes[0]), int(sizes[1]))


def check_object(rec, nl, arr, rows, n):
    ok = len(nl) == n and np.array_equal(np.asarray(nl.coord), np.asarray(arr)[:, 0])
    lens_ok = True
    if ok:
        for i in range(n):
            r = np.asarray(nl[i]).tolist()
            if r != rows[i]:
                ok = False
                break
            if len(r) != int(nl.coord[i]):
                lens_ok = False
    rec.check(ok, 'NeighborList[i], .coord and len() present the rows of the underlying array', 'object:view', natoms=n)
    rec.check(lens_ok, 'coord[i] == len(NeighborList[i])', 'object:coord-length', natoms=n)


def roundtrip(rec, ctx, am, nl, rows, n, tmpdir, form, info, fname='nl.txt', system=None):
    """dump + independent reader + load through one of the documented forms; returns the read-back object."""
    path = os.path.join(tmpdir, fname)
    done = False
    with ctx.guard('NeighborList.dump writes the list', 'roundtrip:dump'):
        nl.dump(path)
        done = True
    if not done:
        return None
    text = open(path).read()
    parsed, nlines = O.parse_file(text)
    ok = nlines == n and sorted(parsed) == list(range(n)) and all(parsed[i] == rows[i] for i in range(n))
    rec.check(ok, 'the written file holds one line per atom: index followed by its neighbours', 'roundtrip:file-content',
              **_detail(info, head=text[:300]))
    back = None
    with ctx.guard('NeighborList(model=...) reads the written file', f'roundtrip:load:{form}'):
        if form == 'path':
            back = am.NeighborList(model=path)
        elif form == 'content':
            back = am.NeighborList(model=text)
        elif form == 'pathlib':
            back = am.NeighborList(model=pathlib.Path(path))
        elif form == 'System.neighborlist':
            back = system.neighborlist(model=path)
        else:
            with open(path, 'rb') as f:
                back = am.NeighborList(model=f)
    if back is None:
        return None
    rec.count('roundtrip:' + form)
    okn = rec.check(len(back) == n, 'read-back list has one row per atom', 'roundtrip:natoms', got=len(back), natoms=n)
    if not okn:
        return None
    c0 = np.array([len(r) for r in rows])
    rec.check(np.array_equal(np.asarray(back.coord), c0), 'coord survives dump/load', 'roundtrip:coord',
              **_detail(info, got=np.asarray(back.coord)[:20], expected=c0[:20]))
    bad = [i for i in range(n) if np.asarray(back[i]).tolist() != rows[i]]
    rec.check(not bad, 'every list survives dump/load', 'roundtrip:rows',
              **_detail(info, atom=bad[:3], got=[np.asarray(back[i]).tolist()[:12] for i in bad[:3]], expected=[rows[i][:12] for i in bad[:3]]))
    bn = np.asarray(back.nlist)
    rec.check(bn.ndim == 2 and bn.shape[0] == n and np.array_equal(bn[:, 0], c0), 'read-back .nlist array leads with coord', 'roundtrip:nlist-array')
    return back


# ====================================================================== call histories (round 4)
KEPT_CLAUSE = 'a list that was handed out keeps its rows when further lists are built, copied, written or read'


class Kept:
    """One result the caller holds on to: the raw array and/or an object, with the rows it showed when handed out."""
    __slots__ = ('label', 'frame', 'arr', 'nl', 'rows', 'coord', 'info', 'grew', 'shape')

    def __init__(self, label, frame, arr, nl, rows, info=None, grew=None):
        self.label, self.frame, self.arr, self.nl, self.info, self.grew = label, frame, arr, nl, info, grew
        self.rows = [list(r) for r in rows]
        self.coord = np.array([len(r) for r in rows])
        self.shape = None if arr is None else tuple(np.asarray(arr).shape)


def rows_of_object(nl):
    return [np.asarray(nl[j]).tolist() for j in range(len(nl))]


def rejudge(rec, kept, after, info):
    """Every kept result against the rows it had when it was handed out."""
    for kp in kept:
        n = len(kp.rows)
        if kp.arr is not None:
            a = np.asarray(kp.arr)
            ok = a.ndim == 2 and a.shape == kp.shape and np.array_equal(a[:, 0], kp.coord)
            now = O.rows_from_array(a)[1] if a.ndim == 2 and a.shape[0] == n else None
            ok = ok and now == kp.rows
            rec.count('kept:rejudged:array')
            if not rec.check(ok, KEPT_CLAUSE, f'kept:{kp.label}:array:after:{after}',
                             **_detail(info, kept_from_build=kp.frame, natoms_kept=n,
                                       atoms=[j for j in range(n) if now is None or now[j] != kp.rows[j]][:5],
                                       got=None if now is None else [r[:12] for r in now[:3]], expected=[r[:12] for r in kp.rows[:3]])):
                kp.arr = None                       # reported once
        if kp.nl is not None:
            ok = len(kp.nl) == n and np.array_equal(np.asarray(kp.nl.coord), kp.coord)
            now = rows_of_object(kp.nl) if ok else None
            ok = ok and now == kp.rows
            rec.count('kept:rejudged:object')
            if not rec.check(ok, KEPT_CLAUSE, f'kept:{kp.label}:object:after:{after}',
                             **_detail(info, kept_from_build=kp.frame, natoms_kept=n,
                                       got_coord=np.asarray(kp.nl.coord)[:12], expected_coord=kp.coord[:12])):
                kp.nl = None


def new_system(am, fr):
    box = am.Box(avect=fr['vects'][0], bvect=fr['vects'][1], cvect=fr['vects'][2], origin=fr['origin'])
    return am.System(atoms=am.Atoms(pos=np.array(fr['pos'])), box=box, pbc=fr['pbc'])


def apply_step(am, system, fr):
    """Brings the caller's System into the state of frame ``fr`` the way the step kind says."""
    step = fr['step']
    if step in ('moved-inplace', 'perturbed-inplace', 'default-sizes'):
        system.atoms.pos[:] = fr['pos']
    elif step == 'pos-reassigned':
        system.atoms.pos = np.array(fr['pos'])
    elif step == 'pbc-changed-inplace':
        system.pbc = fr['pbc']
    elif step == 'box-rescaled-inplace':
        system.box_set(vects=np.array(fr['vects']), origin=np.array(fr['origin']), scale=True)
    elif step in ('cutoff-changed', 'repeat-equal'):
        pass
    else:                                           # other system / other cell / one atom fewer / more
        system = new_system(am, fr)
    return system


def unchanged(system, info):
    return (np.array_equal(np.asarray(system.atoms.pos), info['pos']) and np.array_equal(np.asarray(system.box.vects), info['vects'])
            and np.array_equal(np.asarray(system.box.origin), info['origin']) and tuple(bool(x) for x in system.pbc) == info['pbc'])


def build_h(am, nlfun, system, cutoff, sizes, how, target=None):
    kw = {} if sizes is None else dict(initialsize=sizes[0], deltasize=sizes[1])
    if how == 'NeighborList':
        nl = am.NeighborList(system=system, cutoff=cutoff, **kw)
        return nl.nlist, nl
    if how == 'System.neighborlist':
        nl = system.neighborlist(cutoff=cutoff, **kw)
        return nl.nlist, nl
    if how == 'rebuild':                            # an object that already holds a list is built a second time
        target.build(system, cutoff, **kw)
        return target.nlist, target
    if how == 'nlist-positional':
        return (nlfun(system, cutoff) if sizes is None else nlfun(system, cutoff, sizes[0], sizes[1])), None
    return nlfun(system, cutoff, **kw), None


def run_history(ctx, am, rec, state, nlfun, tmpdir, n_hist):
    forms = ['path', 'content', 'stream', 'pathlib', 'System.neighborlist']
    for i in ctx.cases('history', n_hist):
        rng = ctx.rng
        plan = S.gen_history(rng, i)
        meta, frames = plan['meta'], plan['frames']
        kept = []
        system = None
        prev_rows = None
        prev_how = None
        infos = []
        live = []                                   # (frame, NeighborList, rows) of objects that still show their frame
        rec.count('history:sizes:' + meta['sizes_class'])
        rec.count('history:target:' + meta['target'])
        rec.count('history:tiny', int(meta['tiny']))
        for k, fr in enumerate(frames):
            step, how = fr['step'], fr['how']
            sizes = None if fr['default_sizes'] else plan['sizes']
            ok = False
            with ctx.guard('a System can be built / edited in place', 'history:System:' + step):
                system = new_system(am, fr) if k == 0 else apply_step(am, system, fr)
                ok = True
            if not ok:
                break
            cutoff = float(fr['cutoff'])            # a fresh, equal float object at every call
            info = oracle_for(system, cutoff)
            infos.append(info)
            n = len(info['pos'])
            npairs = int(info['adj'].sum()) // 2
            rec.case(('history', step, how, meta['sizes_class']), nontrivial=npairs > 0,
                     fp=fingerprint(info['pos'], info['vects'], info['origin'], list(info['pbc']), cutoff, step, how))
            if i < 24 and k == 1:
                rec.sample(dict(step=step, how=how, chain=[f['step'] + '/' + f['how'] for f in frames], sizes=plan['sizes'],
                                natoms=n, cutoff=cutoff, pbc=_pbc_str(info['pbc']), aux=meta['aux'], neighbour_pairs=npairs),
                           group='history')
            # ---- the caller overwrites the array it was handed, then asks again with equal arguments
            scribbled = False
            if step == 'repeat-equal' and meta['scribble'] and kept:
                victims = [kp for kp in kept if kp.frame == k - 1 and kp.label in ('built', 'copy')]
                for kp in victims:
                    if kp.arr is not None and np.asarray(kp.arr).flags.writeable:
                        np.asarray(kp.arr)[...] = -7
                        scribbled = True
                if scribbled:
                    kept = [kp for kp in kept if kp not in victims]
                    live = [t for t in live if t[0] != k - 1]
                    rec.count('history:caller-overwrote-its-array')
            # ---- the build
            target = None
            if how == 'rebuild':
                if not live:
                    # no object yet: a first list (other cutoff) is built into a fresh object and kept as well
                    c0 = 0.5 * cutoff
                    state.expected = {}
                    with ctx.guard('the neighbour list can be built for an in-domain system', 'build:NeighborList'):
                        t0 = am.NeighborList(system=system, cutoff=c0)
                        r0 = O.rows_from_array(t0.nlist)[1]
                        kept.append(Kept('built', k - 0.5, t0.nlist, None, r0, oracle_for(system, c0), (state.last_stats or {}).get('row_growths')))
                        live.append((k - 0.5, t0, r0))
                        rec.count('history:first-object-for-rebuild')
                if live:
                    fo, target, _r = live.pop(0)
                    for kp in kept:
                        if kp.nl is target:
                            kp.nl = None            # the object moves on; the arrays it handed out stay the caller's
                else:
                    how = 'NeighborList'
            state.expected = {id(system): info}
            arr = nl = None
            with ctx.guard('the neighbour list can be built for an in-domain system', f'build:{how}'):
                arr, nl = build_h(am, nlfun, system, cutoff, sizes, how, target)
            state.expected = {}
            if arr is None:
                break
            st = state.last_stats or {}
            grew = st.get('row_growths')
            rec.count('builds')
            rec.count('history:builds')
            rec.count('history:how:' + how)
            rec.count('history:step:' + step)
            rec.count(f'history:step-how:{step}:{how}')
            rec.check(unchanged(system, info), 'a build leaves positions, cell, origin and periodicity of the System as they were',
                      f'inputs:modified:{how}', **_detail(info))
            _, rows = O.rows_from_array(arr)
            if nl is not None:
                check_object(rec, nl, arr, rows, n)
            shp = tuple(np.asarray(arr).shape)
            same = [kp for kp in kept if kp.label == 'built' and kp.arr is not None and kp.shape == shp]
            rec.count('history:later-build-same-shape-as-kept', int(bool(same)))
            rec.count('history:later-build-same-shape-as-kept-that-never-grew', int(any(kp.grew == 0 for kp in same)))
            rec.count('history:later-build-same-shape:' + step, int(bool(same)))
            if step == 'repeat-equal' and prev_rows is not None:
                rec.count('repeat:comparisons')
                rec.count('repeat:after-caller-overwrote', int(scribbled))
                rec.check(rows == prev_rows, 'the same call with equal arguments gives the same lists', 'repeat:differs:' + how,
                          **_detail(info, after_overwrite=scribbled, atoms=[j for j in range(n) if j >= len(prev_rows) or rows[j] != prev_rows[j]][:5]))
            # ---- everything handed out earlier is judged again
            rejudge(rec, kept, step, info)
            kp = Kept('built', k, arr, nl, rows, info, grew)
            kept.append(kp)
            if nl is not None:
                live.append((k, nl, rows))
            prev_rows = rows
            # ---- echo: the entry point of the previous build is called again on what the caller has now (same object
            #      after an in-place edit, or the new system), with equal arguments
            if k >= 1 and prev_how is not None:
                he = prev_how
                te = None
                if he == 'rebuild':
                    cand = [t for t in live if t[1] is not nl]
                    if cand:
                        te = cand[0][1]
                        live.remove(cand[0])
                        for kq in kept:
                            if kq.nl is te:
                                kq.nl = None
                    else:
                        he = 'NeighborList'
                state.expected = {id(system): info}
                arr_e = nl_e = None
                with ctx.guard('the neighbour list can be built for an in-domain system', f'build:{he}'):
                    arr_e, nl_e = build_h(am, nlfun, system, float(fr['cutoff']), sizes, he, te)
                state.expected = {}
                if arr_e is not None:
                    rows_e = O.rows_from_array(arr_e)[1]
                    rec.count('builds')
                    rec.count('history:echo:' + he)
                    rec.count('history:echo-step:' + step)
                    rec.count('repeat:comparisons')
                    rec.check(rows_e == rows, 'the same call with equal arguments gives the same lists', 'repeat:differs:echo:' + he,
                              **_detail(info, step=step, atoms=[j for j in range(n) if j >= len(rows_e) or rows_e[j] != rows[j]][:5]))
                    if nl_e is not None:
                        check_object(rec, nl_e, arr_e, rows_e, n)
                    rejudge(rec, kept, 'echo', info)
                    kept.append(Kept('built', k, arr_e, nl_e, rows_e, info, (state.last_stats or {}).get('row_growths')))
                    if nl_e is not None:
                        live.append((k, nl_e, rows_e))
            prev_how = how
            # ---- copies and read-back lists of the first result join the kept ones
            if k == 0 and meta['aux'] != 'none':
                aux = meta['aux']
                nl0 = nl
                if nl0 is None:
                    state.expected = {id(system): info}
                    with ctx.guard('the neighbour list can be built for an in-domain system', 'build:NeighborList'):
                        kw = {} if sizes is None else dict(initialsize=sizes[0], deltasize=sizes[1])
                        nl0 = am.NeighborList(system=system, cutoff=cutoff, **kw)
                        r0 = O.rows_from_array(nl0.nlist)[1]
                        rec.count('repeat:comparisons')
                        rec.check(r0 == rows, 'the same call with equal arguments gives the same lists', 'repeat:differs:NeighborList', **_detail(info))
                        kept.append(Kept('built', 0, nl0.nlist, nl0, r0, info, (state.last_stats or {}).get('row_growths')))
                        live.append((0, nl0, r0))
                    state.expected = {}
                if nl0 is not None:
                    made = None
                    with ctx.guard('a NeighborList can be copied, pickled, written and read', 'aux:' + aux):
                        if aux == 'deepcopy':
                            made = copy.deepcopy(nl0)
                        elif aux == 'pickle':
                            made = pickle.loads(pickle.dumps(nl0))
                        elif aux == 'copy':
                            made = copy.copy(nl0)
                        else:
                            made = roundtrip(rec, ctx, am, nl0, rows, n, tmpdir, aux.split(':')[1], info, fname='h0.txt', system=system)
                    if made is not None:
                        label = aux.split(':')[0].replace('load', 'loaded')
                        rec.count('history:aux:' + aux)
                        kq = Kept(label, 0, made.nlist, made, rows, info, None)
                        rejudge(rec, [kq], 'made', info)
                        kept.append(kq)
        else:
            # ---- end of the chain: oracle judgement of every kept built array, then dump / load of every live object
            for kp in kept:
                if kp.label == 'built' and kp.arr is not None and kp.info is not None:
                    check_array(rec, kp.arr, kp.info, 'kept')
                    rec.count('kept:oracle-judged')
            info = infos[-1]
            loaded = []
            for m, (fo, nlo, r) in enumerate(live):
                if nlo is None:
                    continue
                inf = infos[int(np.ceil(fo))] if fo == int(fo) else None
                back = roundtrip(rec, ctx, am, nlo, r, len(r), tmpdir, forms[(i + m) % len(forms)], inf or info,
                                 fname='h%d.txt' % (m + 1), system=system)
                if back is not None:
                    bshape = tuple(np.asarray(back.nlist).shape)
                    rec.count('history:later-load-same-shape-as-kept-loaded',
                              int(any(kp.label == 'loaded' and kp.shape == bshape for kp in kept)))
                    rejudge(rec, kept, 'load', info)
                    kq = Kept('loaded', fo, back.nlist, back, r, None, None)
                    kept.append(kq)
                    loaded.append((kq, 'h%d.txt' % (m + 1)))
            # an object that was read from one file reads another one: the arrays it handed out before stay
            if len(loaded) >= 2:
                kq, _f = loaded[0]
                kq2, f2 = loaded[-1]
                obj = kq.nl
                if obj is not None:
                    kq.nl = None
                    okl = False
                    with ctx.guard('NeighborList.load reads a second file into an existing object', 'roundtrip:reload'):
                        obj.load(os.path.join(tmpdir, f2))
                        okl = True
                    if okl:
                        rec.count('history:reload')
                        rejudge(rec, kept, 'reload', info)
                        rejudge(rec, [Kept('loaded', kq2.frame, obj.nlist, obj, kq2.rows)], 'reload-self', info)
            # ---- the first call once more, on a fresh equal system, after everything that happened in between
            fr0, inf0 = frames[0], infos[0]
            fresh = None
            with ctx.guard('a System can be built from cell, origin, pbc and positions', 'build:System'):
                fresh = am.System(atoms=am.Atoms(pos=np.array(inf0['pos'])), pbc=inf0['pbc'],
                                  box=am.Box(avect=inf0['vects'][0], bvect=inf0['vects'][1], cvect=inf0['vects'][2], origin=inf0['origin']))
            first = next((kp for kp in kept if kp.label == 'built' and kp.frame == 0), None)
            if fresh is not None and unchanged(fresh, inf0):
                state.expected = {id(fresh): inf0}
                arr = None
                with ctx.guard('the neighbour list can be built for an in-domain system', 'build:' + HOWS3[i % 3]):
                    arr, _nl = build_h(am, nlfun, fresh, float(inf0['cutoff']), plan['sizes'], HOWS3[i % 3])
                state.expected = {}
                if arr is not None:
                    rec.count('builds')
                    rows = O.rows_from_array(arr)[1]
                    rows0 = first.rows if first is not None else None
                    if rows0 is not None:
                        rec.count('repeat:comparisons')
                        rec.count('repeat:first-call-again-at-the-end')
                        rec.check(rows == rows0, 'the same call with equal arguments gives the same lists', 'repeat:differs:end-of-chain',
                                  **_detail(inf0, atoms=[j for j in range(len(rows0)) if j >= len(rows) or rows[j] != rows0[j]][:5]))
                    rejudge(rec, kept, 'first-call-again', inf0)
            else:
                rec.count('repeat:fresh-system-not-bitwise-equal (skipped)')
        state.expected = {}


HOWS3 = ['NeighborList', 'System.neighborlist', 'nlist']


def run(ctx):
    import atomman as am
    rec = ctx.rec
    nlmod = sys.modules['atomman.core.nlist']
    state = State()
    nlfun, npatched = install_monitors(rec, state, nlmod)
    rec.count('monitor:aliases-patched', npatched)

    asan = ctx.flavour == 'asan'
    n_sys = ctx.pick(600, 8000)
    n_hist = ctx.pick(360, 3600)
    shrink = 1
    if asan:
        n_sys //= 8
        n_hist //= 6
        shrink = 2
    # inside the shadow tree when there is one: removed with it even if this worker is killed
    sh = os.environ.get('VF_SHADOW')
    tmpdir = tempfile.mkdtemp(prefix='vf-c03-', dir=sh if sh and os.path.isdir(sh) else None)
    hows = ['NeighborList', 'System.neighborlist', 'nlist']
    forms = ['path', 'content', 'stream']
    try:
        for i in ctx.cases('systems', n_sys):
            rng = ctx.rng
            case = S.gen_system(rng, i, thorough=not ctx.quick, shrink=shrink)
            meta = case['meta']
            config = meta['config']
            n = len(case['pos'])
            cutoff = case['cutoff']
            if not meta['inside']:
                rec.count('generator:atom-outside-cell (case skipped)')
                continue
            system = None
            q = i // len(S.CONFIGS)
            pform, pos_in = pos_form(case['pos'], POSFORMS[q % len(POSFORMS)])
            tform = TYPEFORMS[(q // 2) % len(TYPEFORMS)]
            cform, cutoff_arg = cutoff_form(cutoff, q, case['exact'])
            sform = SIZEFORMS[q % len(SIZEFORMS)]
            with ctx.guard('a System can be built from cell, origin, pbc and positions', 'build:System'):
                box = am.Box(avect=case['vects'][0], bvect=case['vects'][1], cvect=case['vects'][2], origin=case['origin'])
                akw, skw = {}, {}
                if tform == 'several-types' and n >= 2:
                    akw['atype'] = np.array([1 + j % 3 for j in rng.permutation(n)])
                    if n < 3:
                        akw['atype'] = np.arange(1, n + 1)
                    skw['symbols'] = ('Al', 'Cu', 'Ni')[:int(akw['atype'].max())]
                elif tform == 'trailing-unpopulated-type':
                    akw['atype'] = np.ones(n, dtype=int)
                    skw['symbols'] = ('Al', 'Cu', 'Ni')
                system = am.System(atoms=am.Atoms(pos=pos_in, **akw), box=box, pbc=case['pbc'], **skw)
            if system is None:
                continue
            if not rec.check(np.asarray(system.atoms.pos).dtype == np.float64 and np.array_equal(np.asarray(system.atoms.pos), case['pos']),
                             'positions handed over as list / integer / strided / Fortran-ordered array are stored with their values',
                             'build:System:pos-form:' + pform, dtype=str(np.asarray(system.atoms.pos).dtype)):
                continue
            info = oracle_for(system, cutoff, exact=case['exact'])
            state.expected = {id(system): info}
            adj, ex, tab = info['adj'], info['exempt'], info['tab']
            npairs = int(adj.sum()) // 2
            selfimg = int((np.diag(tab['nimg']) > 1).sum())
            rec.case((config, meta['kind'], _pbc_str(case['pbc'])), nontrivial=(npairs > 0 or selfimg > 0),
                     fp=fingerprint(info['pos'], info['vects'], info['origin'], list(case['pbc']), cutoff))
            if i < 40:
                rec.sample(dict(config=config, kind=meta['kind'], pbc=_pbc_str(case['pbc']), natoms=n, cutoff=cutoff,
                                cutoff_over_wmin=meta['cutoff_over_wmin'], sizes=case['sizes'], neighbour_pairs=npairs,
                                vects=info['vects'], origin=info['origin'], pos_head=info['pos'][:4]), group=config)
            # ---- what the input actually contains (coverage of the hostile classes)
            off = ~np.eye(n, dtype=bool)
            cross = adj & (tab['direct'] >= cutoff)
            rec.count('class:' + config)
            rec.count('class:pbc:' + _pbc_str(case['pbc']))
            rec.count('class:sizes:%d,%d' % case['sizes'])
            rec.count('class:cutoff:' + ('<0.3w' if meta['cutoff_over_wmin'] < 0.3 else '<1w' if meta['cutoff_over_wmin'] < 1 else '>=1w'))
            rec.count('class:N=1', int(n == 1))
            rec.count('class:N=2..3', int(2 <= n <= 3))
            rec.count('class:N>=300', int(n >= 300))
            rec.count('class:N>=1000', int(n >= 1000))
            rec.count('class:origin:' + str(meta['origin']))
            rec.count('class:pos-form:' + pform)
            rec.count('class:types:' + tform)
            rec.count('class:cutoff-form:' + cform)
            rec.count('class:sizes-form:' + sform)
            rec.count('cover:pairs-only-across-a-periodic-face', int(cross.sum()) // 2)
            rec.count('cover:cases-with-cross-face-pairs', int(cross.any()))
            rec.count('cover:atoms-with-own-image-inside-cutoff', selfimg)
            rec.count('cover:pairs-with-several-images-inside-cutoff', int(((tab['nimg'] > 1) & off).sum()) // 2)
            rec.count('cover:max-coordination>=41', int(adj.sum(axis=1).max(initial=0) >= 41))
            rec.count('cover:max-coordination>=51', int(adj.sum(axis=1).max(initial=0) >= 51))
            if case['exact']:
                rec.count('cover:exact-pairs-at-cutoff', int(((tab['dmin'] == cutoff) & off).sum()) // 2)
            if config == 'faces':
                rec.count('cover:on-face-coordinates', meta['notes']['on_face_coords'])
            if config == 'binedge':
                rec.count('cover:atoms-at-bin-edges', meta['notes']['binedge_atoms'])
            if config == 'sparse_cross':
                rec.count('cover:cross-pairs-built', meta['notes']['cross_pairs_built'])

            # ---- builds: own storage pair first, then the others
            how = hows[(i // 3) % 3]
            size_list = [case['sizes']]
            others = [s for s in S.SIZES if s != case['sizes']]
            if n <= FIVE_SIZES_MAX_N:
                size_list += others
                size_list.append((int(rng.integers(1, 31)), int(rng.integers(1, 16))))     # any sizes >= 1
            else:
                size_list += [s for s in ((1, 1), (20, 10)) if s != case['sizes']]
            first_rows, first_nl, first_arr = None, None, None
            kept = []
            for k, sizes in enumerate(size_list):
                arr = nl = None
                hk = how if k == 0 else hows[(i + k) % 3]
                with ctx.guard('the neighbour list can be built for an in-domain system', f'build:{hk}'):
                    arr, nl = build(am, nlfun, system, cutoff_arg, size_form(sizes, sform), hk, positional=bool((i + k) % 2))
                if arr is None:
                    continue
                if k == 0:
                    rec.check(unchanged(system, info), 'a build leaves positions, cell, origin and periodicity of the System as they were',
                              f'inputs:modified:{hk}', **_detail(info))
                rec.count('builds')
                rec.count('builds:' + hk)
                st = state.last_stats or {}
                if k == 0 and config == 'sparse_cross' and st.get('bins_ghost_only_swept', 0) > 0 and cross.any() \
                        and st.get('max_bin_occupancy', 99) <= 2:
                    rec.count('cover:sparse-cross-pair-with-ghost-only-bins')
                _, rows = O.rows_from_array(arr)
                if nl is not None:
                    check_object(rec, nl, arr, rows, n)
                kept.append(Kept('built', k, arr, nl, rows))
                if first_rows is None:
                    first_rows, first_nl, first_arr = rows, nl, arr
                else:
                    same = rows == first_rows
                    rec.check(same, 'the lists do not depend on (initialsize, deltasize)', 'storage:differs',
                              **_detail(info, sizes_a=size_list[0], sizes_b=sizes,
                                        atoms=[j for j in range(n) if rows[j] != first_rows[j]][:5]))
                    rec.count('storage:comparisons')
            if first_rows is None:
                continue
            # ---- file round trip
            if first_nl is None:
                with ctx.guard('the neighbour list can be built for an in-domain system', 'build:NeighborList'):
                    first_nl = am.NeighborList(system=system, cutoff=cutoff, initialsize=case['sizes'][0], deltasize=case['sizes'][1])
                    _, first_rows = O.rows_from_array(first_nl.nlist)
            if first_nl is not None:
                roundtrip(rec, ctx, am, first_nl, first_rows, n, tmpdir, forms[(i // 7) % 3], info)
                if i % 50 == 0:
                    # the documented System.neighborlist(model=...) form of reading the file back
                    back = None
                    path = os.path.join(tmpdir, 'nl.txt')
                    with ctx.guard('System.neighborlist(model=...) reads the written file', 'roundtrip:System.neighborlist(model)'):
                        back = system.neighborlist(model=path)
                    if back is not None:
                        rec.count('roundtrip:System.neighborlist(model)')
                        bad = [j for j in range(n) if np.asarray(back[j]).tolist() != first_rows[j]]
                        rec.check(len(back) == n and not bad, 'every list survives dump / System.neighborlist(model=...)',
                                  'roundtrip:System.neighborlist(model):rows', natoms=n)
            rejudge(rec, kept, 'end-of-case', info)
            # ---- positions held in single precision: outside the quantifier; a loud refusal is accepted and counted,
            #      a list that is returned is judged like any other
            if q % 6 == 5 and n <= FIVE_SIZES_MAX_N:
                p32 = np.asarray(info['pos'], np.float32)
                if np.array_equal(p32.astype(float), info['pos']):
                    rec.count('class:pos-form:float32-exact')
                    arr32 = None
                    with ctx.guard('float32 positions: refused loudly or answered correctly', 'build:float32-positions',
                                   accept=(ValueError, TypeError)):
                        s32 = am.System(atoms=am.Atoms(pos=p32), box=am.Box(avect=case['vects'][0], bvect=case['vects'][1],
                                        cvect=case['vects'][2], origin=case['origin']), pbc=case['pbc'])
                        state.expected = {id(s32): info}
                        arr32, _nl = build(am, nlfun, s32, cutoff, case['sizes'], hows[q % 3])
                    if arr32 is not None:
                        rec.count('float32-positions:answered')
                        rec.check(O.rows_from_array(arr32)[1] == first_rows, 'float32 positions give the list of the same float64 positions',
                                  'float32-positions:differs', **_detail(info))
            state.expected = {}
        run_history(ctx, am, rec, state, nlfun, tmpdir, n_hist)
    finally:
        shutil.rmtree(tmpdir, ignore_errors=True)

    for k, v_ in monitor.calls.items():
        if isinstance(v_, int):
            rec.count('monitor_calls:' + k, v_)
    if monitor.calls.get('nlist:post_error') or monitor.calls.get('nlist:pre_error'):
        # a bug in the monitor itself: never 'held'
        raise RuntimeError('C03 monitor raised: ' + ''.join(monitor.calls.get('_post_tracebacks', [])[:1]))
    # ---- coverage floors (deterministic by construction of the stratification)
    rec.floor('monitor_calls:nlist', 300)
    rec.floor('hook:reported', 300)
    rec.floor('hook:cases_ghost_only_bin_swept', 100)
    rec.floor('cover:sparse-cross-pair-with-ghost-only-bins', 10)
    rec.floor('hook:cases_row_growth', 50)
    rec.floor('hook:cases_bin_growth', 10)
    rec.floor('hook:cases_bin_growth_twice', 5)
    rec.floor('hook:cases_zero_ghosts', 20)
    for c in S.CONFIGS:
        rec.floor('class:' + c, 8)
    for p in range(8):
        rec.floor('class:pbc:' + _pbc_str(((p & 1), (p & 2), (p & 4))), 8)
    for s_ in S.SIZES:
        rec.floor('class:sizes:%d,%d' % s_, 8)
    for c in ('<0.3w', '<1w', '>=1w'):
        rec.floor('class:cutoff:' + c, 8)
    rec.floor('class:N=1', 2)
    rec.floor('class:N=2..3', 4)
    rec.floor('cover:pairs-only-across-a-periodic-face', 100)
    rec.floor('cover:atoms-with-own-image-inside-cutoff', 20)
    rec.floor('cover:pairs-with-several-images-inside-cutoff', 20)
    rec.floor('cover:max-coordination>=51', 3)
    rec.floor('cover:exact-pairs-at-cutoff', 50)
    rec.floor('cover:on-face-coordinates', 50)
    rec.floor('cover:atoms-at-bin-edges', 50)
    rec.floor('pairs_exempt_near_cutoff', 1)
    rec.floor('pairs_decided', 1000)
    rec.floor('storage:comparisons', 300)
    rec.floor('roundtrip:path', 10)
    rec.floor('roundtrip:content', 10)
    rec.floor('roundtrip:stream', 10)
    # ---- round 4: argument forms, kept results, call histories
    for f in ('float64', 'list', 'fortran', 'strided', 'tuple'):
        rec.floor('class:pos-form:' + f, 20)
    rec.floor('class:pos-form:int', 3)
    rec.floor('class:pos-form:float32-exact', 3)
    for f in TYPEFORMS:
        rec.floor('class:types:' + f, 50)
    for f in ('float', 'np.float64', '0-d array'):
        rec.floor('class:cutoff-form:' + f, 50)
    for f in ('int', 'np.int64', 'np.float32'):
        rec.floor('class:cutoff-form:' + f, 3)
    for f in SIZEFORMS:
        rec.floor('class:sizes-form:' + f, 50)
    rec.floor('history:builds', 1000)
    for st_ in S.HSTEPS:
        rec.floor('history:step:' + st_, 40)
    for h in S.HHOWS:
        rec.floor('history:how:' + h, 150)
    for st_ in S.HSTEPS:
        for h in S.HHOWS:
            rec.floor(f'history:step-how:{st_}:{h}', 2)
    for c in S.HSIZES:
        rec.floor('history:sizes:' + c, 100)
    for c in S.HTARGETS:
        rec.floor('history:target:' + c, 100)
    rec.floor('history:tiny', 30)
    for a_ in S.HAUX:
        if a_ != 'none':
            rec.floor('history:aux:' + a_, 20)
    rec.floor('history:later-build-same-shape-as-kept', 200)
    rec.floor('history:later-build-same-shape-as-kept-that-never-grew', 100)
    rec.floor('history:later-load-same-shape-as-kept-loaded', 20)
    rec.floor('history:reload', 100)
    for h in S.HHOWS:
        rec.floor('history:echo:' + h, 100)
    for st_ in S.HSTEPS:
        rec.floor('history:echo-step:' + st_, 40)
    rec.floor('history:caller-overwrote-its-array', 10)
    rec.floor('kept:rejudged:array', 3000)
    rec.floor('kept:rejudged:object', 1500)
    rec.floor('kept:oracle-judged', 1000)
    rec.floor('repeat:comparisons', 300)
    rec.floor('repeat:after-caller-overwrote', 10)
    rec.floor('repeat:first-call-again-at-the-end', 250)
