"""C03 - Neighbour list lists exactly the pairs closer than the cutoff.

Clauses (each decided by its own monitor; see RULE / the evidence counters):
  membership   j in list(i)  <=>  j != i and 27-image distance < cutoff       (oracle: O(N^2) brute force)
  structure    symmetric, sorted ascending, no duplicates, no self entries, indices in range
  coord        coord[i] == len(list(i)) == number of expected neighbours
  storage      identical lists for (initialsize, deltasize) in {(1,1),(1,3),(2,1),(5,7),(20,10)}
  roundtrip    dump() writes the list (independent reader), NeighborList(model=...) returns it unchanged
"""
from __future__ import annotations

import os
import shutil
import sys
import tempfile

import numpy as np

from ..core import fingerprint
from ..gen import c03_systems as S
from ..oracle import c03_nlist as O
from .. import monitor

RULE = ('systems are generated round-robin over 10 configuration classes (sparse, sparse pairs across periodic faces, '
        'dense random, >40/>50/>60-atom clusters inside one bin, small crystals with the cutoff between or exactly on '
        'shells, atoms with relative coordinates exactly 0/1, atoms on and mirrored about bin edges, cutoff above the '
        'cell widths, exact integer lattices with pairs exactly at the cutoff, N=1..3) x 9 cell kinds (7 families, '
        'strongly tilted, rotated; exact class: integer cells with integer tilts) x 3 origin classes x 3 length scales '
        'x 8 periodicity settings x 5 storage-size pairs; every system is built with its own storage pair and with '
        '(1,1)/(20,10) (all five plus one random pair in [1,30]x[1,15] when N<=150) through NeighborList(...), System.neighborlist(...) or nlist(...), and is '
        'written and read back.  A case is non-trivial when the oracle finds at least one neighbour pair (or an atom '
        'whose own image lies inside the cutoff); distinct = distinct fingerprint of (positions, cell, origin, pbc, cutoff).')
ASSUMPTIONS = ['all atoms lie inside the cell (relative coordinates in [0,1], faces included): the stated precondition',
               'pairs whose 27-image distance is within 1e-9*cutoff + 64*eps*(|pos|max + 3L) of the cutoff are exempt '
               '(counted), except in the exact integer-lattice class where the comparison is exact and strict',
               'cells are right-handed with volume >= 10% of a*b*c; the bin grid is kept below 40000 bins by raising '
               'the smallest cutoffs in elongated/tilted cells',
               'the oracle uses the cell, origin and positions read back from the System object',
               'oracle shares numpy with the code under test']

CONFIG = {'quick': {'timeout': 900}, 'thorough': {'timeout': 3000}}

FIVE_SIZES_MAX_N = 150


class State:
    def __init__(self):
        self.expected = {}      # id(system) -> dict(cutoff, adj, exempt, tab, exact, detail)
        self.last_stats = None


def _pbc_str(pbc):
    return ''.join('T' if p else 'F' for p in pbc)


def _detail(info, **extra):
    d = dict(vects=info['vects'], origin=info['origin'], pbc=info['pbc'], cutoff=info['cutoff'], natoms=len(info['pos']))
    if len(info['pos']) <= 40:
        d['pos'] = info['pos']
    d.update(extra)
    return d


def oracle_for(system, cutoff, exact=False):
    pos = np.array(system.atoms.pos, float)
    vects = np.array(system.box.vects, float)
    origin = np.array(system.box.origin, float)
    pbc = tuple(bool(x) for x in system.pbc)
    bound = 0.0 if exact else O.compare_bound(pos, vects, cutoff)
    adj, ex, tab = O.expected(pos, vects, pbc, cutoff, bound)
    return dict(cutoff=cutoff, adj=adj, exempt=ex, tab=tab, exact=exact, bound=bound,
                pos=pos, vects=vects, origin=origin, pbc=pbc)


def check_array(rec, arr, info, where):
    """All clauses that can be decided on the raw (N, 1+width) array."""
    n = len(info['pos'])
    a = np.asarray(arr)
    ok = rec.check(a.ndim == 2 and a.shape[0] == n and a.shape[1] >= 1 and np.issubdtype(a.dtype, np.integer),
                   'the list is an integer array with one row per atom', f'{where}:array-shape',
                   shape=a.shape, dtype=str(a.dtype), natoms=n)
    if not ok:
        return None
    coord = a[:, 0]
    okc = rec.check(bool((coord >= 0).all() and (coord <= a.shape[1] - 1).all()),
                    'coordination numbers lie between 0 and the row capacity', f'{where}:coord-range',
                    **_detail(info, coord=coord[:20], width=a.shape[1]))
    _, rows = O.rows_from_array(a)
    rep = O.structure_report(rows, n)
    rec.check(rep['range'] == 0, 'neighbour ids are atom indices', f'{where}:rows:index-range', **_detail(info, first=rep['first'].get('range')))
    rec.check(rep['unsorted'] == 0, 'every list is sorted ascending', f'{where}:rows:unsorted', **_detail(info, first=rep['first'].get('unsorted')))
    rec.check(rep['duplicate'] == 0, 'no list holds a duplicate', f'{where}:rows:duplicate', **_detail(info, first=rep['first'].get('duplicate')))
    rec.check(rep['self'] == 0, 'no atom is its own neighbour', f'{where}:rows:self', **_detail(info, first=rep['first'].get('self')))
    m, bad = O.adjacency_from_rows(rows, n)
    asym = m & ~m.T
    rec.check(not asym.any(), 'lists are symmetric', f'{where}:rows:asymmetric', **_detail(info, pairs=np.argwhere(asym)[:5]))
    adj, ex = info['adj'], info['exempt']
    missing = adj & ~m & ~ex
    spurious = m & ~adj & ~ex
    np.fill_diagonal(spurious, False)
    dmin = info['tab']['dmin']
    if info['exact']:
        at = spurious & (dmin == info['cutoff'])
        spurious = spurious & ~at
        rec.check(not at.any(), 'a pair exactly at the cutoff is not listed (distance must be below the cutoff)',
                  f'{where}:membership:at-cutoff', **_detail(info, pairs=np.argwhere(at)[:5]))
    pm = np.argwhere(missing)[:5]
    rec.check(not missing.any(), 'every pair closer than the cutoff is listed', f'{where}:membership:missing',
              **_detail(info, pairs=pm, dmin=[dmin[i, j] for i, j in pm], direct=[info['tab']['direct'][i, j] for i, j in pm],
                        n_missing=int(missing.sum())))
    ps = np.argwhere(spurious)[:5]
    rec.check(not spurious.any(), 'no pair at or beyond the cutoff is listed', f'{where}:membership:spurious',
              **_detail(info, pairs=ps, dmin=[dmin[i, j] for i, j in ps], n_spurious=int(spurious.sum())))
    decided_rows = ~ex.any(axis=1)
    want = adj.sum(axis=1)
    if okc:
        badc = decided_rows & (coord != want)
        rec.check(not badc.any(), 'coord[i] is the number of neighbours of atom i', f'{where}:coord:count',
                  **_detail(info, atoms=np.flatnonzero(badc)[:5], got=coord[badc][:5], expected=want[badc][:5]))
    rec.count('pairs_decided', int((~ex).sum() - n) // 2)
    rec.count('pairs_exempt_near_cutoff', int(ex.sum()) // 2)
    rec.count('pairs_listed', int(m.sum()) // 2)
    return rows


def install_monitors(rec, state, nlmod):
    """Postcondition on the Cython entry point itself: fires on every call,
    whichever public entry point made it."""

    def post(args, kwargs, result, exc, old):
        st = dict(nlmod._verif_stats)
        state.last_stats = st if exc is None else None
        if exc is not None:
            return
        rec.count('hook:calls')
        if st:
            rec.count('hook:reported')
            rec.count('hook:ghost_only_bins_swept', st.get('bins_ghost_only_swept', 0))
            rec.count('hook:cases_ghost_only_bin_swept', int(st.get('bins_ghost_only_swept', 0) > 0))
            rec.count('hook:cases_row_growth', int(st.get('row_growths', 0) > 0))
            rec.count('hook:row_growth_events', st.get('row_growths', 0))
            rec.count('hook:cases_bin_growth', int(st.get('bin_growths', 0) >= 1))
            rec.count('hook:cases_bin_growth_twice', int(st.get('bin_growths', 0) >= 2))
            rec.count('hook:cases_zero_ghosts', int(st.get('nghosts', -1) == 0))
            rec.count('hook:real_bins_unswept', st.get('bins_real_unswept', 0))
        system = args[0] if args else kwargs.get('system')
        cutoff = args[1] if len(args) > 1 else kwargs.get('cutoff')
        info = state.expected.get(id(system))
        if info is None or info['cutoff'] != cutoff:
            if system.natoms > 600:
                rec.count('monitor:nlist:too-large-for-inline-oracle')
                return
            info = oracle_for(system, cutoff)
        check_array(rec, result, info, 'nlist')

    return monitor.observe_function(nlmod.nlist, post, label='nlist')


def build(am, nlfun, system, cutoff, sizes, how):
    """One build through one of the public entry points; returns (raw array, NeighborList or None)."""
    ini, dl = sizes
    if how == 'NeighborList':
        nl = am.NeighborList(system=system, cutoff=cutoff, initialsize=ini, deltasize=dl)
        return nl.nlist, nl
    if how == 'System.neighborlist':
        nl = system.neighborlist(cutoff=cutoff, initialsize=ini, deltasize=dl)
        return nl.nlist, nl
    return nlfun(system, cutoff, initialsize=ini, deltasize=dl), None


def check_object(rec, nl, arr, rows, n):
    ok = len(nl) == n and np.array_equal(np.asarray(nl.coord), np.asarray(arr)[:, 0])
    lens_ok = True
    if ok:
        for i in range(n):
            r = np.asarray(nl[i]).tolist()
            if r != rows[i]:
                ok = False
                break
            if len(r) != int(nl.coord[i]):
                lens_ok = False
    rec.check(ok, 'NeighborList[i], .coord and len() present the rows of the underlying array', 'object:view', natoms=n)
    rec.check(lens_ok, 'coord[i] == len(NeighborList[i])', 'object:coord-length', natoms=n)


def roundtrip(rec, ctx, am, nl, rows, n, tmpdir, form, info):
    path = os.path.join(tmpdir, 'nl.txt')
    done = False
    with ctx.guard('NeighborList.dump writes the list', 'roundtrip:dump'):
        nl.dump(path)
        done = True
    if not done:
        return
    text = open(path).read()
    parsed, nlines = O.parse_file(text)
    ok = nlines == n and sorted(parsed) == list(range(n)) and all(parsed[i] == rows[i] for i in range(n))
    rec.check(ok, 'the written file holds one line per atom: index followed by its neighbours', 'roundtrip:file-content',
              **_detail(info, head=text[:300]))
    back = None
    with ctx.guard('NeighborList(model=...) reads the written file', f'roundtrip:load:{form}'):
        if form == 'path':
            back = am.NeighborList(model=path)
        elif form == 'content':
            back = am.NeighborList(model=text)
        else:
            with open(path, 'rb') as f:
                back = am.NeighborList(model=f)
    if back is None:
        return
    rec.count('roundtrip:' + form)
    okn = rec.check(len(back) == n, 'read-back list has one row per atom', 'roundtrip:natoms', got=len(back), natoms=n)
    if not okn:
        return
    c0 = np.array([len(r) for r in rows])
    rec.check(np.array_equal(np.asarray(back.coord), c0), 'coord survives dump/load', 'roundtrip:coord',
              **_detail(info, got=np.asarray(back.coord)[:20], expected=c0[:20]))
    bad = [i for i in range(n) if np.asarray(back[i]).tolist() != rows[i]]
    rec.check(not bad, 'every list survives dump/load', 'roundtrip:rows',
              **_detail(info, atom=bad[:3], got=[np.asarray(back[i]).tolist()[:12] for i in bad[:3]], expected=[rows[i][:12] for i in bad[:3]]))
    bn = np.asarray(back.nlist)
    rec.check(bn.ndim == 2 and bn.shape[0] == n and np.array_equal(bn[:, 0], c0), 'read-back .nlist array leads with coord', 'roundtrip:nlist-array')


def run(ctx):
    import atomman as am
    rec = ctx.rec
    nlmod = sys.modules['atomman.core.nlist']
    state = State()
    nlfun, npatched = install_monitors(rec, state, nlmod)
    rec.count('monitor:aliases-patched', npatched)

    asan = ctx.flavour == 'asan'
    n_sys = ctx.pick(600, 8000)
    shrink = 1
    if asan:
        n_sys //= 8
        shrink = 2
    # inside the shadow tree when there is one: removed with it even if this worker is killed
    sh = os.environ.get('VF_SHADOW')
    tmpdir = tempfile.mkdtemp(prefix='vf-c03-', dir=sh if sh and os.path.isdir(sh) else None)
    hows = ['NeighborList', 'System.neighborlist', 'nlist']
    forms = ['path', 'content', 'stream']
    try:
        for i in ctx.cases('systems', n_sys):
            rng = ctx.rng
            case = S.gen_system(rng, i, thorough=not ctx.quick, shrink=shrink)
            meta = case['meta']
            config = meta['config']
            n = len(case['pos'])
            cutoff = case['cutoff']
            if not meta['inside']:
                rec.count('generator:atom-outside-cell (case skipped)')
                continue
            system = None
            with ctx.guard('a System can be built from cell, origin, pbc and positions', 'build:System'):
                box = am.Box(avect=case['vects'][0], bvect=case['vects'][1], cvect=case['vects'][2], origin=case['origin'])
                system = am.System(atoms=am.Atoms(pos=np.array(case['pos'])), box=box, pbc=case['pbc'])
            if system is None:
                continue
            info = oracle_for(system, cutoff, exact=case['exact'])
            state.expected = {id(system): info}
            adj, ex, tab = info['adj'], info['exempt'], info['tab']
            npairs = int(adj.sum()) // 2
            selfimg = int((np.diag(tab['nimg']) > 1).sum())
            rec.case((config, meta['kind'], _pbc_str(case['pbc'])), nontrivial=(npairs > 0 or selfimg > 0),
                     fp=fingerprint(info['pos'], info['vects'], info['origin'], list(case['pbc']), cutoff))
            if i < 40:
                rec.sample(dict(config=config, kind=meta['kind'], pbc=_pbc_str(case['pbc']), natoms=n, cutoff=cutoff,
                                cutoff_over_wmin=meta['cutoff_over_wmin'], sizes=case['sizes'], neighbour_pairs=npairs,
                                vects=info['vects'], origin=info['origin'], pos_head=info['pos'][:4]), group=config)
            # ---- what the input actually contains (coverage of the hostile classes)
            off = ~np.eye(n, dtype=bool)
            cross = adj & (tab['direct'] >= cutoff)
            rec.count('class:' + config)
            rec.count('class:pbc:' + _pbc_str(case['pbc']))
            rec.count('class:sizes:%d,%d' % case['sizes'])
            rec.count('class:cutoff:' + ('<0.3w' if meta['cutoff_over_wmin'] < 0.3 else '<1w' if meta['cutoff_over_wmin'] < 1 else '>=1w'))
            rec.count('class:N=1', int(n == 1))
            rec.count('class:N=2..3', int(2 <= n <= 3))
            rec.count('class:N>=300', int(n >= 300))
            rec.count('class:N>=1000', int(n >= 1000))
            rec.count('class:origin:' + str(meta['origin']))
            rec.count('cover:pairs-only-across-a-periodic-face', int(cross.sum()) // 2)
            rec.count('cover:cases-with-cross-face-pairs', int(cross.any()))
            rec.count('cover:atoms-with-own-image-inside-cutoff', selfimg)
            rec.count('cover:pairs-with-several-images-inside-cutoff', int(((tab['nimg'] > 1) & off).sum()) // 2)
            rec.count('cover:max-coordination>=41', int(adj.sum(axis=1).max(initial=0) >= 41))
            rec.count('cover:max-coordination>=51', int(adj.sum(axis=1).max(initial=0) >= 51))
            if case['exact']:
                rec.count('cover:exact-pairs-at-cutoff', int(((tab['dmin'] == cutoff) & off).sum()) // 2)
            if config == 'faces':
                rec.count('cover:on-face-coordinates', meta['notes']['on_face_coords'])
            if config == 'binedge':
                rec.count('cover:atoms-at-bin-edges', meta['notes']['binedge_atoms'])
            if config == 'sparse_cross':
                rec.count('cover:cross-pairs-built', meta['notes']['cross_pairs_built'])

            # ---- builds: own storage pair first, then the others
            how = hows[(i // 3) % 3]
            size_list = [case['sizes']]
            others = [s for s in S.SIZES if s != case['sizes']]
            if n <= FIVE_SIZES_MAX_N:
                size_list += others
                size_list.append((int(rng.integers(1, 31)), int(rng.integers(1, 16))))     # any sizes >= 1
            else:
                size_list += [s for s in ((1, 1), (20, 10)) if s != case['sizes']]
            first_rows, first_nl, first_arr = None, None, None
            for k, sizes in enumerate(size_list):
                arr = nl = None
                hk = how if k == 0 else hows[(i + k) % 3]
                with ctx.guard('the neighbour list can be built for an in-domain system', f'build:{hk}'):
                    arr, nl = build(am, nlfun, system, cutoff, sizes, hk)
                if arr is None:
                    continue
                rec.count('builds')
                rec.count('builds:' + hk)
                st = state.last_stats or {}
                if k == 0 and config == 'sparse_cross' and st.get('bins_ghost_only_swept', 0) > 0 and cross.any() \
                        and st.get('max_bin_occupancy', 99) <= 2:
                    rec.count('cover:sparse-cross-pair-with-ghost-only-bins')
                _, rows = O.rows_from_array(arr)
                if nl is not None:
                    check_object(rec, nl, arr, rows, n)
                if first_rows is None:
                    first_rows, first_nl, first_arr = rows, nl, arr
                else:
                    same = rows == first_rows
                    rec.check(same, 'the lists do not depend on (initialsize, deltasize)', 'storage:differs',
                              **_detail(info, sizes_a=size_list[0], sizes_b=sizes,
                                        atoms=[j for j in range(n) if rows[j] != first_rows[j]][:5]))
                    rec.count('storage:comparisons')
            if first_rows is None:
                continue
            # ---- file round trip
            if first_nl is None:
                with ctx.guard('the neighbour list can be built for an in-domain system', 'build:NeighborList'):
                    first_nl = am.NeighborList(system=system, cutoff=cutoff, initialsize=case['sizes'][0], deltasize=case['sizes'][1])
                    _, first_rows = O.rows_from_array(first_nl.nlist)
            if first_nl is not None:
                roundtrip(rec, ctx, am, first_nl, first_rows, n, tmpdir, forms[(i // 7) % 3], info)
                if i % 50 == 0:
                    # the documented System.neighborlist(model=...) form of reading the file back
                    back = None
                    path = os.path.join(tmpdir, 'nl.txt')
                    with ctx.guard('System.neighborlist(model=...) reads the written file', 'roundtrip:System.neighborlist(model)'):
                        back = system.neighborlist(model=path)
                    if back is not None:
                        rec.count('roundtrip:System.neighborlist(model)')
                        bad = [j for j in range(n) if np.asarray(back[j]).tolist() != first_rows[j]]
                        rec.check(len(back) == n and not bad, 'every list survives dump / System.neighborlist(model=...)',
                                  'roundtrip:System.neighborlist(model):rows', natoms=n)
            state.expected = {}
    finally:
        shutil.rmtree(tmpdir, ignore_errors=True)

    for k, v_ in monitor.calls.items():
        if isinstance(v_, int):
            rec.count('monitor_calls:' + k, v_)
    if monitor.calls.get('nlist:post_error') or monitor.calls.get('nlist:pre_error'):
        # a bug in the monitor itself: never 'held'
        raise RuntimeError('C03 monitor raised: ' + ''.join(monitor.calls.get('_post_tracebacks', [])[:1]))
    # ---- coverage floors (deterministic by construction of the stratification)
    rec.floor('monitor_calls:nlist', 300)
    rec.floor('hook:reported', 300)
    rec.floor('hook:cases_ghost_only_bin_swept', 100)
    rec.floor('cover:sparse-cross-pair-with-ghost-only-bins', 10)
    rec.floor('hook:cases_row_growth', 50)
    rec.floor('hook:cases_bin_growth', 10)
    rec.floor('hook:cases_bin_growth_twice', 5)
    rec.floor('hook:cases_zero_ghosts', 20)
    for c in S.CONFIGS:
        rec.floor('class:' + c, 8)
    for p in range(8):
        rec.floor('class:pbc:' + _pbc_str(((p & 1), (p & 2), (p & 4))), 8)
    for s_ in S.SIZES:
        rec.floor('class:sizes:%d,%d' % s_, 8)
    for c in ('<0.3w', '<1w', '>=1w'):
        rec.floor('class:cutoff:' + c, 8)
    rec.floor('class:N=1', 2)
    rec.floor('class:N=2..3', 4)
    rec.floor('cover:pairs-only-across-a-periodic-face', 100)
    rec.floor('cover:atoms-with-own-image-inside-cutoff', 20)
    rec.floor('cover:pairs-with-several-images-inside-cutoff', 20)
    rec.floor('cover:max-coordination>=51', 3)
    rec.floor('cover:exact-pairs-at-cutoff', 50)
    rec.floor('cover:on-face-coordinates', 50)
    rec.floor('cover:atoms-at-bin-edges', 50)
    rec.floor('pairs_exempt_near_cutoff', 1)
    rec.floor('pairs_decided', 1000)
    rec.floor('storage:comparisons', 300)
    rec.floor('roundtrip:path', 10)
    rec.floor('roundtrip:content', 10)
    rec.floor('roundtrip:stream', 10)
