"""C04 - Supercells and re-oriented cells contain the same infinite crystal.

Postcondition monitors sit on ``System.supersize`` and ``System.rotate`` (they
fire on every call, also the ones ``rotate`` and the cell-conversion dump
styles make internally); the two dump styles are judged at the call site.  The
judge is ``vf.oracle.c04_crystal.compare`` (independent of atomman).

Frame of "maps through the returned rotation": every call is evaluated under both
readings (plain rotation about the Cartesian origin / cell corners identified).
One call may satisfy either, but calls that can tell the readings apart (cell
corner off the lattice) must all satisfy the SAME one: within a case (``end_case``)
and within a run (``note_reading``).  The groups ``rotate-family`` and
``conversions-handed`` apply left- and right-handed descriptions (of the vector
set and of the unit cell) to one crystal and compare the results with one another
(``same_crystal_pair``), which does not depend on the reading at all.

Round 4: ``conversions-options`` (option profiles x motif classes x call paths x
construction paths of the two dump styles), ``conversion-refusals`` and
``histories`` (kept result / scribbled result / other instance / edited argument
objects / edited system / repeated call, for all four entry points); ``judge``
also carries a precision clause (float64 rounding, not only the matching distance).
"""
from __future__ import annotations

import contextlib

import numpy as np

from ..core import fingerprint
from ..gen import cells
from ..gen import c04_cells as gen
from ..oracle import c04_crystal as X
from .. import monitor, cover

# monitors are self-sufficient (judge a call from its arguments and result): the repository's own tests run under them
# as an extra workload in the thorough tier (vf/repotests.py)
REPOTESTS = True

RULE = ('unit cells: 9 cell kinds (7 crystal families, strongly tilted, arbitrarily oriented), 1-5 atoms, 1-3 types, an integer and '
        'a float-vector per-atom property, 5 position classes (generic / atom on the lattice point / only 0-and-1/2 positions / '
        'mixed / atoms on faces and edges), cell origin classes zero / a non-zero lattice vector / generic (non-lattice) within one '
        'cell vector of 0 / a few cells away / 1e3 cells away, right-handed cells and left-handed descriptions of them (one or all '
        'three cell vectors reversed, same crystal), and for supersize 3 length scales - all assigned round-robin from the case '
        'index.  supersize: 8 multiplier classes (positive, negative, two-sided, half-open tuples, numpy ints, tuples of numpy ints, '
        'mixed, unit), positional and keyword form, a quarter on left-handed cells.  rotate: EVERY integer 3x3 matrix with entries in '
        '[-1,1] and det != 0 (11 808, both handedness; first pass on origins zero / lattice / generic of three sizes, the further '
        'passes of the thorough tier on all five origin classes), seeded samples with entries up to 2 and 3 (an entry of maximal '
        'magnitude present, sign of det alternating, 4 argument forms, with and without return_transform), Miller-Bravais 3x4 sets '
        '(reduced and unreduced) on hexagonal cells, the documented refusals, and FAMILIES of five calls on one unit cell (identity, '
        'a vector set, the same three vectors with the opposite handedness - 7 flips -, identity and the same vectors on the '
        'left-handed description of the cell - 4 mirrors; 4 matrix sources x 5 origin classes x 7 flips x 9 cell kinds crossed by '
        'coprime strides) whose results are compared with one another.  Conversions: all 22 (setting, basis, family) combinations of '
        'p,i,f,a,b,c,t1,t2,t with a compatible family, both dump styles, both round trips, primitive input in raw and arbitrarily '
        'rotated orientation, and right- plus left-handed descriptions of one conventional / primitive cell on all five origin '
        'classes.  Conversion OPTIONS (round 4): the 22 combinations + 9 centred cells of non-conventional families x 5 motif classes '
        '(atom on the lattice point / generic / atoms on faces / one atom 1e-4 cell vectors off the lattice point / simple fractions '
        '- four of them WITHOUT an atom on the lattice point) x 7 option profiles of conventional_to_primitive (check_basis on/off, '
        'check_family on/off, caller-chosen smallshift in 5 argument forms, loosened rtol/atol of the basis check), so that the '
        'generic request t also arrives with the basis check off on obverse and reverse cells; 3 call paths (System.dump, am.dump, the '
        'style function with positional setting), 4 construction paths (direct, deepcopy, data-model round trip, a trailing '
        'unpopulated type; for supersize/rotate also float32 positions), each call repeated without return_transform.  Conversion '
        'REFUSALS: primitive motif / different types on the centring sites under every centred setting, smallshift not a 3-vector, '
        'setting names that do not exist (both styles, check on and off).  HISTORIES of all four entry points: first result kept; '
        'then the caller scribbles over it / another instance is processed with customised options / the argument objects are edited '
        'in place and reused / the system is edited in place and reused; the kept result is re-read, the input re-compared, the first '
        'call repeated on a fresh equal system; rotate gets 7 further argument forms (tuple, int8/int16/float32 arrays, list of rows, '
        'Fortran floats) and its tol option (float, list, tuple, array).  NEAR-FACE LADDER: one atom image 1.02..1.08e-4, 1.1..1.9e-5 '
        'and 1.5..9.5e-6 (relative) below three faces of the NEW cell, cyclic axis permutations and sampled vector sets of either '
        'handedness.  Non-trivial = the call changes the cell (replication > 1, '
        'vectors not the identity, setting not p); distinct = distinct fingerprint of (cell, atoms, argument).')
ASSUMPTIONS = ['cells are well conditioned (volume >= 10 % of abc), right-handed or a left-handed description of a right-handed one '
               '(cell vectors reversed, corner moved, atoms inside); atoms of one cell are at least 0.12 x the shortest cell vector apart',
               'matched positions are compared with the bound 1e-6 x longest original cell vector; "inside" is judged in '
               'relative coordinates with a 1e-9 bound',
               'per-atom property values must be carried over identically (vector properties are not expected to be rotated)',
               '"maps through the returned rotation" is accepted in either of two frames: x_orig = inv(T).x_res (the literal reading) '
               'or with the two cell corners identified (what rotate / normalize do since 3219638) - but the frame is a rule of the '
               'code, not a choice per call: both readings are evaluated for every call, and calls that can tell them apart (cell '
               'corner not on a lattice point) must agree within a case (all vector sets, both handednesses, identity shortcut, '
               'internal calls of the conversions on one unit cell) and within a run; results obtained from two descriptions of one '
               'crystal are also compared with each other directly (relative to their own cell corners), which does not depend on '
               'the reading; supersize is judged in absolute coordinates only',
               'a left-handed vector set (or a vector set on a left-handed cell) must return the crystal that the same three lattice '
               'vectors return when taken right-handed; when only the third vector is reversed also the same cell and rotation',
               'conventional_to_primitive refusing (check_basis) a cell that has no atom on its corner lattice point is a documented '
               'refusal; it occurs for c2p(p2c(x)) when x has a non-zero origin and is counted, not failed',
               'entries beyond [-1,1] are a seeded sample, not an enumeration (all of [-2,2] would be 1.9 million calls); '
               'conversions use cells of ordinary size (the style adds an absolute 0.001 shift)',
               'precision clause: besides matching within 1e-6 x the cell, matched atoms must agree to 500 eps x largest coordinate '
               'handled x (cond(old cell) + cond(new cell)); the rigid (common) part of the displacement of a conventional_to_primitive '
               'step may in addition be up to 1e-8 (numpy.isclose default atol: the style moves an atom found that near its periodic '
               'origin exactly onto it, the crystal with it).  Unchanged tree: all ratios < 100 on quick seeds 0-3',
               'conventional_to_primitive with the basis check ON may refuse any cell without an atom of one type on every lattice '
               'point (documented); with the check OFF and setting t it may refuse (nothing resolves t) - a result, if one is returned, '
               'is judged like any other; centred cells of non-conventional families (check_family=False) are in the quantifier '
               '("every centering setting with a compatible cell": the centring translations are closed modulo any cell)',
               'a caller-chosen smallshift has three non-zero components of 2e-4..8e-3 (either sign); a zero component would leave '
               'face atoms on the boundary the shift exists to avoid',
               'rotate with a caller-chosen tol list may refuse with "Filtering failed" (documented); float32 positions are used for '
               'supersize/rotate only (they break the centring of a centred cell at the 1e-7 level)',
               'staged finding rotate:near-face:asymmetric-rounding:filtering-failed (KNOWN_FINDINGS.d/C04.json): a "Filtering failed" '
               'refusal of rotate with its default tolerance ladder gets that key only if the failing call had, on EVERY ladder level '
               'atol, an atom image between atol and atol + 1e-5 below a face of the new cell (the window in which numpy.isclose\'s '
               'default rtol rounds onto the upper face only); any other "Filtering failed" is an ordinary violation',
               'the same call on an equal system must return the same value to 64 eps x largest coordinate (integer properties, '
               'symbols, counts identical) whatever happened in between',
               'oracle shares numpy/LAPACK with the code under test']

CONFIG = {'quick': dict(shards=8, seeds=1, timeout=900),
          'thorough': dict(shards=16, seeds=3, timeout=3000)}

N_ENUM1 = 11808
EPS = float(np.finfo(float).eps)
C2P_SNAP = 1.0000001e-8   # numpy.isclose default atol: conventional_to_primitive's 'atom near periodic (0,0,0)' threshold
PREC = 500.0          # matched positions agree to PREC x eps x largest coordinate x cond(cell)  (see judge)
BIG = 6000            # result atoms above which the crystal comparison of an *internal* supersize call is skipped

STATE = {'chain': [], 'cls': None, 'readings': [], 'ledger': {}, 'hand': None, 'refused': None, 'rotate_failure': None}
EXCLUSIVE = ('absolute-only', 'cell-corner-only')


@contextlib.contextmanager
def entry(name, cls=None):
    STATE['chain'].append(name)
    old = STATE['cls']
    if cls is not None:
        STATE['cls'] = cls
    try:
        yield
    finally:
        STATE['chain'].pop()
        STATE['cls'] = old


def chain_key():
    return '>'.join(STATE['chain'])


# ------------------------------------------------------------------------------------------------
# snapshots of atomman systems (plain numpy copies)
# ------------------------------------------------------------------------------------------------
def snapshot(s):
    keys = list(s.atoms_prop())
    return dict(vects=np.array(s.box.vects, float), origin=np.array(s.box.origin, float),
                pbc=tuple(bool(x) for x in s.pbc), symbols=tuple(s.symbols), natoms=int(s.natoms),
                keys=keys, props={k: np.array(s.atoms.view[k], copy=True) for k in keys})


def unmodified(a, b):
    """None if two snapshots are identical, else a description of the first difference."""
    for k in ('natoms', 'pbc', 'symbols', 'keys'):
        if a[k] != b[k]:
            return f'{k}: {a[k]} -> {b[k]}'
    for k in ('vects', 'origin'):
        if not np.array_equal(a[k], b[k]):
            return f'box {k} changed by up to {np.abs(a[k] - b[k]).max():.3g}'
    for k in a['keys']:
        x, y = a['props'][k], b['props'][k]
        if x.dtype != y.dtype or x.shape != y.shape or not np.array_equal(x, y):
            return f'per-atom property {k} changed'
    return None


def label_keys(snap):
    return ['atype'] + sorted(k for k in snap['keys'] if k not in ('pos', 'atype'))


def as_cell(snap, keys):
    """Cell description for the oracle; None if a per-atom property is missing."""
    try:
        labels = X.make_labels(snap['natoms'], *[snap['props'][k] for k in keys])
    except (KeyError, ValueError):
        return None
    return X.Cell(snap['vects'], snap['origin'], np.asarray(snap['props']['pos'], float), labels)


def build_system(am, u, posdtype=None):
    box = am.Box(vects=np.array(u['vects']), origin=np.array(u['origin']))
    vec = np.array(u['vec'], float)
    # a non-symmetric per-atom tensor (two trailing dimensions) that differs between atoms: replication code that
    # tiles rank-1/2 properties correctly can still mis-order rank-3 ones (seeded change C04-2)
    ten = np.einsum('ni,nj->nij', vec, np.roll(vec, 1, axis=1)) + np.asarray(u['idn'], float)[:, None, None]
    atoms = am.Atoms(atype=np.array(u['atype']), pos=np.array(u['pos'], dtype=posdtype), idn=np.array(u['idn']), vec=vec, ten=ten,
                     safecopy=True)
    return am.System(atoms=atoms, box=box, pbc=(True, True, True), symbols=u['symbols'])


# ------------------------------------------------------------------------------------------------
# the judge shared by every entry point
# ------------------------------------------------------------------------------------------------
def compare_auto(oc, rc, T, anchor, tol, rec, key=''):
    """anchor 'auto': the statement's literal reading (x_orig = inverse rotation of x_res, no translation) and the
    reading in which the two cell corners are the same crystal point (a cell re-based at a zero origin) are BOTH
    evaluated.  Either is 'the same infinite crystal' for one call, but the reading is a rule of the code, not a
    choice per call: which reading(s) held is noted, and ``note_reading`` / ``end_case`` require that calls which
    can tell the readings apart (cell corner not on a lattice point) never disagree - not between the vector sets
    applied to one unit cell, not between left- and right-handed descriptions, not between the calls of a run."""
    if anchor != 'auto':
        rep = X.compare(oc, rc, T=T, anchor=anchor, tol=tol)
        rep.anchor = anchor
        return rep
    rep = X.compare(oc, rc, T=T, anchor='absolute', tol=tol)
    rep.anchor = 'absolute'
    if not np.any(oc.origin) and not np.any(rc.origin):
        rec.count('anchor:readings-identical')
        note_reading(rec, 'both', key)
        return rep
    rep2 = X.compare(oc, rc, T=T, anchor='origin', tol=tol)
    rep2.anchor = 'origin'
    cls = {(True, True): 'both', (True, False): 'absolute-only', (False, True): 'cell-corner-only',
           (False, False): 'neither'}[(rep.same, rep2.same)]
    rec.count('anchor:' + cls)
    note_reading(rec, cls, key)
    return rep if rep.same else rep2


def note_reading(rec, cls, key=''):
    """Per-case list and per-run ledger of the frame readings that held.  A call whose reading excludes the
    one an earlier call of this run (worker) needed refutes 'one rule for all calls' at once; the case that
    first showed the other reading is named in the detail (replay both with --only)."""
    hand = STATE['hand']
    STATE['readings'].append((cls, hand, key))
    if len(STATE['readings']) > 20000:                       # calls outside any case (repository tests)
        del STATE['readings'][:10000]
    if cls not in EXCLUSIVE:
        return
    rec.count('anchor:pinned' + ('' if hand is None else ':' + hand))
    led = STATE['ledger']
    first = led.setdefault('first', dict(reading=cls, case=rec.cur, hand=hand, call=key, cls=STATE['cls']))
    rec.check(first['reading'] == cls, 'the frame in which result atoms map through the returned rotation (plain rotation, or cell '
              'corners identified) is the same for all calls of a run', 'anchor:mixed-across-calls',
              this=dict(reading=cls, hand=hand, call=key, cls=STATE['cls']), first_call_that_told_the_readings_apart=first)


def begin_case():
    del STATE['readings'][:]


def end_case(rec, key):
    """All calls made for one unit cell (any vector set, either handedness, identity shortcut, the internal calls of
    a conversion) use one frame reading."""
    rs = STATE['readings']
    ex = {}
    for cls, hand, chain in rs:
        if cls in EXCLUSIVE:
            ex.setdefault(cls, []).append((hand, chain))
    if ex:
        hands = {h for v in ex.values() for h, _ in v}
        rec.count('anchor:case-pinned')
        if {'lh', 'rh'} <= hands:
            rec.count('anchor:case-pinned-lh-and-rh')
    rec.check(len(ex) < 2, 'left- and right-handed vector sets, the identity shortcut and the internal calls made for ONE unit cell '
              'all use the same frame reading (plain rotation, or cell corners identified)', key + ':anchor-consistent',
              readings={k: v[:6] for k, v in ex.items()}, cls=STATE['cls'])
    del rs[:]


def judge(rec, key, what, old, res, T, anchor, n_expected, M_candidates=None, lammps=False, detail=None):
    """Is the system ``res`` the crystal of snapshot ``old`` replicated n_expected times
    (re-expressed under rotation T)?  One recorded clause per clause of the property."""
    d = dict(detail or {})
    d['cls'] = STATE['cls']
    new = snapshot(res)
    N, L = old['natoms'], np.linalg.norm(old['vects'], axis=1).max()
    rec.count('judge:' + key)
    # count and volume
    rec.check(abs(new['natoms'] - n_expected * N) < 1e-6, f'{what}: atom count = replication count x original count',
              key + ':count', natoms=new['natoms'], expected=n_expected * N, **d)
    vol0, vol1 = abs(np.linalg.det(old['vects'])), abs(np.linalg.det(new['vects']))
    rec.close(1e-8 * n_expected * vol0, vol1, n_expected * vol0, f'{what}: volume = replication count x original volume',
              key + ':volume', **d)
    rec.check(new['symbols'] == old['symbols'], f'{what}: symbols carried over', key + ':symbols',
              got=new['symbols'], expected=old['symbols'], **d)
    keys = label_keys(old)
    oc, rc = as_cell(old, keys), as_cell(new, keys)
    if rc is None:
        rec.fail(f'{what}: every per-atom property is carried over', key + ':labels', why='property missing in the result',
                 got=new['keys'], expected=old['keys'], **d)
        return None
    if T is not None:
        rec.check(X.is_proper_rotation(T, 1e-8), f'{what}: the returned transformation is a proper rotation', key + ':rotation', T=T, **d)
        if not (np.shape(T) == (3, 3) and np.all(np.isfinite(T)) and abs(np.linalg.det(T)) > 1e-6):
            return None
    if new['natoms'] > BIG and len(STATE['chain']) > 1:
        rec.count('judge:skipped-large-internal')
        return None
    rep = compare_auto(oc, rc, T, anchor, 1e-6 * L, rec, key)
    rec.count('judged:same-crystal', int(rep.same))
    s = rep.summary()
    inp = dict(vects=old['vects'], origin=old['origin'], pos=old['props']['pos'])
    rec.check(rep.commensurate and abs(rep.index - n_expected) < 1e-6 * max(1, n_expected),
              f'{what}: result cell vectors are lattice vectors spanning replication-count cells', key + ':lattice',
              M=rep.M, n_expected=n_expected, **d)
    if M_candidates is not None:
        ok = any(np.abs(rep.M - np.asarray(Mc, float)).max() < 1e-6 for Mc in M_candidates)
        rec.check(ok, f'{what}: result cell vectors are the requested lattice vectors', key + ':cell',
                  M=rep.M, requested=M_candidates[0], input=inp, **d)
    rec.check(rep.matched_ok, f'{what}: every result atom maps (inverse rotation, modulo the original lattice) onto an original atom',
              key + ':match', report=s, input=inp, T=T, **d)
    if rep.matched_ok and rep.residual is not None and len(rep.residual):
        # precision: the matched atoms coincide to float64 rounding of the re-expression (a few hundred eps x the
        # largest coordinate handled x the conditioning of the old plus that of the new cell), not merely within the
        # matching distance.  The displacement of the result atoms from their sites is split into its common part (a rigid
        # shift) and the rest: conventional_to_primitive moves an atom that it finds within numpy.isclose's default 1e-8 of
        # its periodic origin exactly onto the origin, the whole crystal with it - that internal threshold is allowed for
        # the rigid part of a c2p step, nothing else is.
        xb = X.back_map(rc, oc, T, getattr(rep, 'anchor', anchor if anchor != 'auto' else 'absolute'))[0]
        rv = xb - (oc.pos[rep.site] + rep.offset @ oc.vects)
        tshift = rv.mean(axis=0)
        spread = float(np.linalg.norm(rv - tshift, axis=1).max())
        rigid = float(np.linalg.norm(tshift))
        mag = max(np.abs(old['props']['pos']).max(), np.abs(old['origin']).max(), np.abs(new['props']['pos']).max(),
                  np.abs(new['origin']).max(), np.abs(new['vects']).max(), L)
        kappa = float(np.linalg.cond(old['vects']) + np.linalg.cond(new['vects']))
        unit = EPS * mag * kappa
        snap = C2P_SNAP if key in ('c2p', 'roundtrip:c2p-p2c', 'roundtrip:p2c-c2p') else 0.0
        ratio = max(spread, rigid - snap) / unit
        rec.count('precision:judged')
        rec.count('precision:ratio' + ('<1' if ratio < 1 else '<10' if ratio < 10 else '<30' if ratio < 30 else '<100' if ratio < 100
                                        else '<250' if ratio < 250 else '<PREC' if ratio <= PREC else '>PREC'))
        if snap and rigid > PREC * unit:
            rec.count('precision:c2p-snap-allowance-used')
        rec.check(ratio <= PREC, f'{what}: result atoms lie on the original atoms to float64 rounding ({PREC:g} eps x largest coordinate x '
                  'condition numbers of the two cells), no single-precision / rounded-to-digits intermediate', key + ':precision',
                  spread=spread, rigid_shift=rigid, snap_allowance=snap, bound=PREC * unit, ratio=ratio, mag=mag, cond=kappa, **d)
    rec.check(rep.labels_ok, f'{what}: the matched original atom has the same type and per-atom property values',
              key + ':labels', report=s, **d)
    rec.check(rep.multiplicity_ok, f'{what}: every original atom is represented equally often', key + ':multiplicity', report=s, **d)
    rec.check(rep.distinct_ok, f'{what}: no two result atoms coincide', key + ':distinct', report=s, **d)
    if lammps:
        rec.check(X.is_lammps_cell(new['vects']), f'{what}: the result cell is LAMMPS-compatible', key + ':lammps',
                  vects=new['vects'], **d)
        srel, inside = X.inside_fraction(new['vects'], new['origin'], new['props']['pos'], 1e-9)
        rec.check(inside.all(), f'{what}: every atom lies inside the result cell', key + ':inside',
                  rel=srel[~inside][:3], **d)
    return rep


KNOWN_ORIGIN_KEY = 'rotate:origin-offset:filtering-failed'
# staged finding (round 4): rotate rounds new-cell relative coordinates with numpy.isclose(spos, 1.0, atol=atol), whose default
# rtol adds 1e-5 to the window on the UPPER face only.  An atom image between atol and atol + 1e-5 below a face is moved onto the
# upper face (dropped) while its periodic image the same distance below the lower face is not moved onto it (dropped too).
KNOWN_ROUNDING_KEY = 'rotate:near-face:asymmetric-rounding:filtering-failed'
LADDER = (1e-4, 1e-5, 1e-6, 1e-7)            # rotate's default tol list
ISCLOSE_RTOL = 1e-5


def asymmetric_rounding_class(old, M):
    """Input class of KNOWN_ROUNDING_KEY: on EVERY level of rotate's default tolerance ladder some atom image has a relative
    coordinate (new cell) between atol and atol + 1e-5 below a face.  ``old``: snapshot of the input, M: integer vector set."""
    M = np.asarray(M, float)
    n = int(round(abs(np.linalg.det(M))))
    if n < 1 or n > 64:
        return False
    N = M @ old['vects']
    g = np.arange(n)
    t = np.array(np.meshgrid(g, g, g, indexing='ij')).reshape(3, -1).T @ old['vects']          # covers every coset of the new lattice
    x = (np.asarray(old['props']['pos'], float) - old['origin'])[:, None, :] + t[None, :, :]
    sc = np.linalg.solve(N.T, x.reshape(-1, 3).T).T
    below = 1.0 - (sc - np.floor(sc))                           # distance below the next face, in (0, 1]
    return all(bool(np.any((below > a) & (below < a + ISCLOSE_RTOL))) for a in LADDER)


def origin_offset(vects, origin):
    """Input class of the known finding: the Cartesian origin is not within one cell vector
    of the cell corner (relative coordinate of the point 0 outside [-1, 1) on some axis)."""
    s0 = X.rel_coords(np.zeros((1, 3)), vects, origin)[0]
    return bool(np.any(s0 < -1 + 1e-9) or np.any(s0 >= 1 - 1e-9))


def attempt(rec, clause, key, fn, offset=False, chain=None, basis_refusal_ok=False, refusals=()):
    """Call the real code; an escaping exception refutes ``clause`` (recorded, not raised).
    ``offset``: the input is in the class of the known origin-offset finding.
    ``basis_refusal_ok``: conventional_to_primitive's documented refusal of a cell without an
    atom on its corner lattice point is accepted (and counted).
    ``refusals``: further documented refusals (exception type, text in the message, name); an accepted one is counted
    under ``refused:<name>`` and STATE['refused'] names it."""
    import traceback
    STATE['refused'] = None
    STATE['rotate_failure'] = None
    try:
        with (entry(chain) if chain else contextlib.nullcontext()):
            return fn()
    except (KeyboardInterrupt, SystemExit, MemoryError):
        raise
    except Exception as e:
        for et, text, name in refusals:
            if isinstance(e, et) and text in str(e):
                rec.refusal(f'{name}:{type(e).__name__}')
                rec.count('refused:' + name)
                STATE['refused'] = name
                return None
        if basis_refusal_ok and isinstance(e, ValueError) and 'do not seem to match' in str(e):
            rec.refusal('c2p: no atom on the corner lattice point of the cell (check_basis):ValueError')
            return None
        k = key
        if isinstance(e, ValueError) and 'Filtering failed' in str(e) and STATE.get('rotate_failure') == KNOWN_ROUNDING_KEY:
            k = KNOWN_ROUNDING_KEY                  # the failing rotate call (monitor) had an input of the staged finding's class
            rec.count('known:rotate-asymmetric-rounding')
        elif offset and isinstance(e, ValueError) and 'Filtering failed' in str(e):
            k = KNOWN_ORIGIN_KEY
            rec.count('known:rotate-origin-offset')
        rec.fail(clause + ':exception', k, exception=f'{type(e).__name__}: {e}', cls=STATE['cls'],
                 where=''.join(traceback.format_exception(type(e), e, e.__traceback__)[-3:])[-1200:])
        return None


# ------------------------------------------------------------------------------------------------
# monitors
# ------------------------------------------------------------------------------------------------
def parse_uvws(uvws):
    """Integer vector set a caller asked for: list of acceptable 3x3 integer matrices
    (exact, and for Miller-Bravais input also the reduced form), or None if out of domain."""
    try:
        u = np.asarray(uvws, float)
    except (TypeError, ValueError):
        return None
    if u.shape not in ((3, 3), (3, 4)) or not np.all(np.isfinite(u)):
        return None
    r = np.rint(u)
    if np.abs(u - r).max() > 1e-8:
        return None
    r = r.astype(int)
    if u.shape == (3, 3):
        return [r] if gen.det3(r) != 0 else None
    if np.any(r[:, :3].sum(axis=1) != 0):
        return None
    exact, red = gen.hex4_to_lattice(r)
    if gen.det3(exact) == 0:
        return None
    out = [exact, red]
    # each row may be reduced or not independently
    for mask in range(1, 7):
        out.append(np.array([red[k] if mask >> k & 1 else exact[k] for k in range(3)]))
    return out


def install_monitors(rec, am):
    System = am.System

    def pre(name):
        def f(args, kwargs):
            STATE['chain'].append(name)
            return snapshot(args[0])
        return f

    def post_supersize(args, kwargs, result, exc, old):
        key = chain_key()
        STATE['chain'].pop()
        if exc is not None or not isinstance(old, dict):
            return
        self = args[0]
        names = ('a_size', 'b_size', 'c_size')
        specs = [args[1 + k] if len(args) > 1 + k else kwargs.get(names[k]) for k in range(3)]
        rng_ = [gen.expected_range(s) for s in specs]
        if any(r is None for r in rng_):
            rec.count('monitor:supersize:out-of-domain')
            return
        lo = np.array([r[0] for r in rng_])
        hi = np.array([r[1] for r in rng_])
        m = hi - lo
        n = int(np.prod(m))
        rec.count('monitor:' + key)
        diff = unmodified(old, snapshot(self))
        rec.check(diff is None, 'supersize: the input system is not modified', key + ':input-modified', diff=diff, specs=specs)
        L = np.linalg.norm(old['vects'], axis=1).max()
        rv, ro = np.array(result.box.vects), np.array(result.box.origin)
        rec.close(1e-9 * L * m.max(), rv, m[:, None] * old['vects'], 'supersize: cell vectors are multiplier x original vectors',
                  key + ':vects', specs=specs)
        rec.close(1e-9 * (L * np.abs(lo).max(initial=1) + np.abs(old['origin']).max()), ro, old['origin'] + lo @ old['vects'],
                  'supersize: the block starts at the lower multipliers (origin + lo.vects)', key + ':origin', specs=specs)
        rep = judge(rec, key, 'supersize', old, result, None, 'absolute', n, [np.diag(m)], detail=dict(specs=specs))
        if rep is not None and rep.matched_ok and rep.count_ok:
            # every atom shifted by every lattice offset lo <= (i,j,k) < hi exactly once
            img = rep.offset
            ok_range = np.all((img >= lo) & (img < hi))
            code = (((rep.site * 64 + (img[:, 0] - lo[0])) * 64 + (img[:, 1] - lo[1])) * 64 + (img[:, 2] - lo[2]))
            rec.check(ok_range and len(np.unique(code)) == n * old['natoms'],
                      'supersize: the result holds every atom shifted by every lattice offset lo <= (i,j,k) < hi exactly once',
                      key + ':block', specs=specs, images=img[:8])

    def post_rotate(args, kwargs, result, exc, old):
        key = chain_key()
        STATE['chain'].pop()
        if exc is not None and isinstance(old, dict) and isinstance(exc, ValueError) and 'Filtering failed' in str(exc):
            # default tolerance ladder only: is the input in the class of the staged asymmetric-rounding finding?
            tol_ = args[2] if len(args) > 2 else kwargs.get('tol')
            cands_ = parse_uvws(args[1] if len(args) > 1 else kwargs.get('uvws'))
            if tol_ is None and cands_ is not None:
                hit = any(asymmetric_rounding_class(old, Mc) for Mc in cands_[:2])
                STATE['rotate_failure'] = KNOWN_ROUNDING_KEY if hit else None
                rec.count('monitor:rotate:filtering-failed:' + ('asymmetric-rounding-class' if hit else 'other'))
        if exc is not None or not isinstance(old, dict):
            return
        self = args[0]
        uvws = args[1] if len(args) > 1 else kwargs.get('uvws')
        rt = args[3] if len(args) > 3 else kwargs.get('return_transform', False)
        cands = parse_uvws(uvws)
        if cands is None:
            rec.count('monitor:rotate:out-of-domain')
            rec.fail('rotate: parallel / non-integer / malformed vector sets are refused', key + ':not-refused', uvws=uvws)
            return
        rec.count('monitor:' + key)
        diff = unmodified(old, snapshot(self))
        rec.check(diff is None, 'rotate: the input system is not modified', key + ':input-modified', diff=diff, uvws=uvws)
        if rt:
            ok = isinstance(result, tuple) and len(result) == 2
            rec.check(ok, 'rotate: return_transform=True returns (system, transform)', key + ':return')
            if not ok:
                return
            res, T = result
            T = np.asarray(T, float)
        else:
            res, T = result, None
        # left-handed sets (Cartesian handedness = sign det(uvws) x handedness of the input cell): the third vector
        # is reversed to make the cell right-handed
        hs = 1 if np.linalg.det(old['vects']) > 0 else -1
        Ms = [Mc if gen.det3(Mc) * hs > 0 else np.diag([1, 1, -1]) @ Mc for Mc in cands]
        rec.count('monitor:rotate:' + ('lh' if gen.det3(cands[0]) * hs < 0 else 'rh'))
        dets = {abs(gen.det3(Mc)) for Mc in cands}
        if T is None:
            # without the rotation only the frame-independent clauses can be judged
            rec.count('monitor:rotate:no-transform')
            n_ok = any(res.natoms == d * old['natoms'] for d in dets)
            rec.check(n_ok, 'rotate: atom count = |det| x original count', key + ':count', natoms=res.natoms, dets=sorted(dets))
            rec.check(X.is_lammps_cell(res.box.vects), 'rotate: the result cell is LAMMPS-compatible', key + ':lammps')
            return
        # replication count: |det| of the vector set that the result cell realises
        n = abs(gen.det3(cands[0]))
        if len(cands) > 1:
            M0 = (np.asarray(res.box.vects) @ np.linalg.inv(T).T) @ np.linalg.inv(old['vects'])
            for Mc, Mh in zip(cands, Ms):
                if np.abs(M0 - Mh).max() < 1e-6:
                    n = abs(gen.det3(Mc))
                    break
        STATE['hand'] = 'lh' if gen.det3(cands[0]) * hs < 0 else 'rh'
        try:
            judge(rec, key, 'rotate', old, res, T, 'auto', n, Ms, lammps=True, detail=dict(uvws=uvws))
        finally:
            STATE['hand'] = None

    monitor.observe(System, 'supersize', post_supersize, pre('supersize'))
    monitor.observe(System, 'rotate', post_rotate, pre('rotate'))


# ------------------------------------------------------------------------------------------------
# conversions: option combinations, call paths, construction paths, call histories (round 4)
# ------------------------------------------------------------------------------------------------
STYLE = {'c2p': 'conventional_to_primitive', 'p2c': 'primitive_to_conventional'}
PATHS = ('method', 'am.dump', 'style-function')
# option profiles of conventional_to_primitive (crossed with the motif classes: whether the basis check can pass)
C2P_OPTS = ('basis-off', 'basis-off+family-off', 'default', 'basis-off+smallshift', 'family-off', 'loose-atol', 'default+smallshift')
SHIFT_FORMS = ('list', 'tuple', 'float-array', 'mixed-sign-array', 'int-free-list')
CONSTRUCT = ('direct', 'deepcopy', 'model', 'extra-symbol')
# supersize / rotate only: positions handed over (and kept by atomman) in single precision - the crystal is the one with those
# float32 coordinates, the result must hold it to float64 rounding.  (Not for the conversions: rounding the positions of a
# centred cell to float32 breaks its centring at the 1e-7 level.)
CONSTRUCT5 = CONSTRUCT + ('float32-positions',)
# documented / accepted refusals of the two styles
REFUSE_BASIS = (ValueError, 'do not seem to match', 'c2p: basis check (no atom on the lattice point / family not in the style\'s list)')
REFUSE_T = (ValueError, 'Unknown lattice setting', 'c2p: generic setting t not resolved without the basis check')


def gen_smallshift(rng, form):
    """A small rigid shift (Cartesian, absolute) in one of the accepted argument forms; every component is
    non-zero (a zero component would leave face atoms on the boundary the shift exists to avoid)."""
    v = rng.uniform(2e-4, 8e-3, 3)
    if form == 'list':
        return [float(x) for x in v]
    if form == 'tuple':
        return tuple(float(x) for x in v)
    if form == 'float-array':
        return np.array(v)
    if form == 'mixed-sign-array':
        return np.array(v) * np.array([-1.0, 1.0, -1.0])[rng.permutation(3)]
    return [1e-3 * int(k) for k in rng.integers(1, 6, 3)]


def c2p_kwargs(rng, opts, conv, i):
    lmin = np.linalg.norm(conv['vects'], axis=1).min()
    kw = {}
    if opts.startswith('basis-off'):
        kw['check_basis'] = False
    if 'family-off' in opts:
        kw['check_family'] = False
    if 'smallshift' in opts:
        kw['smallshift'] = gen_smallshift(rng, SHIFT_FORMS[(i // 7) % len(SHIFT_FORMS)])
    if opts == 'loose-atol':
        # the basis check is told to accept atoms within 3e-4 x the shortest cell vector of a lattice point (the
        # 'near-corner' motif passes it); it is a tolerance of the CHECK, the crystal must come back unmoved
        kw['atol'] = 3e-4 * lmin
        kw['rtol'] = 1e-5
        kw['check_family'] = False
    return kw


def construct(am, u, how):
    """The system of cell ``u`` made along one of the construction paths."""
    import copy
    if how == 'extra-symbol':                  # a trailing declared-but-unpopulated type
        u = dict(u, symbols=tuple(u['symbols']) + ('W',))
    s = build_system(am, u, np.float32 if how == 'float32-positions' else None)
    if how == 'deepcopy':
        s = copy.deepcopy(s)
    elif how == 'model':
        s = am.load('system_model', s.dump('system_model'))
    return s


def call_style(am, style, s, path, kw):
    name = STYLE[style]
    if path == 'method':
        return s.dump(name, **kw)
    if path == 'am.dump':
        return am.dump(name, s, **kw)
    import importlib
    kw = dict(kw)
    setting = kw.pop('setting')
    return importlib.import_module('atomman.dump.' + name).dump(s, setting, **kw)          # setting positional


def convert(rec, am, style, s, setting, mult, kw, path='method', dd=None, refusals=(), offset=False, M_candidates=None,
            roundtrip=None):
    """One judged conversion.  Returns (result, T, snapshot of the input) or None (refused / failed, recorded).
    ``roundtrip`` = (snapshot of the cell the chain started from, rotation so far, key, what): the result is also judged
    as that cell itself (undo clause)."""
    before = snapshot(s)
    shift = kw.get('smallshift')
    shift0 = None if shift is None else np.array(shift, float)
    kws = dict(kw, setting=setting, return_transform=True)
    out = attempt(rec, f'{STYLE[style]} accepts a compatible cell (setting {setting}, options {sorted(kw)})', style + ':exception',
                  lambda: call_style(am, style, s, path, kws), offset=offset, chain=style, refusals=refusals)
    if out is None:
        return None
    ok = isinstance(out, tuple) and len(out) == 2
    rec.check(ok, f'{STYLE[style]}: return_transform=True returns (system, transform)', style + ':return')
    if not ok:
        return None
    res, T = out[0], np.asarray(out[1], float)
    rec.count('monitor:' + style)
    diff = unmodified(before, snapshot(s))
    rec.check(diff is None, f'{STYLE[style]}: the input system is not modified', style + ':input-modified', diff=diff, **(dd or {}))
    if shift0 is not None:
        rec.check(np.array_equal(np.array(shift, float), shift0), 'conventional_to_primitive: the smallshift argument is not modified',
                  'c2p:argument-modified', before=shift0, after=shift)
    judge(rec, style, STYLE[style], before, res, T, 'auto', (1.0 / mult) if style == 'c2p' else float(mult), M_candidates,
          lammps=True, detail=dd)
    if roundtrip is not None:
        first, T0, key, what = roundtrip
        rec.count('monitor:' + key.replace(':', '-', 1))
        judge(rec, key, what, first, res, T @ T0, 'auto', 1.0, [np.eye(3)], lammps=True, detail=dd)
    return res, T, before


def arrays_of(sysobj, T=None):
    out = {'atoms.' + k: sysobj.atoms.view[k] for k in sysobj.atoms_prop()}
    if T is not None:
        out['transform'] = T
    return out


def no_aliasing(rec, key, what, res, T, owners, **d):
    """No array handed back (per-atom arrays of the result, the transformation) shares memory with an array of the
    input system or of the caller's arguments."""
    mine = arrays_of(res, T)
    shared = []
    for n1, a1 in mine.items():
        if not isinstance(a1, np.ndarray):
            continue
        for n2, a2 in owners.items():
            if isinstance(a2, np.ndarray) and np.shares_memory(a1, a2):
                shared.append((n1, n2))
    rec.count('alias:checked:' + key.split(':')[0])
    rec.check(not shared, f'{what}: the result shares no memory with the input system or the arguments', key + ':aliasing', shared=shared[:4], **d)


def same_result(rec, key, what, a, b, Ta=None, Tb=None, **d):
    """Two snapshots of results that must be THE SAME VALUE (same call repeated / an earlier result looked at again):
    identical counts, symbols, keys, integer properties; floats to 64 eps x the largest coordinate."""
    rec.count('same:' + key)
    for k in ('natoms', 'pbc', 'symbols', 'keys'):
        if a[k] != b[k]:
            rec.fail(what, key, why=f'{k}: {a[k]} vs {b[k]}', **d)
            return
    mag = max(np.abs(a['vects']).max(), np.abs(a['origin']).max(), np.abs(a['props']['pos']).max(), 1e-300)
    bound = 64 * EPS * mag
    worst = max(np.abs(a['vects'] - b['vects']).max(), np.abs(a['origin'] - b['origin']).max())
    why = None
    for k in a['keys']:
        x, y = a['props'][k], b['props'][k]
        if x.shape != y.shape or x.dtype != y.dtype:
            why = f'per-atom property {k}: shape/dtype {x.shape}/{x.dtype} vs {y.shape}/{y.dtype}'
            break
        if k == 'pos':
            worst = max(worst, np.abs(x - y).max(initial=0.0))
        elif not np.array_equal(x, y):
            why = f'per-atom property {k} differs'
            break
    if why is None and worst > bound:
        why = f'cell / positions differ by {worst:.3g} (bound {bound:.3g})'
    if why is None and Ta is not None:
        dT = np.abs(np.asarray(Ta, float) - np.asarray(Tb, float)).max()
        if dT > 64 * EPS:
            why = f'transformation differs by {dT:.3g}'
    rec.check(why is None, what, key, why=why, **d)


def scribble(res, T):
    """Overwrite everything a caller can reach in a result in place."""
    for k in res.atoms_prop():
        a = res.atoms.view[k]
        if a.dtype.kind in 'iu':
            a[...] = 1 if k == 'atype' else -7
        else:
            a[...] = a * -3.0 + 11.0
    if T is not None and isinstance(T, np.ndarray) and T.flags.writeable:
        T[...] = 0.0


# ------------------------------------------------------------------------------------------------
# workload
# ------------------------------------------------------------------------------------------------
def unit_cell_for(i, rng, origins, kinds=cells.KINDS, scale=None):
    kind = kinds[i % len(kinds)]
    oc = origins[(i // len(kinds)) % len(origins)]
    sc = cells.SCALES[(i // (len(kinds) * len(origins))) % 3] if scale is None else scale
    natoms = 1 + i % 5
    ntypes = 1 + (i // 5) % 3
    pc = gen.POS_CLASSES[(i // 2) % 5]
    u = gen.gen_unit_cell(rng, kind, oc, sc, natoms, ntypes, pc)
    return u, (kind, oc, sc, u['natoms'], u['ntypes'], pc)


def count_cell_classes(rec, u):
    rec.count('class:origin-' + u['origin_class'])
    rec.count('class:pos-' + u['pos_class'])
    if np.any(u['rel'] == 0.0):
        rec.count('class:atom-on-face')
    if np.any(u['rel'] == 0.5):
        rec.count('class:atom-at-half')
    if u['ntypes'] > 1:
        rec.count('class:several-types')
    if u['natoms'] > 1:
        rec.count('class:several-atoms')


def harness_selfcheck(rng):
    """[(name, ok)]: the re-description helpers of the generator do what they say (judged by the oracle), and the
    oracle tells the two frame readings apart exactly when the cell corner is off the lattice."""
    out = []
    for how in gen.MIRRORS:
        u = gen.gen_unit_cell(rng, 'triclinic', 'small', 1.0, 4, 2, 'face')
        m = gen.mirror_description(u, how)
        lab = X.make_labels(u['natoms'], u['atype'], u['idn'])
        r = X.compare((u['vects'], u['origin'], u['pos'], lab), (m['vects'], m['origin'], m['pos'], lab), anchor='absolute')
        inside = X.inside_fraction(m['vects'], m['origin'], m['pos'], 1e-12)[1].all()
        faces = (np.array(m['rel']) == 0.0).sum() == (np.array(u['rel']) == 0.0).sum()
        out.append((f'mirror description {how}: same crystal, left-handed, atoms inside, faces kept',
                    bool(r.same and abs(r.index - 1) < 1e-12 and np.linalg.det(m['vects']) < 0 and inside and faces)))
        M = gen.sample_matrix(rng, 2, 1)
        out.append((f'mirror uvws {how}: same Cartesian vectors',
                    bool(np.abs(gen.mirror_uvws(M, how) @ m['vects'] - M @ u['vects']).max() < 1e-12)))
    M = gen.sample_matrix(rng, 3, 1)
    for fl in gen.FLIPS:
        F = gen.flip_handedness(M, fl)
        same_vectors = sorted(map(tuple, np.abs(np.sort(np.vstack([F, -F]), axis=0)).tolist())) == \
            sorted(map(tuple, np.abs(np.sort(np.vstack([M, -M]), axis=0)).tolist()))
        out.append((f'flip {fl}: opposite handedness, same vectors up to sign and order',
                    bool(gen.det3(F) == -gen.det3(M) and same_vectors)))
    # the frame readings: a result re-based at 0 satisfies 'origin' only, a plainly rotated one 'absolute' only,
    # both when the corner is a lattice point
    T = np.array([[0.0, -1, 0], [1, 0, 0], [0, 0, 1]])
    for oc, expect in (('small', (False, True, True, False)), ('lattice', (True, True, True, True))):
        u = gen.gen_unit_cell(rng, 'triclinic', oc, 1.0, 3, 2, 'generic')
        lab = X.make_labels(3, u['atype'])
        o = (u['vects'], u['origin'], u['pos'], lab)
        rebased = (u['vects'] @ T.T, np.zeros(3), (u['pos'] - u['origin']) @ T.T, lab)
        plain = (u['vects'] @ T.T, np.zeros(3), u['pos'] @ T.T, lab)
        got = (X.compare(o, rebased, T=T, anchor='absolute').same, X.compare(o, rebased, T=T, anchor='origin').same,
               X.compare(o, plain, T=T, anchor='absolute').same, X.compare(o, plain, T=T, anchor='origin').same)
        out.append((f'frame readings told apart, origin {oc}', got == expect))
        out.append((f'lattice_offset of origin {oc}', (gen.lattice_offset(u['vects'], u['origin']) < 1e-9) == (oc == 'lattice')))
    return out


def hand_of(u, M3=None):
    d = np.linalg.det(u['vects']) * (1 if M3 is None else gen.det3(M3))
    return 'lh' if d < 0 else 'rh'


def same_crystal_pair(rec, key, what, r1, T1, r2, T2, L, same_cell=False, detail=None):
    """Two results obtained from descriptions of ONE crystal (same lattice vectors up to sign/order, cell corners equal
    modulo the original lattice) hold the same crystal: atoms of r2 map through T2.inv(T1), modulo the lattice of r1,
    onto atoms of r1 with identical labels, equally often, none twice.  Both results are compared relative to their own
    cell corners, so the clause does not depend on which frame reading rotate uses towards its input."""
    d = dict(detail or {})
    a, b = snapshot(r1), snapshot(r2)
    keys = label_keys(a)
    c1, c2 = as_cell(a, keys), as_cell(b, keys)
    rec.count('pair:' + key)
    if c1 is None or c2 is None:
        rec.fail(what, key + ':labels', why='per-atom property missing', **d)
        return
    R = np.asarray(T2, float) @ np.linalg.inv(np.asarray(T1, float))
    rp = X.compare(c1, c2, T=R, anchor='origin', tol=1e-6 * L)
    rec.check(rp.same and abs(rp.index - 1) < 1e-6, what, key + ':crystal', report=rp.summary(),
              first=dict(vects=a['vects'], origin=a['origin'], pos=a['props']['pos'][:6]),
              second=dict(vects=b['vects'], origin=b['origin'], pos=b['props']['pos'][:6]), **d)
    if same_cell:
        Lr = np.linalg.norm(a['vects'], axis=1).max()
        rec.close(1e-8 * Lr, b['vects'], a['vects'], what + ' - same cell vectors', key + ':cell', **d)
        rec.close(1e-8 * Lr + 1e-9 * np.abs(a['origin']).max(), b['origin'], a['origin'], what + ' - same cell origin', key + ':origin', **d)
        rec.close(1e-8, np.asarray(T2, float), np.asarray(T1, float), what + ' - same rotation', key + ':rotation', **d)


def uvws_form(M, form):
    M = np.asarray(M)
    if form == 'list':
        return M.tolist()
    if form == 'int-array':
        return M.astype(np.int64)
    if form == 'int32-array':
        return M.astype(np.int32)
    return M.astype(float)


FORMS = ('list', 'int-array', 'float-array', 'int32-array')
REF = ('coplanar', 'non-integer', 'hex4-on-nonhexagonal', 'hex4-sum-nonzero', 'wrong-shape', 'hex4-non-integer')
NEAR0 = ('zero', 'small')                 # origins for which the known finding (see KNOWN_ORIGIN_KEY) does not apply
ALL4 = gen.ORIGINS4
ALL5 = gen.ORIGINS5
ENUM_ORIGINS = ('zero', 'small', 'lattice', 'near', 'small', 'far')      # first enumeration pass: 4 of 6 off the lattice
SOURCES = ('enum1', 'sample2', 'sample3', 'hex4')


def do_rotate(rec, am, u, arg, cls, key, rt=True, how=0):
    s = build_system(am, u)
    STATE['cls'] = cls
    off = origin_offset(u['vects'], u['origin'])
    if off:
        rec.count('class:rotate-origin-offset')
    if how == 0:
        fn = lambda: s.rotate(arg, return_transform=rt)
    elif how == 1:
        fn = lambda: s.rotate(arg)
    else:
        fn = lambda: s.rotate(uvws=arg, return_transform=rt)
    out = attempt(rec, 'rotate accepts integer vector sets of non-zero determinant', key, fn, offset=off)
    STATE['cls'] = None
    return out


def run(ctx):
    import atomman as am
    rec = ctx.rec
    cover.start(['atomman/core/System.py', 'atomman/lammps/normalize.py', 'atomman/tools/miller.py',
                 'atomman/dump/conventional_to_primitive/dump.py', 'atomman/dump/primitive_to_conventional/dump.py'])
    install_monitors(rec, am)

    # -- 0. the oracle and the generator tables judge hand-built cases correctly --------------------
    for i in ctx.cases('selfcheck', 1):
        for name, ok in X.selfcheck() + gen.verify_primitive_tables() + harness_selfcheck(ctx.rng):
            rec.check(ok, 'harness: oracle / generator self-test', 'harness:selfcheck:' + name)
            rec.count('selfcheck')
        rec.case(('selfcheck',), nontrivial=False)

    # -- 1. supersize --------------------------------------------------------------------------------
    for i in ctx.cases('supersize', ctx.pick(720, 7200)):
        rng = ctx.rng
        u, sig = unit_cell_for(i, rng, ALL5)
        if (i // 8) % 4 == 1:                              # left-handed description of the input cell (all 8 multiplier classes)
            u = gen.mirror_description(u, gen.MIRRORS[(i // 32) % 4])
            sig = sig + (u['hand'],)
            rec.count('class:supersize-lefthanded-cell')
        mclass = gen.MULT_CLASSES[i % len(gen.MULT_CLASSES)]
        specs = gen.gen_multipliers(rng, mclass)
        s = build_system(am, u)
        n = int(np.prod([r[1] - r[0] for r in map(gen.expected_range, specs)]))
        rec.case(('supersize', mclass) + sig, nontrivial=n > 1, fp=fingerprint(u['vects'], u['origin'], u['pos'], repr(specs)))
        rec.count('class:mult-' + mclass)
        count_cell_classes(rec, u)
        if i < 24:
            rec.sample(dict(entry='supersize', cell=u['kind'], vects=u['vects'], origin=u['origin'], rel=u['rel'],
                            atype=u['atype'], multipliers=repr(specs), replication=n))
        STATE['cls'] = mclass
        if (i // 8) % 4 == 3:                              # keyword form
            fn = lambda: s.supersize(a_size=specs[0], b_size=specs[1], c_size=specs[2])
        else:
            fn = lambda: s.supersize(*specs)
        attempt(rec, 'supersize accepts documented multipliers', 'supersize:exception', fn)
        STATE['cls'] = None

    # -- 2. rotate: exhaustive [-1,1] ------------------------------------------------------------------
    E1 = gen.enum_matrices(1)
    assert len(E1) == N_ENUM1
    for i in ctx.cases('rotate-enum1', N_ENUM1 * ctx.pick(1, 3)):
        rng = ctx.rng
        j, p = i % N_ENUM1, i // N_ENUM1
        M = E1[j]
        begin_case()
        # first pass: zero / lattice-vector / generic origins of three sizes; later passes (thorough): all five origin classes
        u, sig = unit_cell_for(i + 4 * p + ctx.seed, rng, ENUM_ORIGINS if p == 0 else ALL5, scale=1.0)
        d = gen.det3(M)
        ident = bool(np.array_equal(M, np.eye(3, dtype=int)))
        rec.case(('rotate-enum1', 'lh' if d < 0 else 'rh', abs(d), u['kind'], u['origin_class']), nontrivial=not ident,
                 fp=fingerprint(u['vects'], u['origin'], u['pos'], M))
        rec.count('class:rotate-enum1')
        rec.count('class:rotate-lefthanded' if d < 0 else 'class:rotate-righthanded')
        if ident:
            rec.count('class:rotate-identity')
        count_cell_classes(rec, u)
        if i < 24:
            rec.sample(dict(entry='rotate', cell=u['kind'], vects=u['vects'], origin=u['origin'], rel=u['rel'], uvws=M, det=d))
        do_rotate(rec, am, u, uvws_form(M, FORMS[i % 4]), 'enum1:' + ('lh' if d < 0 else 'rh'), 'rotate:exception:enum1')
        end_case(rec, 'rotate')

    # -- 3. rotate: seeded samples with entries up to 2 and 3 ------------------------------------------
    for i in ctx.cases('rotate-sample', ctx.pick(800, 9600)):
        rng = ctx.rng
        bound = 2 + i % 2
        sign = 1 if (i // 2) % 2 == 0 else -1
        form = FORMS[(i // 4) % 4]
        M = gen.sample_matrix(rng, bound, sign, max_det=60)
        begin_case()
        # three quarters with origins 'zero'/'small', one quarter with all five classes
        u, sig = unit_cell_for(i // 2 + i % 2, rng, ALL5 if i % 4 == 3 else NEAR0, scale=1.0)
        d = gen.det3(M)
        rt = i % 16 != 13
        rec.case(('rotate-sample', bound, 'lh' if d < 0 else 'rh', form, u['kind'], u['origin_class'], rt), nontrivial=True,
                 fp=fingerprint(u['vects'], u['origin'], u['pos'], M))
        rec.count(f'class:rotate-sample{bound}')
        rec.count('class:rotate-lefthanded' if d < 0 else 'class:rotate-righthanded')
        rec.count('class:rotate-form-' + form)
        count_cell_classes(rec, u)
        if i < 16:
            rec.sample(dict(entry='rotate', cell=u['kind'], vects=u['vects'], origin=u['origin'], rel=u['rel'], uvws=M, det=d))
        do_rotate(rec, am, u, uvws_form(M, form), f'sample{bound}:' + ('lh' if d < 0 else 'rh'), f'rotate:exception:sample{bound}',
                  rt=rt, how=0 if rt else 1 + (i // 16) % 2)
        end_case(rec, 'rotate')

    # -- 4. rotate: Miller-Bravais sets on hexagonal cells ----------------------------------------------
    for i in ctx.cases('rotate-hex4', ctx.pick(240, 2400)):
        rng = ctx.rng
        if i % 3 == 0:
            M3 = E1[int(rng.integers(0, N_ENUM1))]
        else:
            M3 = gen.sample_matrix(rng, 2, 1 if i % 2 else -1, max_det=20)
        style = ('reduced', 'raw')[(i // 3) % 2]
        M4 = gen.hex4_rows(M3, style)
        oc = (ALL5 if i % 4 == 3 else NEAR0)[(i // 4) % (5 if i % 4 == 3 else 2)]
        begin_case()
        u = gen.gen_unit_cell(rng, 'hexagonal', oc, 1.0, 1 + i % 5, 1 + (i // 5) % 3, gen.POS_CLASSES[(i // 2) % 5])
        d = gen.det3(M3)
        rec.case(('rotate-hex4', style, 'lh' if d < 0 else 'rh', oc), nontrivial=True, fp=fingerprint(u['vects'], u['origin'], u['pos'], M4))
        rec.count('class:rotate-hex4')
        rec.count('class:rotate-hex4-' + style)
        rec.count('class:rotate-lefthanded' if d < 0 else 'class:rotate-righthanded')
        count_cell_classes(rec, u)
        if i < 8:
            rec.sample(dict(entry='rotate', cell='hexagonal', vects=u['vects'], origin=u['origin'], rel=u['rel'], uvtws=M4, as_uvw=M3))
        do_rotate(rec, am, u, uvws_form(M4, FORMS[i % 4]), 'hex4:' + style, 'rotate:exception:hex4')
        end_case(rec, 'rotate')

    # -- 4b. rotate: one crystal, every description ------------------------------------------------------
    # One unit cell per case, five calls: the identity set, a vector set M, the same three lattice vectors with the
    # opposite handedness (one of seven flips), and - on the LEFT-HANDED description of the same unit cell - the
    # identity set and the components of M's vectors along the reversed cell vectors.  Each call is judged against its
    # own input by the monitor; here the results are compared with one another (same crystal) and the frame reading
    # is required to be one and the same for all five.
    for i in ctx.cases('rotate-family', ctx.pick(1260, 5040)):
        rng = ctx.rng
        begin_case()
        src = SOURCES[i % 4]
        oc = ALL5[i % 5]
        flip = gen.FLIPS[i % 7]
        kind = 'hexagonal' if src == 'hex4' else cells.KINDS[i % 9]
        pc = gen.POS_CLASSES[(i // 5) % 5]
        mirror = 'lh-c' if src == 'hex4' else gen.MIRRORS[(i // 7) % 4]
        sign = 1 if (i // 4) % 2 == 0 else -1
        u = gen.gen_unit_cell(rng, kind, oc, 1.0, 1 + (i // 3) % 5, 1 + (i // 15) % 3, pc)
        if src == 'enum1':
            M = E1[int(rng.integers(0, N_ENUM1))]
            if gen.det3(M) * sign < 0:
                M = gen.flip_handedness(M, 'neg-row2')
        else:
            M = gen.sample_matrix(rng, 3 if src == 'sample3' else 2, sign, max_det=24)
        Mf = gen.flip_handedness(M, flip)
        uL = gen.mirror_description(u, mirror)
        ML = gen.mirror_uvws(M, mirror)
        if src == 'hex4':
            style = ('reduced', 'raw')[(i // 8) % 2]
            args = [gen.hex4_rows(m_, style) for m_ in (M, Mf, ML)]
        else:
            args = [M, Mf, ML]
        form = FORMS[(i // 2) % 4]
        distinguishable = gen.lattice_offset(u['vects'], u['origin']) > 1e-3
        onface = bool(np.any(u['rel'] == 0.0))
        rec.case(('rotate-family', src, oc, flip, mirror, 'lh' if sign < 0 else 'rh', kind, pc), nontrivial=True,
                 fp=fingerprint(u['vects'], u['origin'], u['pos'], M, flip, mirror))
        rec.count('class:family')
        rec.count('class:family-src-' + src)
        rec.count('class:family-origin-' + oc)
        rec.count('class:family-flip-' + flip)
        rec.count('class:family-mirror-' + mirror)
        rec.count('class:family-first-' + ('lh' if sign < 0 else 'rh'))
        rec.count('class:family-' + ('off-lattice' if distinguishable else 'on-lattice') + ('-face' if onface else '-generic'))
        rec.count('class:rotate-lefthanded', 2 + (sign < 0))     # M or its flip, the identity on uL, M on uL if M is left-handed
        rec.count('class:rotate-righthanded', 3 - (sign < 0))
        count_cell_classes(rec, u)
        if i < 8:
            rec.sample(dict(entry='rotate-family', cell=kind, vects=u['vects'], origin=u['origin'], rel=u['rel'], uvws=args[0],
                            flipped=args[1], flip=flip, lefthanded_cell=dict(vects=uL['vects'], origin=uL['origin'], rel=uL['rel']),
                            uvws_on_lefthanded_cell=args[2]))
        tag = f'family:{src}:{oc}'
        dd = dict(uvws=M, flip=flip, mirror=mirror, origin_class=oc, input=dict(vects=u['vects'], origin=u['origin'], pos=u['pos']))
        r_id = do_rotate(rec, am, u, np.eye(3, dtype=int), tag + ':identity', 'rotate:exception:family')
        r_M = do_rotate(rec, am, u, uvws_form(args[0], form), tag + ':M', 'rotate:exception:family')
        r_F = do_rotate(rec, am, u, uvws_form(args[1], form), tag + ':' + flip, 'rotate:exception:family')
        r_idL = do_rotate(rec, am, uL, np.eye(3, dtype=int), tag + ':identity-on-' + mirror, 'rotate:exception:family')
        r_ML = do_rotate(rec, am, uL, uvws_form(args[2], form), tag + ':M-on-' + mirror, 'rotate:exception:family')
        STATE['cls'] = tag + ':' + flip + ':' + mirror
        L = u['L']
        if r_M is not None and r_F is not None:
            same_crystal_pair(rec, 'rotate:handed-twin', 'rotate: a vector set and the same three lattice vectors taken with the opposite '
                              'handedness give the same crystal', r_M[0], r_M[1], r_F[0], r_F[1], L,
                              same_cell=(flip == 'neg-row2'), detail=dd)
            rec.count('family:twin-compared')
            if flip == 'neg-row2':
                rec.count('family:twin-same-cell')
        if r_M is not None and r_ML is not None:
            same_crystal_pair(rec, 'rotate:lefthanded-cell', 'rotate: the same lattice vectors requested on the left-handed description of '
                              'the unit cell give the same crystal', r_M[0], r_M[1], r_ML[0], r_ML[1], L, same_cell=False, detail=dd)
            rec.count('family:mirror-compared')
        if r_id is not None and r_idL is not None:
            same_crystal_pair(rec, 'rotate:lefthanded-cell:identity', 'rotate: the identity set on the right- and on the left-handed '
                              'description of the unit cell gives the same crystal', r_id[0], r_id[1], r_idL[0], r_idL[1], L,
                              same_cell=False, detail=dd)
            rec.count('family:identity-compared')
        end_case(rec, 'rotate:family')
        STATE['cls'] = None

    # -- 4c. rotate: an atom at three different small distances below the faces of the NEW cell -----------
    # one atom image sits 1.02..1.08e-4, 1.1..1.9e-5 and 1.5..9.5e-6 (relative, new cell) below three faces of the re-oriented
    # cell: every level of the tolerance ladder (1e-4 .. 1e-7) meets a coordinate that is neither within it nor clear of it by the
    # rounding slack.  (Found by the thorough tier of round 4 through primitive_to_conventional; staged finding KNOWN_ROUNDING_KEY.)
    for i in ctx.cases('rotate-near-face-ladder', ctx.pick(36, 180)):
        rng = ctx.rng
        begin_case()
        kind = cells.KINDS[i % 9]
        u = gen.gen_unit_cell(rng, kind, NEAR0[(i // 2) % 2], 1.0, 1 + i % 3, 1 + i % 2, 'generic')
        if i % 3 == 0:
            M = np.array([[[0, 1, 0], [0, 0, 1], [1, 0, 0]], [[0, 0, 1], [1, 0, 0], [0, 1, 0]]][(i // 3) % 2])
        else:
            M = gen.sample_matrix(rng, 1 + (i // 3) % 2, 1 if (i // 6) % 2 == 0 else -1, max_det=8)
        dist = np.array([rng.uniform(1.02e-4, 1.08e-4), rng.uniform(1.1e-5, 1.9e-5), rng.uniform(1.5e-6, 9.5e-6)])[
            [[0, 1, 2], [1, 2, 0], [2, 0, 1], [0, 2, 1], [2, 1, 0], [1, 0, 2]][i % 6]]
        N = M @ u['vects']
        x = (1.0 - dist) @ N                                           # relative to the cell corner
        rel = np.array(u['rel'], float)
        r0 = np.linalg.solve(np.asarray(u['vects'], float).T, x)
        rel[0] = r0 - np.floor(r0)
        u = dict(u, rel=rel, pos=u['origin'] + rel @ u['vects'])
        inclass = asymmetric_rounding_class(dict(vects=u['vects'], origin=u['origin'], props=dict(pos=u['pos'])), M)
        rec.case(('rotate-near-face-ladder', kind, 'lh' if gen.det3(M) < 0 else 'rh', u['origin_class']), nontrivial=True,
                 fp=fingerprint(u['vects'], u['origin'], u['pos'], M))
        rec.count('class:rotate-near-face-ladder')
        rec.count('class:rotate-near-face-ladder:' + ('in-class' if inclass else 'not-in-class'))
        rec.count('class:rotate-lefthanded' if gen.det3(M) < 0 else 'class:rotate-righthanded')
        if i < 4:
            rec.sample(dict(entry='rotate', cls='near-face-ladder', cell=kind, vects=u['vects'], origin=u['origin'], rel=u['rel'], uvws=M,
                            below_new_faces=dist))
        out = do_rotate(rec, am, u, M, 'near-face-ladder', 'rotate:exception:near-face-ladder')
        rec.count('near-face-ladder:' + ('returned' if out is not None else 'failed'))
        end_case(rec, 'rotate')

    # -- 5. rotate: documented refusals -----------------------------------------------------------------
    for i in ctx.cases('rotate-refusals', ctx.pick(60, 300)):
        rng = ctx.rng
        kind = REF[i % len(REF)]
        fam = 'hexagonal' if kind in ('hex4-sum-nonzero', 'hex4-non-integer') else [k for k in cells.KINDS if k != 'hexagonal'][i % 8]
        u = gen.gen_unit_cell(rng, fam, NEAR0[i % 2], 1.0, 1 + i % 3, 1, 'corner+generic')
        s = build_system(am, u)
        if kind == 'coplanar':
            arg = gen.coplanar_matrix(rng)
        elif kind == 'non-integer':
            arg = gen.sample_matrix(rng, 2).astype(float)
            arg[int(rng.integers(0, 3)), int(rng.integers(0, 3))] += float(rng.choice([0.5, 0.25, -0.3, 1e-3]))
        elif kind == 'hex4-on-nonhexagonal':
            arg = gen.hex4_rows(gen.sample_matrix(rng, 1), 'reduced')
        elif kind == 'hex4-sum-nonzero':
            arg = gen.hex4_rows(gen.sample_matrix(rng, 1), 'reduced')
            arg[int(rng.integers(0, 3)), 2] += 1
        elif kind == 'hex4-non-integer':
            # a valid four-index set (u+v+t = 0 in every row) one row of which is not a lattice vector: [uvtw] = U a1 + V a2 + W c
            # with (U, V, W) = (u - t, v - t, w); the row is shifted by a fraction of a lattice vector, as four-index numbers
            arg = gen.hex4_rows(gen.sample_matrix(rng, 1), 'raw').astype(float) / 3.0        # exactly the lattice vectors U, V, W
            f = float(rng.choice([0.5, 0.25, -0.3, 1.5]))
            d = [np.array([2.0, -1.0, -1.0, 0.0]) / 3.0, np.array([-1.0, 2.0, -1.0, 0.0]) / 3.0, np.array([0.0, 0.0, 0.0, 1.0])][int(rng.integers(0, 3))]
            arg[int(rng.integers(0, 3))] += f * d
        else:
            arg = gen.sample_matrix(rng, 1)[:2]
        rec.case(('rotate-refusal', kind, fam), nontrivial=True, fp=fingerprint(u['vects'], arg))
        rec.count('class:refusal-' + kind)
        STATE['cls'] = 'refusal:' + kind
        g = ctx.guard('rotate refuses ' + kind + ' vector sets with ValueError', 'rotate:refusal:' + kind, accept=(ValueError,))
        with g:
            s.rotate(arg, return_transform=True)
        del STATE['chain'][:]
        if g.exc is None:
            rec.fail('rotate refuses ' + kind + ' vector sets', 'rotate:not-refused:' + kind, uvws=arg)
        STATE['cls'] = None

    # -- 6. conventional <-> primitive ------------------------------------------------------------------
    TAB = gen.CONVERSION_TABLE
    for i in ctx.cases('conversions', ctx.pick(len(TAB) * 8, len(TAB) * 60)):
        rng = ctx.rng
        setting, basis, family = TAB[i % len(TAB)]
        r = i // len(TAB)
        begin_case()
        nmotif, ntypes = 1 + r % 3, 1 + (r // 3) % 2
        oc = ALL4[(r // 4) % 4] if r % 4 == 3 else NEAR0[(r // 2) % 2]
        conv = gen.gen_conventional(rng, basis, family, nmotif, ntypes, oc)
        mult = gen.multiplicity(basis)
        off = origin_offset(conv['vects'], conv['origin'])
        rec.case(('conversion', setting, basis, family, nmotif, oc), nontrivial=basis != 'p',
                 fp=fingerprint(conv['vects'], conv['origin'], conv['pos'], setting))
        rec.count('class:conv-' + setting)
        rec.count('class:conv-family-' + family)
        rec.count('class:origin-' + oc)
        if r < 1:
            rec.sample(dict(entry='conversion', setting=setting, basis=basis, family=family, vects=conv['vects'],
                            origin=conv['origin'], rel=conv['rel'], atype=conv['atype']))
        STATE['cls'] = f'{setting}/{family}'
        dd = dict(setting=setting, basis=basis, family=family)
        # A: conventional -> primitive -> conventional
        cs = build_system(am, conv)
        before = snapshot(cs)
        out = attempt(rec, f'conventional_to_primitive accepts a {family} cell with the {setting} setting', 'c2p:exception',
                      lambda: cs.dump('conventional_to_primitive', setting=setting, return_transform=True), offset=off, chain='c2p')
        if out is not None:
            ps, T1 = out
            T1 = np.asarray(T1, float)
            rec.count('monitor:c2p')
            diff = unmodified(before, snapshot(cs))
            rec.check(diff is None, 'conventional_to_primitive: the input system is not modified', 'c2p:input-modified', diff=diff)
            judge(rec, 'c2p', 'conventional_to_primitive', before, ps, T1, 'auto', 1.0 / mult, None, lammps=True, detail=dd)
            pbefore = snapshot(ps)
            back = attempt(rec, 'primitive_to_conventional accepts the primitive cell made by conventional_to_primitive', 'p2c:exception',
                           lambda: ps.dump('primitive_to_conventional', setting=basis, return_transform=True), chain='p2c')
            if back is not None:
                c2, T2 = back
                T2 = np.asarray(T2, float)
                rec.count('monitor:p2c')
                diff = unmodified(pbefore, snapshot(ps))
                rec.check(diff is None, 'primitive_to_conventional: the input system is not modified', 'p2c:input-modified', diff=diff)
                judge(rec, 'p2c', 'primitive_to_conventional', pbefore, c2, T2, 'auto', float(mult), None, lammps=True, detail=dd)
                rec.count('monitor:roundtrip-c2p-p2c')
                judge(rec, 'roundtrip:c2p-p2c', 'p2c(c2p(x)) = x', before, c2, T2 @ T1, 'auto', 1.0, [np.eye(3)], lammps=True, detail=dd)
                rec.close(1e-7 * conv['L'], np.asarray(c2.box.vects), before['vects'],
                          'p2c(c2p(x)) has the cell vectors of x (x in LAMMPS orientation)', 'roundtrip:c2p-p2c:vects', **dd)
        # B: primitive -> conventional -> primitive
        prim = gen.primitive_of(conv, rng, ('raw', 'rotated')[r % 2])
        ps = build_system(am, prim)
        before = snapshot(ps)
        offp = origin_offset(prim['vects'], prim['origin'])
        dd = dict(dd, orientation=prim['orientation'])
        out = attempt(rec, f'primitive_to_conventional accepts the primitive cell of a {basis}-centred {family} lattice', 'p2c:exception',
                      lambda: ps.dump('primitive_to_conventional', setting=basis, return_transform=True), offset=offp, chain='p2c')
        if out is not None:
            c2, T1 = out
            T1 = np.asarray(T1, float)
            rec.count('monitor:p2c')
            diff = unmodified(before, snapshot(ps))
            rec.check(diff is None, 'primitive_to_conventional: the input system is not modified', 'p2c:input-modified', diff=diff)
            judge(rec, 'p2c', 'primitive_to_conventional', before, c2, T1, 'auto', float(mult), None, lammps=True, detail=dd)
            # the conventional cell obtained is the family cell the primitive one was cut from
            cv = np.asarray(c2.box.vects)
            rec.close(1e-7 * conv['L'] ** 2, cv @ cv.T, conv['vects'] @ conv['vects'].T,
                      'primitive_to_conventional: the result is the conventional cell of the lattice (Gram matrix)', 'p2c:gram', **dd)
            cbefore = snapshot(c2)
            back = attempt(rec, 'conventional_to_primitive accepts the cell made by primitive_to_conventional', 'c2p:exception',
                           lambda: c2.dump('conventional_to_primitive', setting=setting, return_transform=True), chain='c2p',
                           basis_refusal_ok=bool(np.any(prim['origin'])))
            if back is not None:
                p2, T2 = back
                T2 = np.asarray(T2, float)
                rec.count('monitor:c2p')
                diff = unmodified(cbefore, snapshot(c2))
                rec.check(diff is None, 'conventional_to_primitive: the input system is not modified', 'c2p:input-modified', diff=diff)
                judge(rec, 'c2p', 'conventional_to_primitive', cbefore, p2, T2, 'auto', 1.0 / mult, None, lammps=True, detail=dd)
                rec.count('monitor:roundtrip-p2c-c2p')
                judge(rec, 'roundtrip:p2c-c2p', 'c2p(p2c(x)) = x', before, p2, T2 @ T1, 'auto', 1.0, [np.eye(3)], lammps=True, detail=dd)
        end_case(rec, 'conversion')
        STATE['cls'] = None

    # -- 6b. conversions: right- and left-handed descriptions of one cell, five origin classes ----------
    # The conventional cell and its primitive cell are converted twice: as generated (right-handed) and in a left-handed
    # description of the same crystal.  Every conversion is judged against its own input; the two primitive (conventional)
    # results must hold the same crystal, each conversion must be undone by the other one, and every call of the case
    # (the rotate calls the styles make internally included) must use the same frame reading.
    for i in ctx.cases('conversions-handed', ctx.pick(len(TAB) * 10, len(TAB) * 30)):
        rng = ctx.rng
        setting, basis, family = TAB[i % len(TAB)]
        r = i // len(TAB)
        begin_case()
        oc = ALL5[(r + i) % 5]
        nmotif, ntypes = 1 + (r // 2) % 3, 1 + r % 2
        conv = gen.gen_conventional(rng, basis, family, nmotif, ntypes, oc)
        mult = gen.multiplicity(basis)
        # reversing one vector turns the obverse rhombohedral centring into the reverse one and breaks the equal angles of
        # a rhombohedral cell (documented family refusals): those cells are reversed along all three vectors
        # (a hexagonal cell with a or b reversed has gamma = 60 degrees: not a hexagonal cell either)
        if basis in ('t1', 't2') or family == 'rhombohedral':
            mirror = 'lh-all'
        elif family == 'hexagonal':
            mirror = ('lh-c', 'lh-all')[(r // 5 + i) % 2]
        else:
            mirror = ('lh-c', 'lh-all', 'lh-a', 'lh-b')[(r // 5 + i) % 4]
        convL = gen.mirror_description(conv, mirror)
        prim = gen.primitive_of(conv, rng, 'raw')
        primL = gen.mirror_description(prim, 'lh-all')          # the styles' primitive-vector convention survives only inversion
        rec.case(('conversion-handed', setting, basis, family, oc, mirror), nontrivial=True,
                 fp=fingerprint(conv['vects'], conv['origin'], conv['pos'], setting, mirror))
        rec.count('class:convh')
        rec.count('class:convh-' + setting)
        rec.count('class:convh-origin-' + oc)
        rec.count('class:convh-mirror-' + mirror)
        rec.count('class:origin-' + oc)
        if gen.lattice_offset(conv['vects'], conv['origin']) > 1e-3:
            rec.count('class:convh-off-lattice')
        if r < 1 and i < 4:
            rec.sample(dict(entry='conversion-handed', setting=setting, family=family, vects=convL['vects'], origin=convL['origin'],
                            rel=convL['rel'], atype=convL['atype'], mirror=mirror))
        STATE['cls'] = f'{setting}/{family}/{oc}/{mirror}'
        dd = dict(setting=setting, basis=basis, family=family, origin_class=oc, mirror=mirror)
        L = conv['L']
        got = {}
        for name, cell_, m_ in (('rh', conv, None), ('lh', convL, mirror)):
            cs = build_system(am, cell_)
            before = snapshot(cs)
            out = attempt(rec, f'conventional_to_primitive accepts a {name} {family} cell with the {setting} setting', 'c2p:exception',
                          lambda: cs.dump('conventional_to_primitive', setting=setting, return_transform=True), chain='c2p')
            if out is None:
                continue
            ps, T1 = out[0], np.asarray(out[1], float)
            rec.count('monitor:c2p')
            rec.count('monitor:c2p:' + name)
            judge(rec, 'c2p', 'conventional_to_primitive', before, ps, T1, 'auto', 1.0 / mult, None, lammps=True, detail=dict(dd, hand=name))
            got['c2p-' + name] = (ps, T1)
            back = attempt(rec, 'primitive_to_conventional accepts the primitive cell made by conventional_to_primitive', 'p2c:exception',
                           lambda: ps.dump('primitive_to_conventional', setting=basis, return_transform=True), chain='p2c')
            if back is not None:
                c2, T2 = back[0], np.asarray(back[1], float)
                rec.count('monitor:roundtrip-c2p-p2c')
                judge(rec, 'roundtrip:c2p-p2c', 'p2c(c2p(x)) = x', before, c2, T2 @ T1, 'auto', 1.0, [np.eye(3)] if name == 'rh' else None,
                      lammps=True, detail=dict(dd, hand=name))
        for name, cell_ in (('rh', prim), ('lh', primL)):
            ps = build_system(am, cell_)
            before = snapshot(ps)
            out = attempt(rec, f'primitive_to_conventional accepts the {name} primitive cell of a {basis}-centred {family} lattice',
                          'p2c:exception', lambda: ps.dump('primitive_to_conventional', setting=basis, return_transform=True), chain='p2c')
            if out is None:
                continue
            c2, T1 = out[0], np.asarray(out[1], float)
            rec.count('monitor:p2c')
            rec.count('monitor:p2c:' + name)
            judge(rec, 'p2c', 'primitive_to_conventional', before, c2, T1, 'auto', float(mult), None, lammps=True, detail=dict(dd, hand=name))
            got['p2c-' + name] = (c2, T1)
        if 'c2p-rh' in got and 'c2p-lh' in got:
            same_crystal_pair(rec, 'c2p:lefthanded-cell', 'conventional_to_primitive: the right- and the left-handed description of one '
                              'conventional cell give the same crystal', *got['c2p-rh'], *got['c2p-lh'], L, detail=dd)
            rec.count('convh:c2p-compared')
        if 'p2c-rh' in got and 'p2c-lh' in got:
            same_crystal_pair(rec, 'p2c:lefthanded-cell', 'primitive_to_conventional: the right- and the left-handed description of one '
                              'primitive cell give the same crystal', *got['p2c-rh'], *got['p2c-lh'], L, detail=dd)
            rec.count('convh:p2c-compared')
        end_case(rec, 'conversion')
        STATE['cls'] = None

    # -- 6c. conversions: option combinations x motif classes x call paths x construction paths -----------
    # conventional_to_primitive documents check_basis=False for "complex unit cells where no atoms are at the lattice
    # site [0, 0, 0]", check_family=False for centred cells of other families, a caller-chosen smallshift and the
    # tolerances of its basis check.  Every row of the conversion table (+ 9 centred cells of non-conventional families)
    # is crossed with 5 motif classes (4 of them WITHOUT an atom on the lattice point) and 7 option profiles; the generic
    # trigonal request 't' therefore also arrives with the basis check switched off on obverse and on reverse cells
    # (refusal accepted, a result is judged).  A (conv -> prim -> conv) and B (prim -> conv -> prim) as in group 6.
    OTAB = list(TAB) + list(gen.NONCONVENTIONAL_TABLE)
    assert len(OTAB) == 31
    for i in ctx.cases('conversions-options', ctx.pick(len(OTAB) * 14, len(OTAB) * 105)):
        rng = ctx.rng
        setting, basis, family = OTAB[i % 31]
        nonconv = i % 31 >= len(TAB)
        opts = C2P_OPTS[i % 7]
        if opts.startswith('basis-off'):
            mc = gen.MOTIF_CLASSES[i % 5]
        else:
            # basis check on: half the cells have the lattice-point atom it demands, a quarter the atom 1e-4 cell vectors off
            # (passes only under 'loose-atol'), a quarter no such atom at all (documented refusal)
            mc = ('corner+generic', 'near-corner', 'corner+generic', ('generic', 'face', 'fractions')[(i // 28) % 3])[(i // 7) % 4]
        path = PATHS[(i // 31) % 3]
        how = CONSTRUCT[(i // 2) % 4]
        r = i // 31
        begin_case()
        nmotif, ntypes = 1 + (i // 5) % 3, 1 + (i // 3) % 2
        oc = ALL5[(i // 7) % 5] if i % 2 else NEAR0[(i // 2) % 2]
        conv = gen.gen_conventional(rng, basis, family, nmotif, ntypes, oc, mc)
        mult = gen.multiplicity(basis)
        kw = c2p_kwargs(rng, opts, conv, i)
        checked = kw.get('check_basis', True)
        rec.case(('conversion-options', setting, basis, family, mc, opts, path, how, oc), nontrivial=True,
                 fp=fingerprint(conv['vects'], conv['origin'], conv['pos'], setting, opts, repr(kw.get('smallshift'))))
        rec.count('class:convopt')
        rec.count('class:convopt-setting-' + setting)
        rec.count('class:convopt-motif-' + mc)
        rec.count('class:convopt-opts-' + opts)
        rec.count('class:convopt-path-' + path)
        rec.count('class:convopt-construct-' + how)
        rec.count('class:origin-' + oc)
        if nonconv:
            rec.count('class:convopt-nonconventional-family')
        if not conv['site_atom']:
            rec.count('class:convopt-no-atom-on-lattice-point')
            if not checked:
                rec.count('class:convopt-no-atom-on-lattice-point:basis-off')
                rec.count('class:convopt-no-atom-on-lattice-point:basis-off:' + setting)
        if nmotif == 1 and not conv["site_atom"]:
            rec.count('class:convopt-one-atom-primitive-off-lattice-point')
        if setting == 't' and not checked:
            rec.count('class:convopt-t-unchecked-on-' + basis)
        if 'smallshift' in kw:
            rec.count('class:convopt-smallshift-' + SHIFT_FORMS[(i // 7) % len(SHIFT_FORMS)])
        if r < 1 and i % 5 == 1:
            rec.sample(dict(entry='conversion-options', setting=setting, basis=basis, family=family, motif=mc, options=repr(kw),
                            path=path, vects=conv['vects'], origin=conv['origin'], rel=conv['rel'], atype=conv['atype']))
        STATE['cls'] = f'{setting}/{family}/{mc}/{opts}'
        dd = dict(setting=setting, basis=basis, family=family, motif=mc, options=repr(kw), path=path, construct=how)
        refusals = []
        if checked:
            refusals.append(REFUSE_BASIS)           # documented: the check demands atoms of one type on the lattice points
        elif setting == 't':
            refusals.append(REFUSE_T)
        # A: conventional -> primitive -> conventional
        cs = construct(am, conv, how)
        outA = convert(rec, am, 'c2p', cs, setting, mult, kw, path, dd, refusals)
        if outA is None and STATE['refused']:
            rec.count('convopt:c2p-refused')
        if outA is not None:
            ps, T1, before = outA
            rec.count('convopt:c2p-judged')
            rec.count('convopt:c2p-judged-' + opts)
            if not conv['site_atom']:
                rec.count('convopt:c2p-judged-no-atom-on-lattice-point')
            if nonconv:
                rec.count('convopt:c2p-judged-nonconventional-family')
            if setting == 't':
                rec.count('convopt:c2p-judged-t' + ('' if checked else '-unchecked'))
            if i % 3 == 0:
                # the same call again without return_transform: the system alone, the same value
                kws = dict(kw, setting=setting)
                again = attempt(rec, 'conventional_to_primitive repeated without return_transform', 'c2p:exception',
                                lambda: call_style(am, 'c2p', cs, path, kws), chain='c2p')
                if again is not None:
                    rec.check(not isinstance(again, tuple), 'conventional_to_primitive: without return_transform the system alone is returned',
                              'c2p:return')
                    if not isinstance(again, tuple):
                        same_result(rec, 'c2p:repeat', 'conventional_to_primitive: the same call repeated (without return_transform) returns '
                                    'the same cell', snapshot(ps), snapshot(again), **dd)
            back = convert(rec, am, 'p2c', ps, basis, mult, {}, PATHS[(i // 31 + 1) % 3], dd,
                           roundtrip=(before, T1, 'roundtrip:c2p-p2c', 'p2c(c2p(x)) = x'))
            if back is not None:
                rec.count('convopt:roundtrip-c2p-p2c')
                if not conv['site_atom']:
                    rec.count('convopt:roundtrip-c2p-p2c-no-atom-on-lattice-point')
                rec.close(1e-7 * conv['L'], np.asarray(back[0].box.vects), before['vects'],
                          'p2c(c2p(x)) has the cell vectors of x (x in LAMMPS orientation)', 'roundtrip:c2p-p2c:vects', **dd)
        # B: primitive -> conventional -> primitive
        prim = gen.primitive_of(conv, rng, ('raw', 'rotated')[r % 2])
        ps = construct(am, prim, how)
        dd = dict(dd, orientation=prim['orientation'])
        outB = convert(rec, am, 'p2c', ps, basis, mult, {}, path, dd, offset=origin_offset(prim['vects'], prim['origin']))
        if outB is not None:
            c2, T1, before = outB
            cv = np.asarray(c2.box.vects)
            rec.close(1e-7 * conv['L'] ** 2, cv @ cv.T, conv['vects'] @ conv['vects'].T,
                      'primitive_to_conventional: the result is the conventional cell of the lattice (Gram matrix)', 'p2c:gram', **dd)
            if i % 3 == 1:
                again = attempt(rec, 'primitive_to_conventional repeated without return_transform', 'p2c:exception',
                                lambda: call_style(am, 'p2c', ps, path, dict(setting=basis)), chain='p2c')
                if again is not None and not isinstance(again, tuple):
                    same_result(rec, 'p2c:repeat', 'primitive_to_conventional: the same call repeated (without return_transform) returns '
                                'the same cell', snapshot(c2), snapshot(again), **dd)
            # p2c re-bases the cell at a zero origin: whether an atom sits on ITS lattice point is not known here, so the
            # basis refusal is accepted whenever the check is on
            back = convert(rec, am, 'c2p', c2, setting, mult, kw, PATHS[(i // 31 + 2) % 3], dd, refusals,
                           roundtrip=(before, T1, 'roundtrip:p2c-c2p', 'c2p(p2c(x)) = x'))
            if back is not None:
                rec.count('convopt:roundtrip-p2c-c2p')
                if not checked:
                    rec.count('convopt:roundtrip-p2c-c2p-basis-off')
        end_case(rec, 'conversion')
        STATE['cls'] = None

    # -- 6d. conversions: refusals ------------------------------------------------------------------------
    # A cell whose atoms do NOT have the requested centring (primitive motif, or different types on the centring sites)
    # holds no primitive cell of 1/multiplicity the size: conventional_to_primitive (checks on) must refuse it.  The
    # documented ValueError for a smallshift that is not a 3-vector and for a setting name that does not exist (both
    # styles, basis check on and off).
    CREF = ('basis-mismatch', 'types-differ-on-centring-sites', 'smallshift-not-a-3-vector', 'unknown-setting:c2p',
            'unknown-setting:c2p-basis-off', 'unknown-setting:p2c')
    CSET = ('i', 'f', 'a', 'b', 'c', 't1', 't2', 't')
    for i in ctx.cases('conversion-refusals', ctx.pick(96, 480)):
        rng = ctx.rng
        kind = CREF[i % len(CREF)]
        s_ = CSET[(i // len(CREF)) % len(CSET)]
        b_ = {'t': ('t1', 't2')[(i // 48) % 2]}.get(s_, s_)
        fams = gen.COMPATIBLE[b_]
        family = fams[(i // 7) % len(fams)]
        oc = NEAR0[(i // 2) % 2]
        path = PATHS[(i // 3) % 3]
        kw = {}
        style = 'p2c' if kind.endswith('p2c') else 'c2p'
        if kind == 'basis-mismatch':
            conv = gen.gen_conventional(rng, 'p', family, 1 + i % 3, 1 + i % 2, oc)
        else:
            conv = gen.gen_conventional(rng, b_, family, 1 + i % 2, 2, oc)
        req = s_
        if kind == 'types-differ-on-centring-sites':
            at = np.array(conv['atype']).copy()
            at[conv['nmotif']] = at[0] % 2 + 1                  # first centring image of the lattice-point atom: the other type
            sym = tuple(conv['symbols']) if len(conv['symbols']) > 1 else tuple(conv['symbols']) + ('W',)
            conv = dict(conv, atype=at, symbols=sym)
        elif kind == 'smallshift-not-a-3-vector':
            kw['smallshift'] = [[0.001, 0.001], [0.001] * 4, 0.001, [[0.001, 0.001, 0.001]], np.full((3, 1), 0.001)][(i // 6) % 5]
        elif kind.startswith('unknown-setting'):
            req = ('x', 'q', '', 'pp', 'r', 'F', 't3', 'h')[(i // 6) % 8]
            if kind.endswith('basis-off'):
                kw['check_basis'] = False
        cell_ = gen.primitive_of(conv, rng, 'raw') if style == 'p2c' else conv
        cs = build_system(am, cell_)
        rec.case(('conversion-refusal', kind, s_, family, path), nontrivial=True, fp=fingerprint(cell_['vects'], cell_['pos'], req, kind))
        rec.count('class:conv-refusal-' + kind)
        STATE['cls'] = 'refusal:' + kind
        kws = dict(kw, setting=req, return_transform=True)
        g = ctx.guard(f'{STYLE[style]} refuses ({kind}) with ValueError', style + ':refusal:' + kind, accept=(ValueError,))
        with g, entry(style):
            call_style(am, style, cs, path, kws)
        del STATE['chain'][:]
        if g.exc is None:
            rec.fail(f'{STYLE[style]} refuses: {kind}', style + ':not-refused:' + kind, setting=req, basis=conv['basis'], family=family,
                     options=repr(kw))
        else:
            rec.count('conv-refusal:raised')
        STATE['cls'] = None

    # -- 6e. call histories, every entry point ------------------------------------------------------------
    # result r1 of a call on system A is kept (plain copies); then something happens - the caller writes all over r1,
    # another instance B is processed with customised options, the argument OBJECTS are edited in place and used again,
    # system A itself is edited in place and processed again -; then r1 is looked at again (unless it was scribbled on), A
    # is compared with what it was, and the first call repeated on a fresh equal system must return the same value.  Each
    # call is judged against its own input by the monitors / the call-site judge.  The four construction paths, six
    # further argument forms of rotate (tuple of tuples, int8 / int16 / float32 arrays, list of row arrays, Fortran-ordered
    # floats) and its tol option (float, list, tuple, array) are stratified here too.
    ENTRY = ('supersize', 'rotate', 'c2p', 'p2c')
    BETWEEN = ('scribble-result', 'other-instance', 'edited-arguments', 'edited-system')
    UFORMS = ('int64-array', 'tuple', 'int8-array', 'float32-array', 'int16-array', 'list-of-rows', 'fortran-float-array')
    TOLS = (None, 'float', 'list', 'tuple', 'array')

    def uform(M, form):
        M = np.asarray(M)
        if form == 'tuple':
            return tuple(tuple(int(x) for x in r_) for r_ in M.tolist())
        if form == 'list-of-rows':
            return [np.array(r_) for r_ in M]
        if form == 'fortran-float-array':
            return np.asfortranarray(M.astype(float))
        return M.astype({'int64-array': np.int64, 'int8-array': np.int8, 'float32-array': np.float32, 'int16-array': np.int16}[form])

    def tolarg(kind):
        return {None: None, 'float': 1e-5, 'list': [1e-4, 1e-5, 1e-6, 1e-7], 'tuple': (1e-5, 1e-6, 1e-7), 'array': np.array([1e-4, 1e-6])}[kind]

    REFUSE_TOL = (ValueError, 'Filtering failed', 'rotate: caller-chosen tol list finds no consistent atom count (documented)')

    for i in ctx.cases('histories', ctx.pick(480, 2400)):
        rng = ctx.rng
        ep = ENTRY[i % 4]
        btw = BETWEEN[(i // 4) % 4]
        how = CONSTRUCT5[(i // 16) % 5] if ep in ('supersize', 'rotate') else CONSTRUCT[(i // 16) % 4]
        begin_case()
        # ---- the cell and the (mutable) argument objects of the call
        row = OTAB[(i // 4) % 31]
        mc = gen.MOTIF_CLASSES[(i // 4) % 5]
        oc = ALL5[(i // 4) % 5] if ep in ('c2p', 'p2c') or (i // 4) % 3 else NEAR0[(i // 8) % 2]
        if ep in ('c2p', 'p2c'):
            setting, basis, family = row
            if setting == 't':
                setting = basis
            conv = gen.gen_conventional(rng, basis, family, 1 + (i // 8) % 3, 1 + (i // 4) % 2, oc, mc)
            convB = gen.gen_conventional(rng, basis, family, conv['nmotif'], len(conv['symbols']), oc, gen.MOTIF_CLASSES[(i // 4 + 2) % 5])
            u = conv if ep == 'c2p' else gen.primitive_of(conv, rng, 'raw')
            uB = convB if ep == 'c2p' else gen.primitive_of(convB, rng, 'rotated')
            mult = gen.multiplicity(basis)
            L = conv['L']
        else:
            kind = cells.KINDS[(i // 4) % 9]
            u = gen.gen_unit_cell(rng, kind, oc, 1.0, 1 + (i // 4) % 5, 1 + (i // 12) % 3, gen.POS_CLASSES[(i // 4) % 5])
            uB = gen.gen_unit_cell(rng, kind, oc, 1.0, u['natoms'], u['ntypes'], gen.POS_CLASSES[(i // 4 + 1) % 5])
            L = u['L']
        form = UFORMS[(i // 4) % 7]
        tolk = TOLS[(i // 28) % 5]

        def make_args(second=False):
            """argument objects of one call: dict(name -> object); ``second``: other (customised) values"""
            if ep == 'supersize':
                return dict(specs=gen.gen_multipliers(rng, gen.MULT_CLASSES[(i // 4 + 3 * second) % len(gen.MULT_CLASSES)], max_images=27))
            if ep == 'rotate':
                M = gen.sample_matrix(rng, 2 if (i // 4) % 2 else 1, 1 if (i // 8 + second) % 2 else -1, max_det=12)
                return dict(uvws=uform(M, form if not second else 'int64-array'), tol=tolarg(tolk if not second else 'list'))
            if ep == 'c2p':
                kw_ = dict(check_basis=False)
                if second or (i // 16) % 2:
                    kw_['smallshift'] = gen_smallshift(rng, 'float-array')
                if second:
                    kw_['rtol'], kw_['atol'] = 1e-3, 1e-4 * L
                return kw_
            return {}

        def invoke(s, a, key):
            """one call of the entry point -> (result system, T or None) or None"""
            if ep == 'supersize':
                out = attempt(rec, 'supersize accepts documented multipliers', 'supersize:exception', lambda: s.supersize(*a['specs']))
                return None if out is None else (out, None)
            if ep == 'rotate':
                kw_ = {} if a['tol'] is None else dict(tol=a['tol'])
                out = attempt(rec, 'rotate accepts integer vector sets of non-zero determinant', 'rotate:exception:histories',
                              lambda: s.rotate(a['uvws'], return_transform=True, **kw_),
                              offset=origin_offset(np.asarray(s.box.vects), np.asarray(s.box.origin)),
                              refusals=() if a['tol'] is None else (REFUSE_TOL,))
                return None if out is None else (out[0], np.asarray(out[1]))
            out = convert(rec, am, ep, s, setting if ep == 'c2p' else basis, mult, a, PATHS[(i // 4) % 3],
                          dict(history=btw, construct=how, setting=setting, family=family, motif=mc))
            return None if out is None else (out[0], out[1])

        def arg_arrays(a):
            out = {}
            for k, v in a.items():
                if isinstance(v, np.ndarray):
                    out['argument ' + k] = v
                elif isinstance(v, list) and v and isinstance(v[0], np.ndarray):
                    for n_, x in enumerate(v):
                        out[f'argument {k}[{n_}]'] = x
            return out

        def frozen(a):
            import copy
            return copy.deepcopy(a)

        def args_equal(a, b):
            return repr(a) == repr(b)

        rec.case(('history', ep, btw, how, form if ep == 'rotate' else '', tolk if ep == 'rotate' else ''), nontrivial=True,
                 fp=fingerprint(u['vects'], u['origin'], u['pos'], ep, btw))
        rec.count('class:history')
        rec.count('class:history-' + ep)
        rec.count('class:history-' + btw)
        rec.count('class:history-' + ep + ':' + btw)
        rec.count('class:history-construct-' + how)
        rec.count('class:history-construct-' + how + ':' + ep)
        if ep == 'rotate':
            rec.count('class:rotate-form-' + form)
            rec.count('class:rotate-tol-' + str(tolk))
        count_cell_classes(rec, u) if ep in ('supersize', 'rotate') else rec.count('class:origin-' + oc)
        STATE['cls'] = f'history:{ep}:{btw}:{how}'
        key = ep + ':history'
        sA = construct(am, u, how)
        beforeA = snapshot(sA)
        a1 = make_args()
        a1_kept = frozen(a1)
        r1 = invoke(sA, a1, key)
        if r1 is None:
            rec.count('history:first-call-refused')
            end_case(rec, 'history')
            STATE['cls'] = None
            continue
        res1, T1 = r1
        snap1, T1c = snapshot(res1), None if T1 is None else np.array(T1, copy=True)
        rec.check(args_equal(a1, a1_kept), f'{ep}: the caller\'s argument objects are not modified', key + ':argument-modified',
                  before=repr(a1_kept), after=repr(a1))
        no_aliasing(rec, key, ep, res1, T1, dict(arrays_of(sA), **arg_arrays(a1)), history=btw)
        dh = dict(history=btw, construct=how, entry=ep)
        if btw == 'scribble-result':
            scribble(res1, T1)
            diff = unmodified(beforeA, snapshot(sA))
            rec.check(diff is None, f'{ep}: writing into the returned system / transformation does not change the input system',
                      key + ':result-aliases-input', diff=diff, **dh)
            rec.check(args_equal(a1, a1_kept), f'{ep}: writing into the returned system / transformation does not change the arguments',
                      key + ':result-aliases-argument', before=repr(a1_kept), after=repr(a1))
            rec.count('history:scribbled')
        else:
            if btw == 'other-instance':
                sB = construct(am, uB, CONSTRUCT[(i // 16 + 1) % 4])          # another construction path than A's
                r2 = invoke(sB, make_args(second=True), key)
            elif btw == 'edited-arguments':
                a2 = make_args(second=True)
                for k_ in list(a1):                              # the same objects, new contents where the object is mutable
                    if isinstance(a1[k_], np.ndarray) and isinstance(a2.get(k_), np.ndarray) and a1[k_].shape == a2[k_].shape:
                        a1[k_][...] = a2[k_]
                    elif isinstance(a1[k_], list) and isinstance(a2.get(k_), list):
                        a1[k_][:] = a2[k_]
                    elif k_ in a2:
                        a1[k_] = a2[k_]
                r2 = invoke(sA, a1, key)
            else:
                # system A edited in place: atoms moved rigidly by a generic vector, two per-atom values changed, cell scaled
                sA.atoms.view['pos'][...] += rng.uniform(0.05, 0.3, 3) @ np.asarray(sA.box.vects)
                sA.atoms.view['idn'][...] += 1000
                sA.box_set(vects=np.asarray(sA.box.vects) * 1.03125, origin=np.asarray(sA.box.origin), scale=True)
                sA.wrap()
                r2 = invoke(sA, a1, key)
            rec.count('history:second-call' + ('' if r2 is not None else '-refused'))
            same_result(rec, key + ':earlier-result-changed', f'{ep}: the result of an earlier call is not changed by a later call '
                        f'({btw})', snap1, snapshot(res1), T1c, T1, **dh)
        # the first call again, on a fresh equal system with fresh equal arguments
        r3 = invoke(construct(am, u, how), frozen(a1_kept), key)
        if r3 is not None:
            same_result(rec, key + ':repeat', f'{ep}: the same call on an equal system gives the same value whatever happened in between '
                        f'({btw})', snap1, snapshot(r3[0]), T1c, r3[1], **dh)
            rec.count('history:repeated')
        end_case(rec, 'history')
        STATE['cls'] = None

    # -- coverage --------------------------------------------------------------------------------------
    for k, v in monitor.calls.items():
        if isinstance(v, int):
            rec.count('monitor_calls:' + k, v)
        if k.endswith(':post_error') or k.endswith(':pre_error'):
            rec.fail('harness: a monitor raised instead of recording', 'harness:monitor-error:' + k,
                     n=v, tracebacks=monitor.calls.get('_post_tracebacks'))
    sysf = 'atomman/core/System.py'
    rec.count('reach:supersize-body', cover.hits(sysf, 925, 1026))
    rec.count('reach:rotate-body', cover.hits(sysf, 1063, 1151))
    rec.count('reach:normalize', cover.hits('atomman/lammps/normalize.py', 37, 70))
    rec.count('reach:normalize-lefthanded-branch', cover.hits('atomman/lammps/normalize.py', 42, 45))
    rec.count('reach:miller-4to3', cover.hits('atomman/tools/miller.py', 137, 150))
    rec.count('reach:miller-centring-tables', cover.hits('atomman/tools/miller.py', 220, 337))
    rec.count('reach:c2p-dump', cover.hits('atomman/dump/conventional_to_primitive/dump.py', 95, 175))
    rec.count('reach:p2c-dump', cover.hits('atomman/dump/primitive_to_conventional/dump.py', 50, 70))

    rec.floor('selfcheck', 40)
    rec.floor('class:rotate-near-face-ladder', 36)
    rec.floor('class:rotate-near-face-ladder:in-class', 30)
    # round 4: option combinations / motif classes / call paths / construction paths of the conversions, their refusals, and
    # call histories of every entry point (floors are for the quick tier: 434 + 96 + 480 cases)
    rec.floor('class:convopt', 434)
    for s_ in ('p', 'i', 'f', 'a', 'b', 'c', 't1', 't2', 't'):
        rec.floor('class:convopt-setting-' + s_, 28)
    for m_, n_ in zip(gen.MOTIF_CLASSES, (150, 50, 50, 95, 50)):
        rec.floor('class:convopt-motif-' + m_, n_)
    for o_, n_ in zip(C2P_OPTS, (55, 55, 20, 55, 28, 42, 20)):
        rec.floor('class:convopt-opts-' + o_, 60)
        rec.floor('convopt:c2p-judged-' + o_, n_)
    for p_ in PATHS:
        rec.floor('class:convopt-path-' + p_, 120)
    for c_ in CONSTRUCT5:
        if c_ in CONSTRUCT:
            rec.floor('class:convopt-construct-' + c_, 100)
        rec.floor('class:history-construct-' + c_, 48)
        for e_ in ('supersize', 'rotate', 'c2p', 'p2c'):
            if c_ in CONSTRUCT or e_ in ('supersize', 'rotate'):
                rec.floor('class:history-construct-' + c_ + ':' + e_, 24)
    for f_ in SHIFT_FORMS:
        rec.floor('class:convopt-smallshift-' + f_, 10)
    rec.floor('class:convopt-nonconventional-family', 120)
    rec.floor('class:convopt-no-atom-on-lattice-point', 260)
    rec.floor('class:convopt-no-atom-on-lattice-point:basis-off', 140)
    for s_ in ('p', 'i', 'f', 'a', 'b', 'c', 't1', 't2'):
        rec.floor('class:convopt-no-atom-on-lattice-point:basis-off:' + s_, 8)
    rec.floor('class:convopt-one-atom-primitive-off-lattice-point', 80)
    rec.floor('class:convopt-t-unchecked-on-t1', 6)
    rec.floor('class:convopt-t-unchecked-on-t2', 6)
    rec.floor('convopt:c2p-judged', 280)
    rec.floor('convopt:c2p-judged-no-atom-on-lattice-point', 145)
    rec.floor('convopt:c2p-judged-nonconventional-family', 70)
    rec.floor('convopt:c2p-judged-t', 6)
    rec.floor('convopt:c2p-refused', 120)
    rec.floor('convopt:roundtrip-c2p-p2c', 280)
    rec.floor('convopt:roundtrip-c2p-p2c-no-atom-on-lattice-point', 145)
    rec.floor('convopt:roundtrip-p2c-c2p', 280)
    rec.floor('convopt:roundtrip-p2c-c2p-basis-off', 165)
    rec.floor('same:c2p:repeat', 80)
    rec.floor('same:p2c:repeat', 120)
    for k_ in ('basis-mismatch', 'types-differ-on-centring-sites', 'smallshift-not-a-3-vector', 'unknown-setting:c2p',
               'unknown-setting:c2p-basis-off', 'unknown-setting:p2c'):
        rec.floor('class:conv-refusal-' + k_, 16)
    rec.floor('conv-refusal:raised', 96)
    rec.floor('class:history', 480)
    for e_ in ('supersize', 'rotate', 'c2p', 'p2c'):
        rec.floor('class:history-' + e_, 120)
        rec.floor('alias:checked:' + e_, 100)
        rec.floor('same:' + e_ + ':history:repeat', 100)
        rec.floor('same:' + e_ + ':history:earlier-result-changed', 75)
        for b_ in ('scribble-result', 'other-instance', 'edited-arguments', 'edited-system'):
            rec.floor('class:history-' + e_ + ':' + b_, 28)
    rec.floor('history:scribbled', 100)
    rec.floor('history:second-call', 330)
    rec.floor('history:repeated', 450)
    for f_ in ('tuple', 'int8-array', 'float32-array', 'int16-array', 'list-of-rows', 'fortran-float-array'):
        rec.floor('class:rotate-form-' + f_, 14)
    for t_ in ('None', 'float', 'list', 'tuple', 'array'):
        rec.floor('class:rotate-tol-' + t_, 14)
    rec.floor('precision:judged', 2 * N_ENUM1 + 2000)
    # one crystal, every description (left-/right-handed vector sets and unit cells x origin classes x atoms on faces)
    rec.floor('class:family', 1260)
    for oc_ in ALL5:
        rec.floor('class:family-origin-' + oc_, 250)
        rec.floor('class:convh-origin-' + oc_, 40)
    for fl_ in gen.FLIPS:
        rec.floor('class:family-flip-' + fl_, 175)
    for m_ in gen.MIRRORS:
        rec.floor('class:family-mirror-' + m_, 200)
    for src_ in SOURCES:
        rec.floor('class:family-src-' + src_, 300)
    rec.floor('class:family-first-lh', 600)
    rec.floor('class:family-first-rh', 600)
    rec.floor('class:family-off-lattice-face', 450)
    rec.floor('class:family-off-lattice-generic', 120)
    rec.floor('class:family-on-lattice-face', 300)
    rec.floor('family:twin-compared', 1200)
    rec.floor('family:twin-same-cell', 170)
    rec.floor('family:mirror-compared', 1200)
    rec.floor('family:identity-compared', 1200)
    rec.floor('class:convh', 220)
    rec.floor('class:convh-off-lattice', 120)
    rec.floor('convh:c2p-compared', 200)
    rec.floor('convh:p2c-compared', 200)
    rec.floor('monitor:c2p:lh', 200)
    rec.floor('monitor:p2c:lh', 200)
    rec.floor('monitor:rotate:lh', 8000)
    rec.floor('monitor:rotate:rh', 8000)
    rec.floor('class:supersize-lefthanded-cell', 150)
    rec.floor('class:origin-lattice', 2000)
    # calls that can tell the two frame readings apart (cell corner off the lattice), per handedness, and cases in
    # which a left- and a right-handed call on the same unit cell both could
    rec.floor('anchor:pinned:lh', 5000)
    rec.floor('anchor:pinned:rh', 5000)
    rec.floor('anchor:case-pinned-lh-and-rh', 800)
    rec.floor('reach:normalize-lefthanded-branch', 4)
    rec.floor('monitor:supersize', 700)
    rec.floor('monitor:rotate', N_ENUM1 + 800 + 5 * 1200)
    rec.floor('monitor:rotate>supersize', N_ENUM1)
    rec.floor('monitor:c2p>rotate', 250)
    rec.floor('monitor:p2c>rotate', 250)
    rec.floor('monitor:c2p', 250)
    rec.floor('monitor:p2c', 250)
    rec.floor('monitor:roundtrip-c2p-p2c', 120)
    rec.floor('monitor:roundtrip-p2c-c2p', 120)
    rec.floor('monitor:rotate:no-transform', 30)
    rec.floor('judged:same-crystal', 2 * N_ENUM1 + 2000)
    rec.floor('class:rotate-enum1', N_ENUM1)
    rec.floor('class:rotate-identity', 1)
    rec.floor('class:rotate-lefthanded', 5904 + 200)
    rec.floor('class:rotate-sample2', 300)
    rec.floor('class:rotate-sample3', 300)
    rec.floor('class:rotate-hex4', 200)
    rec.floor('class:rotate-hex4-raw', 100)
    rec.floor('class:rotate-origin-offset', 100)
    for f in FORMS:
        rec.floor('class:rotate-form-' + f, 100)
    for mc in gen.MULT_CLASSES:
        rec.floor('class:mult-' + mc, 80)
    for s_ in ('p', 'i', 'f', 'a', 'b', 'c', 't1', 't2', 't'):
        rec.floor('class:conv-' + s_, 8)
    for f in cells.FAMILIES:
        rec.floor('class:conv-family-' + f, 8)
    for k in REF:
        rec.floor('class:refusal-' + k, 10)
    rec.floor('class:atom-on-face', 3000)
    rec.floor('class:atom-at-half', 1500)
    rec.floor('class:origin-small', 3000)
    rec.floor('class:origin-near', 200)
    rec.floor('class:origin-far', 200)
    rec.floor('class:several-types', 3000)
    rec.floor('reach:supersize-body', 40)
    rec.floor('reach:rotate-body', 35)
    rec.floor('reach:normalize', 10)
    rec.floor('reach:miller-4to3', 5)
    rec.floor('reach:miller-centring-tables', 20)
    rec.floor('reach:c2p-dump', 20)
    rec.floor('reach:p2c-dump', 4)
