"""C05 - Wrapping and normalising move atoms only by lattice vectors or a rotation.

Every clause is decided inside postcondition monitors installed on the real
``System.wrap``, ``System.box_set`` and ``atomman.lammps.normalize`` (all
aliases), so the calls atomman makes internally (normalize -> box_set, wrap ->
box_set) are judged exactly like the calls of the workload.  The monitors
compare a snapshot taken before the call with the state after it and use only
``vf.oracle`` (numpy) to decompose the motion; ``Box.inside`` is never used
(DESIGN 4a): "inside" means oracle-computed relative coordinates in
[-bound, 1+bound].
"""
from __future__ import annotations

import numpy as np

from ..core import fingerprint
from ..gen import c05_systems as S
from ..oracle import geometry as G
from ..oracle import c05_wrapnorm as W
from .. import monitor, cover

# monitors are self-sufficient (judge a call from its arguments and result): the repository's own tests run under them
# as an extra workload in the thorough tier (vf/repotests.py)
REPOTESTS = True

RULE = ('systems are generated round-robin over 9 cell kinds (7 crystal families in LAMMPS form, strongly tilted, '
        'randomly rotated) x {right-handed, left-handed by reversed c / exchanged a,b / mirror image} x 3 origin classes '
        'x 10 length scales (the same crystal in m, cm, mm, um, nm, angstrom, bohr, pm, fm working units and 1e4) x 8 periodicity settings (wrap; normalise: fully periodic only) x 4 atom-count classes '
        '(1, 2, 3-12, 13-40) x 5 placement profiles (inside, within +-2 cells, +-50 cells, exactly on faces of the '
        'cell or of a distant image, mixed incl. 1e-13..1e-5 from a face), each atom carrying int, float-vector, '
        '(float, 3x3, bool) extra properties.  A wrap case is non-trivial when at least one atom starts outside the '
        'cell or on a face; a normalise case when the cell is left-handed, not in LAMMPS form, or an atom starts '
        'outside.  distinct = distinct fingerprint of (vectors, origin, pbc, positions).  Group hist: 11 call histories on ONE '
        'System/Box (wrap, move atoms, wrap; wrap, replace cell, wrap; scaled read, box_set(scale=True), wrap; strain loop; '
        'wrap, change pbc, wrap; scaled read / box_set(scale=True) / wrap before normalize; normalize twice; the normalised '
        'output moved, wrapped, re-celled and normalised again; Box.set / Box.vects behind the System, then wrap) x 13-entry '
        'scale table x 7 kinds of replacement cell (strains 1e-9..0.2, rotated, unrelated, re-handed, rescaled) x 3 ways of '
        'giving the cell x 3 ways of moving atoms, every wrap / box_set / normalize call of a history judged by the same '
        'monitors from its own before/after snapshot.  Group units: the cell is built with unitconvert.set_in_units under '
        'real working length units (reset_units(length=...)), then normalised / wrapped with a history.')
ASSUMPTIONS = ['cells are non-degenerate with volume >= 10% of a*b*c; angles within [50,125] degrees or LAMMPS tilts <= 2 box lengths',
               'an atom closer to a face than 1e-9*(1 + |origin|/Lmin + max|relative coordinate|) may end on either side; '
               'inside is judged inclusively with that bound in oracle-computed relative coordinates (never Box.inside)',
               'vector components below 1e-9 of the largest cell component may be zeroed by Box.vects (documented threshold); '
               'cell-vector comparisons allow 2e-9*max|vects|',
               'normalise is judged only for fully periodic input (the quantifier of the property)',
               'true nearest-image distances are compared for all pairs of systems of <= 12 atoms and for a fixed sample '
               'of 66 pairs of larger ones',
               'every bound is a pure number (relative coordinates, rotation entries, angles) or a multiple of the cell size; '
               'nothing in the oracle is an absolute length, so the same judgement applies from 1e-10 to 1e5 per angstrom',
               'atoms are moved between the calls of a history by the workload itself (atoms_prop / view); that step is not judged',
               'oracle shares numpy/LAPACK with the code under test']

STATE = {'in_normalize': 0, 'rec': None, 'hist': None}     # hist: None or dict(kind, replaced) set by the history workload
SYSTEM_PY = 'atomman/core/System.py'
NORMALIZE_PY = 'atomman/lammps/normalize.py'
# anchored statements whose execution is required, located by their text (after the given marker) so that the
# floors survive unrelated edits that shift line numbers: (name, file, marker, statements)
REACH = [('wrap-periodic-floor', SYSTEM_PY, 'def wrap(', ('np.floor(spos[:, i])',)),
         ('wrap-nonperiodic-minmax', SYSTEM_PY, 'def wrap(', ('min = spos[:, i].min()', 'max = spos[:, i].max()')),
         ('wrap-nonperiodic-pad-low', SYSTEM_PY, 'def wrap(', ('mins[i] = min - 0.001',)),
         ('wrap-nonperiodic-pad-high', SYSTEM_PY, 'def wrap(', ('maxs[i] = max + 0.001',)),
         ('wrap-cell-update', SYSTEM_PY, 'def wrap(', ('origin = self.box.origin + mins.dot(self.box.vects)', 'self.box_set(avect=avect')),
         ('box_set-scale-branch', SYSTEM_PY, 'def box_set(', ("spos = self.atoms_prop('pos', scale=True)", "self.atoms_prop('pos', value=spos, scale=True)")),
         ('normalize-flip-branch', NORMALIZE_PY, 'def normalize(', ('system.box_set(avect=system.box.avect',)),
         ('normalize-rebuild-wrap-transform', NORMALIZE_PY, 'def normalize(', ('system.box_set(a=system.box.a', 'system.wrap()', 'np.linalg.lstsq('))]


def reach_counts(am):
    """(name, lines reached, lines required) for every REACH entry."""
    import os
    root = os.path.dirname(os.path.dirname(am.__file__))
    out = []
    for name, path, marker, needles in REACH:
        try:
            src = open(os.path.join(root, path)).read().splitlines()
        except OSError:
            src = []
        start = next((k for k, ln in enumerate(src) if marker in ln), None)
        got = 0
        for needle in needles:
            if start is None:
                break
            k = next((k for k in range(start, len(src)) if needle in src[k]), None)
            if k is not None and cover.hit(path, k + 1):
                got += 1
        out.append((name, got, len(needles)))
    return out

# --------------------------------------------------------------------------- snapshots

def snapshot(system):
    """Everything the property speaks about, copied out of a System."""
    atoms = system.atoms
    props = {}
    for k in atoms.prop():
        props[k] = np.array(atoms.view[k], copy=True)
    return dict(vects=np.array(system.box.vects, float), origin=np.array(system.box.origin, float),
                pbc=tuple(bool(x) for x in system.pbc), natoms=int(system.natoms), props=props,
                pos=props['pos'], symbols=tuple(system.symbols), masses=tuple(system.masses))


def scales(snap):
    """Length scales and the rounding bound of a snapshot."""
    v, o = snap['vects'], snap['origin']
    ln = np.linalg.norm(v, axis=1)
    rel = G.rel(snap['pos'], v, o) if snap['natoms'] else np.zeros((0, 3))
    osc = 1.0 + np.abs(o).max() / ln.min() + (np.abs(rel).max() if rel.size else 0.0)
    return ln.max(), ln.min(), rel, osc


def same_properties(rec, before, after, clause, key, skip=('pos',)):
    bad = []
    if before['natoms'] != after['natoms']:
        bad.append('natoms')
    if list(before['props']) != list(after['props']):
        bad.append('keys')
    for k, a in before['props'].items():
        if k in skip or k not in after['props']:
            continue
        b = after['props'][k]
        if a.dtype != b.dtype or a.shape != b.shape or not np.array_equal(a, b):
            bad.append(k)
    for k in ('pbc', 'symbols', 'masses'):
        if before[k] != after[k]:
            bad.append(k)
    rec.check(not bad, clause, key, changed=bad)


# --------------------------------------------------------------------------- wrap

def judge_wrap(rec, before, after, flags, entry):
    n = before['natoms']
    if n == 0:
        rec.count('wrap:empty-system-skipped')
        return
    v0, o0 = before['vects'], before['origin']
    v1, o1 = after['vects'], after['origin']
    pbc = np.array(before['pbc'], bool)
    L, Lmin, rel0, osc = scales(before)
    tolr = 1e-9 * osc
    K = entry + ':'
    rec.count('monitor:' + entry)
    if np.abs(v0).max() < 1e-7:
        rec.count('monitor:' + entry + ':cell-below-1e-7')
    h = STATE['hist']
    if h is not None:
        rec.count('monitor:' + entry + ':in-history')
        if h.get('replaced'):
            rec.count('monitor:' + entry + ':after-cell-replaced')

    # (1) each atom moved by whole cell vectors, along periodic directions only
    f = W.lattice_coeffs(before['pos'] - after['pos'], v0)          # pos_before = pos_after + f . vects_before
    ok = W.dist_to_int(f[:, pbc]) <= tolr
    rec.check(ok.all(), 'wrap moves each atom by whole cell vectors', K + 'whole-vectors',
              worst=float(W.dist_to_int(f[:, pbc]).max(initial=0)), tol=tolr, pbc=before['pbc'], vects=v0, origin=o0)
    okn = np.abs(f[:, ~pbc]) <= tolr
    rec.check(okn.all(), 'wrap does not move atoms along non-periodic directions', K + 'moved-nonperiodic',
              worst=float(np.abs(f[:, ~pbc]).max(initial=0)), tol=tolr, pbc=before['pbc'], vects=v0, origin=o0)
    moved = np.rint(f) != 0
    rec.count('wrap:atoms-moved', int(moved.any(axis=1).sum()))
    rec.count('wrap:atoms-moved-by-10-cells-or-more', int((np.abs(np.rint(f)) >= 10).any(axis=1).sum()))
    rec.count('wrap:atoms', n)

    # (2) the returned image flags
    if flags is not None:
        fl = np.asarray(flags)
        shape_ok = fl.shape == (n, 3)
        rec.check(shape_ok and fl.dtype.kind in 'iu' and bool(np.all(fl == np.rint(fl))),
                  'image flags are an (natoms,3) array of integers', K + 'flags-integer', dtype=str(fl.dtype), shape=fl.shape)
        if shape_ok:
            rec.check(not fl[:, ~pbc].any(), 'image flags are zero along non-periodic directions', K + 'flags-nonperiodic',
                      pbc=before['pbc'], flags=fl[:5])
            rec.close(1e-9 * L * osc, after['pos'] + fl.astype(float) @ v0, before['pos'],
                      'image flags reconstruct the original positions', K + 'reconstruct', pbc=before['pbc'], vects=v0, origin=o0)
            rec.count('wrap:flags-checked')

    # (3) every atom inside the (new) cell
    rel1 = G.rel(after['pos'], v1, o1)
    L1min = min(np.linalg.norm(v1, axis=1).min(), G.perp_widths(v1).min())
    # Box.vects zeroes components below 1e-9 * max|vects| (documented): in a cell whose longest vector is much longer
    # than its thinnest width, that moves relative coordinates by up to 1e-9 * max|vects| / width (found by the
    # thorough sweep with seed 21: a/b = 1e-2, atom 2e-7 beyond the face after the non-periodic b was enlarged)
    bound = 1e-9 * (osc + (np.abs(o1).max() + np.abs(v1).max()) / L1min)
    out = (rel1 < -bound) | (rel1 > 1 + bound)
    rec.check(not out.any(), 'every atom is inside the cell after wrap', K + 'inside',
              rel_after=rel1[out.any(axis=1)][:3], rel_before=rel0[out.any(axis=1)][:3], bound=bound,
              pbc=before['pbc'], vects=v0, origin=o0)
    onface = (np.minimum(np.abs(rel1), np.abs(rel1 - 1)) <= bound).any(axis=1)
    rec.count('wrap:atoms-within-bound-of-a-face-after', int(onface.sum()))

    # (4) the cell: periodic vectors untouched, non-periodic ones only enlarged along themselves
    s, perp, lo, hi = W.cell_change(v0, o0, v1, o1)
    tolv = 2e-9 * np.abs(v1).max()
    rec.check(bool(np.all(np.abs(v1[pbc] - v0[pbc]) <= tolv)) and bool(np.all(np.abs(lo[pbc]) <= tolr)),
              'wrap leaves periodic cell vectors (and the origin along them) unchanged', K + 'periodic-vector-changed',
              pbc=before['pbc'], vects_before=v0, vects_after=v1, origin_shift=lo)
    if (~pbc).any():
        rec.check(bool(np.all(perp[~pbc] <= tolv)), 'non-periodic cell vectors keep their direction', K + 'nonperiodic-direction',
                  pbc=before['pbc'], vects_before=v0, vects_after=v1)
        rec.check(bool(np.all(s[~pbc] >= 1 - 1e-12)) and bool(np.all(lo[~pbc] <= tolr)) and bool(np.all(hi[~pbc] >= 1 - tolr)),
                  'non-periodic directions are only ever enlarged (new cell contains the old one)', K + 'nonperiodic-shrunk',
                  pbc=before['pbc'], scale=s, lo=lo, hi=hi)
        rec.count('wrap:nonperiodic-directions-enlarged', int((s[~pbc] > 1 + 1e-6).sum()))
        rec.count('wrap:nonperiodic-directions-kept', int((s[~pbc] <= 1 + 1e-6).sum()))

    # (5) nothing else changed
    same_properties(rec, before, after, 'wrap changes no per-atom property other than pos, nor pbc/symbols/masses', K + 'other-property-changed')


def install_wrap_monitor(rec, am):
    def pre(args, kwargs):
        return snapshot(args[0])

    def post(args, kwargs, result, exc, old):
        if exc is not None or not isinstance(old, dict):
            return
        want = kwargs.get('return_imageflags', args[1] if len(args) > 1 else False)
        entry = 'normalize>wrap' if STATE['in_normalize'] else 'wrap'
        if not want:
            rec.check(result is None, 'wrap returns nothing unless image flags are asked for', entry + ':return')
        judge_wrap(rec, old, snapshot(args[0]), result if want else None, entry)

    monitor.observe(am.System, 'wrap', post, pre)


# --------------------------------------------------------------------------- box_set

def install_box_set_monitor(rec, am):
    def pre(args, kwargs):
        return snapshot(args[0])

    def post(args, kwargs, result, exc, old):
        if exc is not None or not isinstance(old, dict) or old['natoms'] == 0:
            return
        after = snapshot(args[0])
        if kwargs.get('scale', False) is True:
            L, Lmin, rel0, osc = scales(old)
            rel1 = G.rel(after['pos'], after['vects'], after['origin'])
            osc1 = osc + np.abs(after['origin']).max() / np.linalg.norm(after['vects'], axis=1).min()
            rec.close(1e-9 * osc1, rel1, rel0, 'box_set(scale=True) holds the relative coordinates', 'box_set:scale-true')
            rec.count('monitor:box_set-scale-true')
            if np.abs(old['vects']).max() < 1e-7:
                rec.count('monitor:box_set-scale-true:cell-below-1e-7')
        else:
            rec.check(np.array_equal(after['pos'], old['pos']), 'box_set(scale=False) holds the Cartesian coordinates', 'box_set:scale-false')
            rec.count('monitor:box_set-scale-false')

    monitor.observe(am.System, 'box_set', post, pre)


# --------------------------------------------------------------------------- normalize

def judge_normalize(rec, system, before, new, T, want_T):
    K = 'normalize:'
    rec.count('monitor:normalize')
    if np.abs(before['vects']).max() < 1e-7:
        rec.count('monitor:normalize:cell-below-1e-7')
    if STATE['hist'] is not None:
        rec.count('monitor:normalize:in-history')
    # (a) the input is left as it was, and the result is a separate object
    now = snapshot(system)
    unchanged = (np.array_equal(now['vects'], before['vects']) and np.array_equal(now['origin'], before['origin'])
                 and np.array_equal(now['pos'], before['pos']))
    rec.check(unchanged, 'normalize leaves the input cell and positions as they were', K + 'input-changed',
              vects_before=before['vects'], vects_now=now['vects'], origin_before=before['origin'], origin_now=now['origin'])
    same_properties(rec, before, now, 'normalize leaves the input properties as they were', K + 'input-property-changed')
    separate = (new is not system and new.box is not system.box and new.atoms is not system.atoms
                and not np.shares_memory(new.atoms.view['pos'], system.atoms.view['pos']))
    rec.check(separate, 'normalize returns a new system sharing nothing with its input', K + 'aliases-input')

    if not all(before['pbc']):
        rec.count('normalize:not-fully-periodic-not-judged')
        return
    n = before['natoms']
    after = snapshot(new)
    v0, o0 = before['vects'], before['origin']
    nv, no = after['vects'], after['origin']
    L, Lmin, rel0, osc = scales(before)
    ref_v, ref_o, flipped = W.reference_cell(v0, o0)
    rec.count('normalize:left-handed-input' if flipped else 'normalize:right-handed-input')
    detail = dict(vects=v0, origin=o0, new_vects=nv)

    # (b) right-handed LAMMPS-compatible cell
    rec.check(G.is_lammps_form(nv, 0.0), 'normalized cell is LAMMPS-compatible (a along x, b in xy, positive diagonal)', K + 'lammps-form', **detail)
    rec.check(G.volume(nv) > 0, 'normalized cell is right-handed', K + 'right-handed', **detail)

    # (c) same lengths, angles, volume (of the c-reversed cell for left-handed input)
    a0 = G.lengths_angles(ref_v)
    a1 = G.lengths_angles(nv)
    hk = ':left-handed' if flipped else ''
    rec.close(1e-9 * L, a1[:3], a0[:3], 'normalized cell has the same a, b, c', K + 'lengths' + hk, **detail)
    rec.close(1e-6, a1[3:], a0[3:], 'normalized cell has the same alpha, beta, gamma (c reversed first if left-handed)', K + 'angles' + hk, **detail)
    rec.close(1e-9 * abs(G.volume(v0)), G.volume(nv), abs(G.volume(v0)), 'normalized cell has the same volume', K + 'volume', **detail)

    # (d) the returned transform is a proper rotation taking the (c-reversed) old cell to the new one
    R = W.rotation_between(ref_v, nv)
    rec.check(W.is_proper_rotation(R, 1e-8), 'old (c-reversed if left-handed) and new cell differ by a proper rotation', K + 'cell-not-rotated' + hk, R=R, **detail)
    if want_T:
        Tm = np.asarray(T, float)
        if rec.check(Tm.shape == (3, 3), 'returned transform is 3x3', K + 'transform-shape', shape=Tm.shape):
            rec.check(W.is_proper_rotation(Tm, 1e-8), 'returned transform is a proper rotation', K + 'transform-not-proper' + hk, T=Tm, **detail)
            rec.close(1e-8 * L, ref_v @ Tm.T, nv, 'returned transform maps the (c-reversed if left-handed) old cell vectors onto the new ones',
                      K + 'transform-maps-cell' + hk, T=Tm, **detail)
            rec.count('normalize:transform-checked')
    else:
        rec.check(T is None, 'normalize returns only the system unless the transform is asked for', K + 'return')

    if n == 0:
        return
    # (e) every atom inside
    rel1 = G.rel(after['pos'], nv, no)
    bound = 1e-9 * (osc + (np.abs(no).max() + np.abs(nv).max()) / min(np.linalg.norm(nv, axis=1).min(), G.perp_widths(nv).min()))
    out = (rel1 < -bound) | (rel1 > 1 + bound)
    rec.check(not out.any(), 'every atom is inside the normalized cell', K + 'inside', rel_after=rel1[out.any(axis=1)][:3], bound=bound, **detail)
    rec.count('normalize:atoms', n)
    rec.count('normalize:atoms-started-outside', int(((rel0 < 0) | (rel0 > 1)).any(axis=1).sum()))

    # (f) atoms moved by that rotation plus lattice vectors: separations from atom 0
    if n > 1:
        d_old = before['pos'][1:] - before['pos'][0]
        d_new = after['pos'][1:] - after['pos'][0]
        dev = W.dist_to_int(W.lattice_coeffs(d_new - d_old @ R.T, nv))
        rec.check(bool(np.all(dev <= 1e-8 * osc)), 'atoms are moved by the rotation and whole lattice vectors only', K + 'atoms-not-rotated-lattice' + hk,
                  worst=float(dev.max()), tol=1e-8 * osc, **detail)
        # (g) true nearest-image distances (exhaustive search) unchanged
        ii, jj = W.pair_indices(n, np.random.default_rng(n), 66)
        t_old = W.true_pair_distances(before['pos'], v0, ii, jj)
        t_new = W.true_pair_distances(after['pos'], nv, ii, jj)
        rec.close(1e-9 * L * osc, t_new, t_old, 'true nearest-image pair distances are unchanged by normalize', K + 'pair-distances' + hk, **detail)
        rec.count('normalize:pair-distances-compared', len(ii))
        rec.count('normalize:systems-all-pairs-compared' if n <= 12 else 'normalize:systems-pair-sample-compared')

    # (h) per-atom properties, types, symbols, masses, pbc carried over unchanged
    same_properties(rec, before, after, 'normalize carries every other per-atom property, pbc, symbols and masses over unchanged', K + 'other-property-changed')


def install_normalize_monitor(rec, am):
    import atomman.lammps

    def pre(args, kwargs):
        STATE['in_normalize'] += 1
        return snapshot(args[0] if args else kwargs['system'])

    def post(args, kwargs, result, exc, old):
        STATE['in_normalize'] -= 1
        if exc is not None or not isinstance(old, dict):
            return
        system = args[0] if args else kwargs['system']
        want = bool(kwargs.get('return_transform', args[1] if len(args) > 1 else False))
        if want:
            if not rec.check(isinstance(result, tuple) and len(result) == 2, 'normalize(return_transform=True) returns (system, transform)', 'normalize:return'):
                return
            new, T = result
        else:
            new, T = result, None
            if isinstance(result, tuple):
                rec.fail('normalize returns only the system unless the transform is asked for', 'normalize:return')
                return
        judge_normalize(rec, system, old, new, T, want)

    real = atomman.lammps.normalize
    if not callable(real):          # the sub-module, not the function
        real = real.normalize
    w, n = monitor.observe_function(real, post, pre, label='lammps.normalize')
    rec.count('monitor:normalize-aliases-patched', n)
    return w


# --------------------------------------------------------------------------- workload

def build_system(am, case, cell_style):
    pos = case['pos'].copy()
    pf = case.get('posform', 'float')
    if pf == 'int64':
        pos = pos.astype(np.int64)
    elif pf == 'int32':
        pos = pos.astype(np.int32)
    elif pf == 'intlist':
        pos = [[int(x) for x in row] for row in pos]
    atoms = am.Atoms(atype=case['atype'].copy(), pos=pos, **{k: v.copy() for k, v in case['extras'].items()})
    v, o = case['vects'], case['origin']
    if cell_style == 'vects':
        box = am.Box(vects=v.copy(), origin=o.copy())
    else:
        box = am.Box(avect=v[0].copy(), bvect=v[1].copy(), cvect=v[2].copy(), origin=o.copy())
    return am.System(atoms=atoms, box=box, pbc=case['pbc'], symbols=case['symbols'], masses=case['masses'])


# --------------------------------------------------------------------------- call histories on one System

def current(system):
    """Cell and positions of a System as they are now (plain attribute reads: the reciprocal-vector cache of the Box
    is neither used nor filled)."""
    return np.array(system.box.vects, float), np.array(system.box.origin, float), np.array(system.atoms.view['pos'], float)


def cell_kwargs(v2, o2, style):
    if style == 'vects':
        return dict(vects=v2.copy(), origin=o2.copy())
    if style == 'avect':
        return dict(avect=v2[0].copy(), bvect=v2[1].copy(), cvect=v2[2].copy(), origin=o2.copy())
    a, b, c, al, be, ga = G.lengths_angles(v2)
    return dict(a=a, b=b, c=c, alpha=al, beta=be, gamma=ga, origin=o2.copy())


class History:
    """The steps a history is made of.  Every step that calls wrap / box_set / normalize is judged by the installed
    monitors from its own before/after snapshot; the steps done by the workload itself (moving atoms, changing pbc,
    Box.set behind the System) only prepare the next judged call."""

    def __init__(self, ctx, am, system, i, tag):
        self.ctx, self.am, self.rec, self.system, self.i, self.tag = ctx, am, ctx.rec, system, i, tag
        self.ok = True
        self.nstep = 0
        self.outside = 0

    def _count(self, what):
        self.nstep += 1
        self.rec.count('hist:step-' + what)

    def wrap(self, system=None):
        system = self.system if system is None else system
        done = False
        with self.ctx.guard('wrap accepts any cell, origin, periodicity and atom placement', 'wrap:exception'):
            if (self.i + self.nstep) % 3 == 2:
                system.wrap()
            else:
                system.wrap(return_imageflags=True)
            done = True
        self.ok &= done
        self._count('wrap')

    def read_scaled(self, system=None):
        """Any of the calls that convert Cartesian to relative coordinates on this Box (and so fill its cache)."""
        system = self.system if system is None else system
        how = (self.i // 11 + self.nstep) % 3
        with self.ctx.guard('scaled positions can be read', 'history:read-scaled:exception'):
            if how == 0:
                system.atoms_prop('pos', scale=True)
            elif how == 1:
                system.box.position_cartesian_to_relative(system.atoms.pos)
            else:
                system.box.reciprocal_vects
        self._count('read-scaled')

    def move(self, system=None):
        system = self.system if system is None else system
        v, o, pos = current(system)
        newpos, newrel, out = S.displaced(self.ctx.rng, pos, v, o)
        self.outside += out
        style = S.MOVE_STYLES[(self.i // 2 + self.nstep) % 3]
        with self.ctx.guard('atom positions can be assigned', 'history:move:exception'):
            if style == 'prop-cart':
                system.atoms_prop('pos', value=newpos)
            elif style == 'prop-scaled':
                system.atoms_prop('pos', value=newrel, scale=True)
            else:
                system.atoms.view['pos'][:] = newpos
        self.rec.count('hist:move-' + style)
        self._count('move')

    def set_cell(self, how, scaled, direct=False, system=None):
        system = self.system if system is None else system
        v, o, _ = current(system)
        v2, o2 = S.new_cell(self.ctx.rng, v, o, how)
        style = S.CELL_STYLES[(self.i + self.nstep) % 3]
        if style == 'abc' and (how == 'rehanded' or direct):
            style = 'vects'                      # lengths and angles cannot describe a handedness
        kw = cell_kwargs(v2, o2, style)
        done = False
        with self.ctx.guard('the cell of a System can be replaced', 'history:set-cell:exception'):
            if direct:
                d = (self.i // 11) % 3
                if d == 0 or style == 'abc':
                    system.box.set(**kw)
                elif d == 1:
                    system.box.vects = v2.copy()
                    system.box.origin = o2.copy()
                else:
                    system.box.set_vectors(v2[0].copy(), v2[1].copy(), v2[2].copy(), origin=o2.copy())
                self.rec.count('hist:cell-direct-%d' % d)
            elif scaled:
                system.box_set(scale=True, **kw)
            elif self.nstep % 2:
                system.box_set(scale=False, **kw)
            else:
                system.box_set(**kw)
            done = True
        self.ok &= done
        STATE['hist']['replaced'] = True
        self.rec.count('hist:newcell-' + how)
        self.rec.count('hist:cellstyle-' + style)
        self._count('set-cell-scaled' if scaled else 'set-cell')

    def normalize(self, system=None, want=True):
        system = self.system if system is None else system
        res = None
        hand = 'left-handed' if G.volume(system.box.vects) < 0 else 'right-handed'
        with self.ctx.guard('normalize accepts any fully periodic cell (either handedness), origin and atom placement',
                            'normalize:exception:' + hand):
            if not want:
                res = (system.normalize(), None)
            elif (self.i + self.nstep) % 2:
                res = system.normalize(return_transform=True)
            else:
                res = self.am.lammps.normalize(system, return_transform=True)
        self.ok &= res is not None
        self._count('normalize')
        return res if res is not None else (None, None)


def run_history(ctx, am, i, case, kind, how):
    rec = ctx.rec
    system = None
    with ctx.guard('a System can be built from the generated cell and atoms', 'history:build'):
        system = build_system(am, case, 'vects' if i % 2 else 'avect')
    if system is None:
        return
    STATE['hist'] = dict(kind=kind, replaced=False)
    h = History(ctx, am, system, i, kind)
    try:
        if kind == 'wrap-move-wrap':
            h.wrap()
            h.move()
            h.wrap()
            h.move()
            h.wrap()
        elif kind == 'wrap-newcell-wrap':
            h.wrap()
            h.set_cell(how, scaled=False)
            h.wrap()
        elif kind == 'read-boxset-scaled-wrap':
            h.read_scaled()
            h.set_cell(how, scaled=True)
            h.wrap()
        elif kind == 'strain-loop':
            hows = ['strain-tiny', 'strain-small', 'strain']
            for r in range(3):
                h.set_cell(hows[(i // 11 + r) % 3], scaled=(r + i // 33) % 2 == 0)
                if r != 1:
                    h.move()
                h.wrap()
        elif kind == 'wrap-pbc-wrap':
            h.wrap()
            k0 = S.cells.PBCS.index(tuple(bool(x) for x in system.pbc))
            system.pbc = S.cells.PBCS[(k0 + 1 + (i // 11) % 7) % 8]
            rec.count('hist:pbc-changed')
            h.move()
            h.wrap()
        elif kind == 'read-normalize':
            h.read_scaled()
            h.normalize(want=(i // 11) % 3 != 2)
        elif kind == 'boxset-scaled-normalize':
            h.set_cell(how, scaled=True)
            h.normalize()
        elif kind == 'wrap-normalize-normalize':
            h.wrap()
            new, T = h.normalize()
            if new is not None:
                new2, T2 = h.normalize(new)
                if T2 is not None:
                    rec.close(1e-8, T2, np.eye(3), 'normalizing a normalized system is the identity rotation', 'normalize:renormalize-transform')
                    rec.count('normalize:renormalized')
        elif kind == 'normalize-twice':
            n1, T1 = h.normalize()
            h.read_scaled()
            n2, T2 = h.normalize()
            if n1 is not None and n2 is not None:
                v1, o1, p1 = current(n1)
                v2, o2, p2 = current(n2)
                L = np.linalg.norm(v1, axis=1).max()
                same = (W.same_cell(v2, o2, v1, o1) <= 1e-12 and p1.shape == p2.shape and bool(np.all(np.abs(p1 - p2) <= 1e-12 * L * (1 + np.abs(o1).max() / L)))
                        and bool(np.all(np.abs(np.asarray(T1) - np.asarray(T2)) <= 1e-12)))
                rec.check(same, 'the input is left as it was: normalizing it a second time gives the same result', 'normalize:second-result-differs',
                          vects=case['vects'], origin=case['origin'], vects1=v1, vects2=v2)
                rec.count('hist:normalize-twice-compared')
        elif kind == 'normalize-output-reused':
            new, T = h.normalize()
            if new is not None:
                h.move(new)
                h.wrap(new)
                h.set_cell(how, scaled=True, system=new)
                h.wrap(new)
                h.normalize(new)
        elif kind == 'box-set-direct-wrap':
            h.read_scaled()
            h.set_cell(how, scaled=False, direct=True)
            h.wrap()
        else:
            raise ValueError(kind)
    finally:
        STATE['hist'] = None
    if h.ok:
        rec.count('hist:completed-' + kind)
    return h


def class_sig(c):
    return (c['kind'], c['hand'], c['origin'], c['scale'], ''.join('1' if p else '0' for p in c['pbc']), c['natoms'], c['profile'])


def run(ctx):
    import atomman as am
    rec = ctx.rec
    STATE['rec'] = rec
    cover.start([SYSTEM_PY, NORMALIZE_PY])
    install_wrap_monitor(rec, am)
    install_box_set_monitor(rec, am)
    install_normalize_monitor(rec, am)

    # ---- wrap: all 8 periodicity settings
    for i in ctx.cases('wrap', ctx.pick(800, 14400)):
        rng = ctx.rng
        case = S.gen_system(rng, i)
        c = case['classes']
        rel = case['rel']
        outside = bool(((rel <= 0) | (rel >= 1)).any())
        rec.case(('wrap',) + class_sig(c), nontrivial=outside, fp=fingerprint(case['vects'], case['origin'], list(case['pbc']), case['pos']))
        if i < 24:
            rec.sample(dict(classes=c, vects=case['vects'], origin=case['origin'], rel=rel[:4], tags=case['tags'][:4]))
        rec.count('wrap:pbc-' + ''.join('1' if p else '0' for p in c['pbc']))
        rec.count('wrap:posform-' + case['posform'])
        rec.count('wrap:hand-' + ('left' if c['hand'] != 'right' else 'right'))
        rec.count('wrap:kind-' + c['kind'])
        rec.count('wrap:scale-' + S.scale_name(c['scale']))
        for t in set(case['tags']):
            rec.count('wrap:cases-with-' + t + '-atoms')
        nonper = ~np.array(c['pbc'], bool)
        if nonper.any() and ((rel[:, nonper] <= 0) | (rel[:, nonper] >= 1)).any():
            rec.count('wrap:cases-needing-enlargement')
        system = None
        with ctx.guard('a System can be built from the generated cell and atoms', 'wrap:build'):
            system = build_system(am, case, 'vects' if i % 2 else 'avect')
        if system is None:
            continue
        with ctx.guard('wrap accepts any cell, origin, periodicity and atom placement', 'wrap:exception'):
            if i % 4 == 3:
                system.wrap()
            else:
                system.wrap(return_imageflags=True)
            if i % 16 == 5:                      # wrap again: atoms now inside, cell already enlarged
                system.wrap(return_imageflags=True)
                rec.count('wrap:second-wrap')

    # ---- normalize: fully periodic systems
    for i in ctx.cases('normalize', ctx.pick(640, 10080)):
        rng = ctx.rng
        case = S.gen_system(rng, i, periodic_only=True, max_atoms=40)
        c = case['classes']
        rel = case['rel']
        outside = bool(((rel <= 0) | (rel >= 1)).any())
        rec.case(('normalize',) + class_sig(c), nontrivial=outside or not case['lammps'],
                 fp=fingerprint(case['vects'], case['origin'], case['pos']))
        if i < 24:
            rec.sample(dict(classes=c, vects=case['vects'], origin=case['origin'], rel=rel[:4], tags=case['tags'][:4]))
        rec.count('normalize:hand-' + c['hand'])
        rec.count('normalize:kind-' + c['kind'])
        rec.count('normalize:scale-' + S.scale_name(c['scale']))
        if c['scale'] <= S.TINY and (c['hand'] != 'right' or not case['lammps']):
            rec.count('normalize:tiny-cell-not-in-lammps-form')
        for t in set(case['tags']):
            rec.count('normalize:cases-with-' + t + '-atoms')
        system = None
        with ctx.guard('a System can be built from the generated cell and atoms', 'normalize:build'):
            system = build_system(am, case, 'vects' if i % 2 else 'avect')
        if system is None:
            continue
        how = (i // 9) % 3
        res = None
        with ctx.guard('normalize accepts any fully periodic cell (either handedness), origin and atom placement', 'normalize:exception:' + ('left-handed' if c['hand'] != 'right' else 'right-handed')):
            if how == 0:
                res = system.normalize(return_transform=True)
            elif how == 1:
                res = am.lammps.normalize(system, return_transform=True)
            else:
                res = system.normalize()
            rec.count('normalize:call-style-%d' % how)
        if res is not None and i % 8 == 3:       # normalising a normalised system: identity rotation, atoms already inside
            new = res[0] if isinstance(res, tuple) else res
            with ctx.guard('normalize accepts its own output', 'normalize:exception:renormalize'):
                new2, T2 = new.normalize(return_transform=True)
                rec.close(1e-8, T2, np.eye(3), 'normalizing a normalized system is the identity rotation', 'normalize:renormalize-transform')
                rec.count('normalize:renormalized')

    # ---- histories: several calls on one System / Box, at every length scale
    for i in ctx.cases('hist', ctx.pick(572, 8580)):
        rng = ctx.rng
        kind = S.HISTORIES[i % 11]
        scale = S.SCALES13[(i // 11) % 13]
        how = S.NEWCELLS[(i // 3) % 7]
        case = S.gen_system(rng, i, periodic_only=kind in S.PERIODIC_HISTORIES, max_atoms=24, scale=scale)
        c = case['classes']
        sname = S.scale_name(scale)
        rec.case(('hist', kind, how) + class_sig(c), nontrivial=True, fp=fingerprint(kind, how, case['vects'], case['origin'], list(case['pbc']), case['pos']))
        if i < 22:
            rec.sample(dict(history=kind, newcell=how, classes=c, vects=case['vects'], origin=case['origin'], rel=case['rel'][:3]))
        rec.count('hist:kind-' + kind)
        rec.count('hist:scale-' + sname)
        if scale <= S.TINY:
            rec.count('hist:tiny-' + kind)
        rec.count('hist:hand-' + ('left' if c['hand'] != 'right' else 'right'))
        run_history(ctx, am, i, case, kind, how)

    # ---- real working units: the cell is what unitconvert makes of an angstrom-sized crystal
    import atomman.unitconvert as uc
    UNITS = [('m', 1e-10), ('cm', 1e-8), ('nm', 0.1), ('mm', 1e-7), ('um', 1e-4), ('pm', 100.0), ('angstrom', 1.0), ('fm', 1e5)]
    for i in ctx.cases('units', ctx.pick(96, 960)):
        rng = ctx.rng
        unit, expect = UNITS[i % 8]
        kind = ['read-normalize', 'read-boxset-scaled-wrap', 'wrap-normalize-normalize', 'wrap-newcell-wrap', 'normalize-output-reused'][(i // 8) % 5]
        how = S.NEWCELLS[(i // 3) % 7]
        try:
            uc.reset_units(length=unit, mass='amu', energy='eV', charge='e')
            scale = float(uc.set_in_units(1.0, 'angstrom'))
            rec.check(abs(scale / expect - 1) < 1e-9, 'one angstrom in working units is what the unit table says (workload sanity)', 'units:scale', unit=unit, scale=scale)
            case = S.gen_system(rng, 5 * i + 3, periodic_only=kind in S.PERIODIC_HISTORIES, max_atoms=24, scale=scale)
            c = case['classes']
            rec.case(('units', unit, kind) + class_sig(c)[:3], nontrivial=True, fp=fingerprint(unit, kind, case['vects'], case['origin'], case['pos']))
            rec.count('units:' + unit)
            run_history(ctx, am, i, case, kind, how)
        finally:
            uc.reset_units(length='angstrom', mass='amu', energy='eV', charge='e')
    back = float(uc.set_in_units(1.0, 'angstrom'))
    rec.check(back == 1.0, 'working units restored after the units group (workload sanity)', 'units:restored', scale=back)

    # ---- reach and floors
    for k, v_ in monitor.calls.items():
        if isinstance(v_, int):
            rec.count('monitor_calls:' + k, v_)
    errors = [k for k in monitor.calls if k.endswith(('post_error', 'pre_error'))]
    if errors:          # a monitor that crashed decided nothing: never report 'held' on top of that
        raise RuntimeError('monitor error(s): %r %s' % (errors, monitor.calls.get('_post_tracebacks')))
    for name, got, need in reach_counts(am):
        rec.count('reach:' + name, got)
        rec.floor('reach:' + name, need)             # every anchored statement is executed

    rec.floor('monitor:wrap', 400)
    rec.floor('monitor:normalize>wrap', 300)
    rec.floor('monitor:normalize', 300)
    rec.floor('monitor:box_set-scale-true', 300)
    rec.floor('monitor:box_set-scale-false', 400)
    rec.floor('wrap:flags-checked', 300)
    rec.floor('wrap:atoms-moved', 1000)
    rec.floor('wrap:atoms-moved-by-10-cells-or-more', 200)
    rec.floor('wrap:nonperiodic-directions-enlarged', 200)
    rec.floor('wrap:nonperiodic-directions-kept', 50)
    rec.floor('wrap:cases-with-face-atoms', 100)
    rec.floor('wrap:cases-with-farface-atoms', 100)
    rec.floor('wrap:cases-with-hairline-atoms', 50)
    rec.floor('wrap:cases-with-far-atoms', 100)
    rec.floor('wrap:hand-left', 200)
    for pf in ('int64', 'int32', 'intlist'):
        rec.floor('wrap:posform-' + pf, 10)
    rec.floor('wrap:kind-tilted', 50)
    rec.floor('wrap:kind-rotated', 50)
    for p in S.cells.PBCS:
        rec.floor('wrap:pbc-' + ''.join('1' if x else '0' for x in p), 50)
    rec.floor('normalize:left-handed-input', 150)
    rec.floor('normalize:right-handed-input', 150)
    for h in ('left-c', 'left-swap', 'left-mirror'):
        rec.floor('normalize:hand-' + h, 50)
    rec.floor('normalize:kind-tilted', 40)
    rec.floor('normalize:kind-rotated', 40)
    rec.floor('normalize:transform-checked', 200)
    rec.floor('normalize:pair-distances-compared', 3000)
    rec.floor('normalize:systems-all-pairs-compared', 100)
    rec.floor('normalize:atoms-started-outside', 1000)
    rec.floor('normalize:cases-with-face-atoms', 80)
    rec.floor('normalize:cases-with-far-atoms', 80)
    rec.floor('normalize:renormalized', 40)

    # length scales and call histories
    for sc in sorted(set(S.SCALES13)):
        nm = S.scale_name(sc)
        rec.floor('wrap:scale-' + nm, 40)
        rec.floor('normalize:scale-' + nm, 30)
        rec.floor('hist:scale-' + nm, 30)
    rec.floor('normalize:tiny-cell-not-in-lammps-form', 60)
    rec.floor('monitor:wrap:cell-below-1e-7', 200)
    rec.floor('monitor:normalize>wrap:cell-below-1e-7', 150)
    rec.floor('monitor:normalize:cell-below-1e-7', 150)
    rec.floor('monitor:box_set-scale-true:cell-below-1e-7', 150)
    for k in S.HISTORIES:
        rec.floor('hist:kind-' + k, 40)
        rec.floor('hist:completed-' + k, 40)
        rec.floor('hist:tiny-' + k, 12)
    for hw in S.NEWCELLS:
        rec.floor('hist:newcell-' + hw, 30)
    for st in S.CELL_STYLES:
        rec.floor('hist:cellstyle-' + st, 40)
    for st in S.MOVE_STYLES:
        rec.floor('hist:move-' + st, 40)
    for d in range(3):
        rec.floor('hist:cell-direct-%d' % d, 10)
    rec.floor('monitor:wrap:in-history', 400)
    rec.floor('monitor:wrap:after-cell-replaced', 200)
    rec.floor('monitor:normalize>wrap:after-cell-replaced', 60)
    rec.floor('monitor:normalize:in-history', 250)
    rec.floor('hist:step-move', 250)
    rec.floor('hist:step-read-scaled', 150)
    rec.floor('hist:step-set-cell-scaled', 150)
    rec.floor('hist:step-set-cell', 100)
    rec.floor('hist:pbc-changed', 40)
    rec.floor('hist:normalize-twice-compared', 40)
    rec.floor('hist:hand-left', 150)
    for u in ('m', 'cm', 'nm', 'mm', 'um', 'pm', 'angstrom', 'fm'):
        rec.floor('units:' + u, 10)
