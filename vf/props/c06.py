"""C06 - Per-atom data stays rectangular, row-aligned and unaliased under any edit sequence.

History + executable model: every generated operation is applied to the real
Atoms / System objects and to the record-per-atom model (vf/oracle/c06_model.py),
then ALL invariants of ALL live objects are compared.  The replayable unit is
the op list (put into every violation detail).
"""
from __future__ import annotations

import copy
import dis
import inspect

import numpy as np

from ..core import fingerprint
from ..gen import cells
from ..gen import c06_ops as O
from ..oracle import c06_model as M
from .. import cover

RULE = ('history i: natoms class (1,2,3,4-6,7-9), initial property sets (6 schemas over 9 names of dtypes int/float/bool/str and '
        'per-atom shapes (),(3,),(3,3)), constructor variant, cell kind and System options rotate with i; the first operation is '
        'KINDS[i % 20], the remaining kinds and all index / value / property-set classes come from a generator seeded by i only '
        '(same class structure for every seed); numbers come from the seeded case generator.  A history is non-trivial when it '
        'ran >= 8 operations of which >= 3 changed stored state; distinct = distinct fingerprint of the op list.  '
        'Group defaults (round 4): case i builds a System by SYSTEM_PATHS[i % 9] and an Atoms by ATOMS_PATHS[i % 11] that leave atype and/or '
        'pos (and box, pbc, symbols, masses) to the constructor defaults (natoms 1,2,1,3,5 by i % 5), plus untouched witnesses built the '
        'same way; 3 forced in-place edits EDIT_FORMS[...] (19 forms: attribute / view / prop / indexed / raw numpy / per-type / Atoms '
        'assignment / System-level, of pos and atype) and 7 further operations follow, all live objects and the witnesses are re-judged '
        'after every step, and afterwards objects built from the defaults again (constructors, extend / atoms_extend by count, deepcopy, '
        'indexing) are judged.  Group arguments: 9 classes of a caller keeping, overwriting and reusing the objects it handed in '
        '(safecopy constructors, prop / atoms_prop / view sets, lists and prop= dictionary given twice) x natoms 1,2,3,5.  Values are '
        'handed over as ndarray, list, tuple, python scalar or float32 / int32 / int16 / int8 arrays (one draw per value).')
ASSUMPTIONS = [
    'a property name keeps one dtype kind and per-atom shape within a history (extend/assign between objects with the same name but '
    'different per-atom shapes is outside the domain)',
    'values assigned to an existing property are castable to its stored dtype (numeric<->numeric/bool, str->str); the cast itself '
    '(truncation, str width) is numpy behaviour and documented as designed',
    'whether atoms[index] / atoms_ix[index] share storage with their parent is documented nowhere: the harness observes it per '
    'property (np.shares_memory) and the model follows; only prop()/atoms_prop()/df()/deepcopy/extend results are required not to alias',
    'symbols/masses None-padding is lazy and persistent; the harness reads symbols, natypes, masses after every step in that order',
    'atype written through prop(key,index,value) is always >= 1 (raw numpy write the class cannot intercept)',
    'empty selections are generated for Atoms-level reads only (an empty System is unsupported: natypes of zero atoms is undefined)',
    'float values are compared with |d| <= 1e-9*(1+|expected|) (only the scale=True operations compute anything); all else exactly',
    'an integer index is in range; scalar-into-vector-property and a 1-atom Atoms assigned to several atoms may be refused or '
    'broadcast (both accepted, state must match whichever happened)',
    'direct setting is documented: a NEW property assigned through the attribute / view (and constructor keywords without safecopy) may '
    'store the very array handed in, so those arrays are not overwritten by the harness; everything else handed in (values for existing '
    'properties, prop(key, value=), atoms_prop(key, value=), indexed writes, per-type values, assigned Atoms, safecopy=True constructors) '
    'is overwritten afterwards and must not reach storage',
    'arrays handed out by the copying accessors are overwritten by the harness and kept (last 8): no later operation may change them',
    'pos is a float property whatever is handed to the constructor (documented: list/ndarray of float)',
    'pickling of Atoms is outside the statement (Atoms cannot be pickled at all: PropertyDict.__init__ needs its host)',
]
CONFIG = {'quick': {'shards': 8, 'seeds': 1}, 'thorough': {'shards': 16, 'seeds': 3}}

MAXPOOL = 6
KEEP = 8
READONLY = ('prop_get', 'prop_get_atoms', 'extend_int', 'extend_atoms', 'atoms_extend', 'getitem', 'deepcopy', 'df', 'atoms_prop_get')


class Ent:
    def __init__(self, typ, real, model, name):
        self.typ, self.real, self.model, self.name = typ, real, model, name

    @property
    def atoms(self):
        return self.real.atoms if self.typ == 'system' else self.real

    @property
    def matoms(self):
        return self.model.atoms if self.typ == 'system' else self.model


class Diverged(Exception):
    """Real object and model can no longer be compared (violation already recorded)."""


# ---------------------------------------------------------------------------
# comparison of a real object with its model
# ---------------------------------------------------------------------------
def same_values(got, exp):
    got = np.asarray(got)
    exp = np.asarray(exp)
    if got.shape != exp.shape:
        return False
    if exp.size == 0:
        return True
    if exp.dtype.kind == 'f' or got.dtype.kind == 'f':
        try:
            g = got.astype(float)
            e = exp.astype(float)
        except (TypeError, ValueError):
            return False
        return bool(np.all(np.abs(g - e) <= 1e-9 * (1 + np.abs(e))))
    if exp.dtype.kind == 'U' or got.dtype.kind in 'UOT':
        return [str(x) for x in got.ravel().tolist()] == [str(x) for x in exp.ravel().tolist()]
    return bool(np.array_equal(got, exp))


class Checker:
    def __init__(self, rec, am):
        self.rec, self.am = rec, am
        self.ops = []

    def key(self, label, role, clause):
        return f'{label}:{clause}' if role != 'bystander' else f'{label}:bystander-{clause}'

    def atoms(self, a, m, label, role, special=None):
        rec, ops = self.rec, self.ops
        K0 = lambda c: self.key(label, role, c)
        view = a.view
        keys = list(view.keys())
        ok = rec.check(keys == m.keys and a.prop() == m.keys, 'the property names (and their order) are those of the model', K0('keys'),
                       got=keys, expected=m.keys, role=role, ops=ops)
        rec.check(a.natoms == m.natoms and len(a) == m.natoms, 'natoms equals the model', K0('natoms'), got=a.natoms, expected=m.natoms, ops=ops)
        for k in keys:
            arr = view[k]
            K = (lambda c, _l=special[k]: self.key(_l, role, c)) if special and k in special else K0
            if not rec.check(isinstance(arr, np.ndarray) and arr.ndim >= 1 and arr.shape[0] == a.natoms,
                             'every stored array has leading length natoms', K('rect'), prop=k, shape=getattr(arr, 'shape', None),
                             natoms=a.natoms, role=role, ops=ops):
                continue
            try:
                mirrored = getattr(a, k) is arr
            except Exception:
                mirrored = False
            rec.check(mirrored, 'atoms.<p> is atoms.view[p] (attribute mirror)', K('mirror'), prop=k, role=role, ops=ops)
            if k not in m.keys:
                continue
            rec.check(tuple(arr.shape[1:]) == m.shapes[k], 'per-atom shape equals the model', K('shape'), prop=k, got=arr.shape[1:],
                      expected=m.shapes[k], role=role, ops=ops)
            kc_ok = M.kindclass(arr.dtype) == M.kindclass(m.dtypes[k]) and (arr.dtype.kind != 'U' or arr.dtype == m.dtypes[k])
            rec.check(kc_ok, 'dtype kind (and string width) equals the model', K('dtype'), prop=k, got=str(arr.dtype),
                      expected=str(m.dtypes[k]), role=role, ops=ops)
            if tuple(arr.shape[1:]) == m.shapes[k] and arr.shape[0] == m.natoms:
                exp = m.column(k)
                rec.check(same_values(arr, exp), 'all stored values equal the record-per-atom model', K('values'), prop=k, got=arr,
                          expected=exp, role=role, ops=ops)
        if a.natoms > 0 and 'atype' in view and ok:
            at = view['atype']
            rec.check(at.shape[0] == 0 or np.min(at) >= 1, 'atype >= 1', K0('atype>=1'), got=at, role=role, ops=ops)
            with_guard = None
            try:
                with_guard = a.natypes
            except Exception as e:            # noqa
                rec.fail('natypes can be read', K0('natypes'), exception=e, ops=ops)
            if with_guard is not None:
                rec.check(with_guard == m.natypes() and a.atypes == tuple(range(1, m.natypes() + 1)), 'natypes / atypes equal the model',
                          K0('natypes'), got=with_guard, expected=m.natypes(), ops=ops)

    def system(self, s, ms, label, role, special=None):
        rec, ops = self.rec, self.ops
        K = lambda c: self.key(label, role, c)
        self.atoms(s.atoms, ms.atoms, label, role, special)
        try:
            sym = s.symbols
            nt = s.natypes
            mas = s.masses
            pbc = s.pbc
        except Exception as e:
            rec.fail('symbols / natypes / masses / pbc can be read', K('system-read'), exception=e, ops=ops)
            return
        nta = ms.atoms.natypes()
        rec.check(isinstance(sym, tuple) and len(sym) >= nta, 'len(symbols) >= number of atom types', K('symbols-len'),
                  got=sym, natypes=nta, role=role, ops=ops)
        rec.check(isinstance(mas, tuple) and len(mas) >= nta, 'len(masses) >= number of atom types', K('masses-len'),
                  got=mas, natypes=nta, role=role, ops=ops)
        esym, ent_, emas = ms.symbols(), ms.natypes(), ms.masses()
        rec.check(tuple(sym) == esym, 'symbols equal the model (given values, None padding)', K('symbols'), got=sym, expected=esym,
                  role=role, ops=ops)
        rec.check(nt == ent_ and s.atypes == tuple(range(1, ent_ + 1)), 'System.natypes = max(len(symbols), largest atype)', K('natypes'),
                  got=nt, expected=ent_, role=role, ops=ops)
        okm = len(mas) == len(emas) and all((x is None and y is None) or (x is not None and y is not None and isinstance(x, float) and x == y)
                                            for x, y in zip(mas, emas))
        rec.check(okm, 'masses equal the model (floats, None padding)', K('masses'), got=mas, expected=emas, role=role, ops=ops)
        rec.check(isinstance(pbc, np.ndarray) and pbc.dtype == bool and tuple(bool(x) for x in pbc) == ms.pbc,
                  'pbc equals the model', K('pbc'), got=pbc, expected=ms.pbc, role=role, ops=ops)
        rec.check(s.natoms == ms.atoms.natoms and len(s) == ms.atoms.natoms, 'System.natoms equals the model', K('natoms'), ops=ops)

    def ent(self, e, label, role, special=None):
        if e.typ == 'system':
            self.system(e.real, e.model, label, role, special)
        else:
            self.atoms(e.real, e.model, label, role, special)


def arrays_of(obj):
    """Stored arrays of an Atoms or System."""
    a = obj.atoms if hasattr(obj, 'atoms_ix') else obj
    return list(a.view.values())


def shares(x, arrs):
    if not isinstance(x, np.ndarray) or x.size == 0:
        return False
    for arr in arrs:
        if arr.size and np.may_share_memory(x, arr) and np.shares_memory(x, arr):
            return True
    return False


def scribble(x):
    """Overwrite a handed-out array with different values (must not reach storage)."""
    if not isinstance(x, np.ndarray) or x.size == 0 or not x.flags.writeable:
        return False
    k = x.dtype.kind
    try:
        if k in 'iuf':
            x[...] = x + 7
        elif k == 'b':
            x[...] = ~x
        elif k == 'U':
            x[...] = 'Q'
        else:
            return False
    except Exception:
        return False
    return True


def snap_atoms(a):
    return [(k, str(v.dtype), v.shape, v.copy()) for k, v in a.view.items()]


def snap(obj):
    if hasattr(obj, 'atoms_ix'):
        return ('system', snap_atoms(obj.atoms), tuple(obj.symbols), tuple(obj.masses), tuple(bool(x) for x in obj.pbc),
                obj.box.vects.copy(), obj.box.origin.copy())
    return ('atoms', snap_atoms(obj))


def snap_equal(s1, s2):
    if s1[0] != s2[0]:
        return False
    a1, a2 = s1[1], s2[1]
    if len(a1) != len(a2):
        return False
    for (k1, d1, sh1, v1), (k2, d2, sh2, v2) in zip(a1, a2):
        if k1 != k2 or d1 != d2 or sh1 != sh2:
            return False
        if not (np.array_equal(v1, v2) if v1.dtype.kind != 'f' else np.array_equal(v1, v2, equal_nan=True)):
            return False
    if s1[0] == 'system':
        if s1[2:5] != s2[2:5]:
            return False
        if not (np.array_equal(s1[5], s2[5]) and np.array_equal(s1[6], s2[6])):
            return False
    return True


def fresh(v):
    """An independent copy of an op value for the real call."""
    if isinstance(v, np.ndarray):
        return v.copy()
    return copy.deepcopy(v)


def build_atoms(am, spec, **kw):
    d = {k: fresh(v) for k, v in spec.items()}
    return am.Atoms(atype=d.pop('atype'), pos=d.pop('pos'), **d, **kw)


def build_matoms(spec):
    n = len(spec['atype'])
    return M.MAtoms.build(n, **spec)


# ---------------------------------------------------------------------------
# the interpreter: one op on the real objects and on the model
# ---------------------------------------------------------------------------
class Runner:
    def __init__(self, ctx, am, chk):
        self.ctx, self.rec, self.am, self.chk = ctx, ctx.rec, am, chk
        self.pool = []
        self.extra = []          # further live objects (default-built witnesses) whose storage nothing handed out may share
        self.kept = []           # arrays handed out by copying accessors: (array, its values when last seen, label)
        self.changed = 0

    # -- real/model reconciliation ------------------------------------------
    def both(self, label, real_call, model_call, may=False, inplace=True):
        """Returns ('ok', real result, model result) | ('refused', None, None).
        Raises Diverged when real and model disagree about success (violation recorded)."""
        rec, ops = self.rec, self.chk.ops
        exc = res = None
        try:
            res = real_call()
        except Exception as e:        # noqa: the real code refused or failed
            exc = e
        if exc is not None and may:
            rec.count('may-refuse:refused')
            rec.refusal(f'{label}:may:{type(exc).__name__}')
            self.phase = 'refused'
            return 'refused', None, None
        ref = mres = None
        try:
            mres = model_call()
        except M.Refused as r:
            ref = r
        if exc is None and ref is None:
            if may:
                rec.count('may-refuse:performed')
            rec.count('agree:performed')
            return 'ok', res, mres
        if exc is not None and ref is not None:
            rec.count('agree:refused')
            rec.count('refused:' + ref.kind)
            rec.refusal(f'{label}:{ref.kind}:{type(exc).__name__}')
            self.phase = 'refused'
            return 'refused', None, None
        if exc is None:
            rec.fail('an operation the documentation refuses must raise', f'{label}:not-refused', refusal=ref.kind, ops=ops)
        else:
            import traceback
            tb = ''.join(traceback.format_exception(type(exc), exc, exc.__traceback__)[-2:])[-800:]
            rec.fail('an in-domain operation must not raise', f'{label}:exception', exception=exc, where=tb, ops=ops)
        raise Diverged()

    def stored(self):
        return [arr for e in self.pool + self.extra for arr in arrays_of(e.real)]

    def noalias(self, x, label, what, extra=()):
        arrs = self.stored() + list(extra)
        xs = list(x.view.values()) if hasattr(x, 'prop_atype') else [x]
        bad = [i for i, y in enumerate(xs) if shares(y, arrs)]
        self.rec.check(not bad, f'{what} does not share memory with any stored array', f'{label}:alias', ops=self.chk.ops)
        n = 0
        for y in xs:
            if scribble(y):
                n += 1
                self.kept.append((y, y.copy(), label))
        del self.kept[:-KEEP]
        self.rec.count('scribbled-results', n)

    def check_kept(self):
        """Arrays handed out earlier belong to the caller: no later operation may change them."""
        bad = sorted({lab for y, was, lab in self.kept if not np.array_equal(y, was)})
        self.rec.count('kept-results-rejudged', len(self.kept))
        for lab in bad:
            self.rec.fail('an array handed out by a copying accessor is not changed by later operations', f'{lab}:result-overwritten',
                          ops=self.chk.ops)
        if bad:
            self.kept = [(y, y.copy(), lab) for y, was, lab in self.kept]

    def argument(self, val, label, allowed=False):
        """The caller goes on using (and overwriting) the array it handed in: storage must not follow."""
        vals = list(val.view.values()) if hasattr(val, 'prop_atype') else [val]
        vals = [v for v in vals if isinstance(v, np.ndarray) and v.ndim >= 1 and v.size]
        if not vals:
            return
        if allowed:                       # documented direct setting of a new key: the array may be the storage itself
            self.rec.count('arguments-direct-setting-allowed')
            return
        bad = [i for i, v in enumerate(vals) if shares(v, self.stored())]
        self.rec.check(not bad, 'the stored values do not share memory with the value handed in', f'{label}:argument-alias', ops=self.chk.ops)
        n = 0
        for v in vals:
            n += bool(scribble(v))
        self.rec.count('scribbled-arguments', n)

    def add(self, ent):
        self.pool.append(ent)
        if len(self.pool) > MAXPOOL:
            del self.pool[2]

    # -- one step ---------------------------------------------------------------
    def step(self, op):
        """Apply op. Returns (label, [new entries], [(real operand, model operand, check?)])."""
        am, rec, pool = self.am, self.rec, self.pool
        e = pool[op['slot']]
        a, ma = e.atoms, e.matoms
        kind = op['op']
        self.phase = 'performed'
        new = []

        if kind in ('set', 'atype_set'):
            via, key = op['via'], op['key']
            label = {'attr': 'attr_set', 'view': 'view_set', 'prop': 'prop_set'}[via] + ('(atype)' if kind == 'atype_set' else '')
            val = fresh(op['value'])

            def real():
                if via == 'attr':
                    setattr(a, key, val)
                elif via == 'view':
                    a.view[key] = val
                else:
                    a.prop(key=key, value=val)
            existed = key in ma.keys
            st, _, _ = self.both(label, real, lambda: ma.set(key, op['value']), may=op.get('may_refuse', False))
            rec.count(f'class:{kind}:{op["cls"]}')
            rec.count('class:given:' + O.given_class(op['value']))
            if st == 'ok':
                self.changed += 1
                self.argument(val, label, allowed=not existed and via != 'prop')
            return label, new

        if kind == 'prop_get':
            label = 'prop_get'
            key, index = op['key'], op['index']
            if op['icls'] == 'a_id':
                st, got, exp = self.both(label, lambda: a.prop(key=key, a_id=index), lambda: ma.get(key, index))
            else:
                st, got, exp = self.both(label, lambda: a.prop(key=key, index=index), lambda: ma.get(key, index))
            rec.check(same_values(got, exp) and M.kindclass(np.asarray(got).dtype) == M.kindclass(exp.dtype),
                      'prop(key[, index]) returns the model values', f'{label}:values', got=got, expected=exp, ops=self.chk.ops)
            self.noalias(got, label, 'the array returned by prop(key[, index])')
            # the caller has overwritten what it was handed; the same read again gives the stored values (and leaves the first result alone)
            again = a.prop(key=key, a_id=index) if op['icls'] == 'a_id' else a.prop(key=key, index=index)
            rec.check(same_values(again, exp), 'the same read repeated returns the same values', f'{label}:repeat', got=again, expected=exp,
                      ops=self.chk.ops)
            rec.count('repeated-reads')
            rec.count(f'class:index:{op["icls"]}')
            return label, new

        if kind == 'prop_get_atoms':
            label = 'prop(index)'
            index = op['index']
            if op['icls'] == 'a_id':
                st, got, exp = self.both(label, lambda: a.prop(a_id=index), lambda: ma.subset(index))
            else:
                st, got, exp = self.both(label, lambda: a.prop(index=index), lambda: ma.subset(index))
            self.chk.atoms(got, exp, label, 'result')
            self.noalias(got, label, 'the Atoms returned by prop(index=...)')
            rec.count(f'class:index:{op["icls"]}')
            return label, new

        if kind in ('prop_write', 'raw_write'):
            label = kind
            key, index = op['key'], op['index']
            val = fresh(op['value'])
            if kind == 'raw_write':               # atoms.<p>[index] = value: numpy write through the mirrored attribute

                def real():
                    getattr(a, key)[index] = val
            else:
                real = lambda: a.prop(key=key, index=index, value=val)
            st, _, _ = self.both(label, real, lambda: ma.write(key, index, op['value']))
            rec.count(f'class:index:{op["icls"]}')
            rec.count(f'class:{kind}:{op["vcls"]}')
            rec.count('class:given:' + O.given_class(op['value']))
            self.changed += 1
            if st == 'ok':
                self.argument(val, label)
            return label, new

        if kind == 'assign':
            via, index = op['via'], op['index']
            label = {'setitem': 'setitem', 'prop': 'prop(index,Atoms)', 'atoms_ix': 'atoms_ix_set', 'atoms_ix_system': 'atoms_ix_set(System)',
                     'atoms_prop': 'atoms_prop(index,Atoms)', 'atoms_prop_scale': 'atoms_prop(index,Atoms,scale)'}[via]
            o = build_atoms(am, op['operand'])
            mo = build_matoms(op['operand'])
            s = e.real

            def real():
                if op['scls'] == 'bad-type':
                    s.atoms_ix[index] = 5
                elif via == 'setitem':
                    a[index] = o
                elif via == 'prop':
                    a.prop(index=index, value=o)
                elif via == 'atoms_ix':
                    s.atoms_ix[index] = o
                elif via == 'atoms_ix_system':
                    s.atoms_ix[index] = am.System(atoms=o, box=s.box)
                elif via == 'atoms_prop':
                    s.atoms_prop(index=index, value=o)
                else:
                    s.atoms_prop(index=index, value=o, scale=True)

            def model():
                if op['scls'] == 'bad-type':
                    raise M.Refused('bad-type')
                src = mo
                if via == 'atoms_prop_scale':
                    src = mo.copy()
                    src.set('pos', e.model.cart(mo.column('pos')))
                ma.assign(slice(None) if index is None else index, src)
            st, _, _ = self.both(label, real, model, may=op.get('may_refuse', False))
            if via != 'atoms_prop_scale':
                self.chk.atoms(o, mo, label, 'operand')
            if st == 'ok':
                self.argument(o, label)
            rec.count(f'class:assign:{op["ncls"]}:{op["scls"]}')
            rec.count(f'class:index:{op["icls"]}')
            if st == 'ok':
                self.changed += 1
            return label, new

        if kind in ('prop_atype', 'prop_atype_k'):
            key = op['key']
            val = fresh(op['value'])
            if kind == 'prop_atype':
                label = 'prop_atype'
                st, _, _ = self.both(label, lambda: a.prop_atype(key, val), lambda: ma.prop_atype(key, op['value']))
            else:
                label = 'prop_atype(atype)'
                k_ = op['atype']
                st, _, _ = self.both(label, lambda: a.prop_atype(key, val, atype=k_), lambda: ma.prop_atype(key, op['value'], atype=k_))
                if op['cls'] == 'new-vector' and ma.natoms == 3:
                    rec.count('class:prop_atype(atype):new-vector:natoms=3')
            rec.count(f'class:{kind}:{op["cls"]}')
            rec.count('class:given:' + O.given_class(op['value']))
            if st == 'ok':
                self.changed += 1
                self.argument(val, label)
            return label, new

        if kind == 'extend_int':
            label = 'extend(int)'
            n = np.int64(op['n']) if op['np_int'] else op['n']
            before = snap(a)
            st, r, mr = self.both(label, lambda: a.extend(n), lambda: ma.extend(op['n']), inplace=False)
            rec.check(snap_equal(before, snap(a)), 'extend leaves its operand unchanged', f'{label}:operand', ops=self.chk.ops)
            rec.check(not any(shares(y, arrays_of(a)) for y in r.view.values()), 'the new Atoms does not share memory with the operand',
                      f'{label}:alias', ops=self.chk.ops)
            new.append(Ent('atoms', r, mr, 'extend'))
            return label, new

        if kind in ('extend_atoms', 'atoms_extend'):
            sysop = kind == 'atoms_extend'
            s, ms = e.real, e.model
            scale = op.get('scale', False)
            if op['vcls'] == 'int':
                o = mo = op['n']
                nadd = op['n']
                oarrs = []
            elif op['vcls'] == 'pool':
                oe = pool[op['other']]
                o, mo = oe.atoms, oe.matoms
                nadd = mo.natoms
                oarrs = arrays_of(o)
            else:
                o = build_atoms(am, op['operand'])
                mo = build_matoms(op['operand'])
                nadd = mo.natoms
                oarrs = arrays_of(o)
            special = {}
            if op['vcls'] != 'int':
                special = {k: 'extend(Atoms;new-str)' for k in mo.keys if k not in ma.keys and mo.dtypes[k].kind == 'U'}
            if sysop:
                mism = bool(scale and op['vcls'] != 'int' and nadd != ma.natoms)
                label = 'atoms_extend' + ('(int)' if op['vcls'] == 'int' else ('(Atoms,scale)' if scale else '(Atoms)'))
                if mism:
                    special['pos'] = 'atoms_extend(scale;nadd!=nhost)'
                if op.get('refuse_scale_int'):
                    label = 'atoms_extend(scale,int)'
                    scale = True
                kw = dict(scale=scale, safecopy=op.get('safecopy', False))
                if op.get('symbols') is not None:
                    kw['symbols'] = fresh(op['symbols'])
                real = lambda: s.atoms_extend(o, **kw)
                model = lambda: ms.atoms_extend(mo, scale=scale, symbols=op.get('symbols'))
                before = snap(s)
            else:
                label = 'extend(Atoms)'
                real = lambda: a.extend(o)
                model = lambda: ma.extend(mo)
                before = snap(a)
            obefore = snap(o) if oarrs else None
            if sysop and scale and op['vcls'] != 'int':
                rec.count('class:atoms_extend(scale):' + ('nadd!=nhost' if mism else 'nadd==nhost'))
            if special and any(v == 'extend(Atoms;new-str)' for v in special.values()):
                rec.count('class:extend:new-str-property')
            st, r, mr = self.both('atoms_extend(scale;nadd!=nhost)' if (sysop and mism) else label, real, model, inplace=False)
            rec.check(snap_equal(before, snap(s if sysop else a)), f'{kind} leaves the extended object unchanged', f'{label}:operand', ops=self.chk.ops)
            if obefore is not None:
                rec.check(snap_equal(obefore, snap(o)), f'{kind} leaves the Atoms argument unchanged', f'{label}:operand', ops=self.chk.ops)
            rec.count(f'class:{kind}:{op["vcls"]}:{op.get("pcls", "-")}' + (':scale' if scale else ''))
            if st == 'ok':
                ra = r.atoms if sysop else r
                rec.check(not any(shares(y, arrays_of(a) + oarrs) for y in ra.view.values()),
                          'the new object does not share per-atom storage with the operands', f'{label}:alias', ops=self.chk.ops)
                if sysop:
                    rec.check(not np.shares_memory(r.pbc, s.pbc), 'a new System has its own periodic flags (an element-wise write to one does not reach the other)',
                              f'{label}:pbc-alias', ops=self.chk.ops)
                new.append(Ent('system' if sysop else 'atoms', r, mr, kind))
                new[-1].special = special
            return label, new

        if kind == 'getitem':
            via, index = op['via'], op['index']
            label = 'atoms_ix_get' if via == 'atoms_ix' else 'getitem'
            before = snap(e.real)
            try:
                r = e.real.atoms_ix[index] if via == 'atoms_ix' else a[index]
            except Exception as ex:
                rec.fail('an in-domain operation must not raise', f'{label}:exception', exception=ex, ops=self.chk.ops)
                raise Diverged()
            ra = r.atoms if via == 'atoms_ix' else r
            shared = {k: bool(k in a.view and shares(v, [a.view[k]])) for k, v in ra.view.items()}
            rec.count('observed:getitem-shares-storage' if any(shared.values()) else 'observed:getitem-copies')
            mr = e.model.subsystem(index, shared) if via == 'atoms_ix' else ma.subset(index, shared)
            rec.check(snap_equal(before, snap(e.real)), 'indexing leaves its operand unchanged', f'{label}:operand', ops=self.chk.ops)
            if via == 'atoms_ix':
                rec.check(not np.shares_memory(r.pbc, e.real.pbc), 'a new System has its own periodic flags (an element-wise write to one does not reach the other)',
                          f'{label}:pbc-alias', ops=self.chk.ops)
                rec.count('pbc-alias:judged')
            rec.count(f'class:index:{op["icls"]}')
            rec.count('agree:performed')
            if ra.natoms == 0:
                rec.count('class:getitem:empty-result')
                self.chk.atoms(r, mr, label, 'result')
            else:
                new.append(Ent('system' if via == 'atoms_ix' else 'atoms', r, mr, label))
            return label, new

        if kind == 'deepcopy':
            label = 'deepcopy(System)' if e.typ == 'system' else 'deepcopy(Atoms)'
            before = snap(e.real)
            st, r, mr = self.both(label, lambda: copy.deepcopy(e.real), lambda: e.model.copy(), inplace=False)
            rec.check(snap_equal(before, snap(e.real)), 'deepcopy leaves its operand unchanged', f'{label}:operand', ops=self.chk.ops)
            ra = r.atoms if e.typ == 'system' else r
            arrs = self.stored()
            rec.check(not any(shares(y, arrs) for y in ra.view.values()), 'a deep copy shares no per-atom storage', f'{label}:alias', ops=self.chk.ops)
            if e.typ == 'system':
                rec.check(r.atoms_ix is not e.real.atoms_ix, 'a deep-copied System has its own indexer', f'{label}:alias', ops=self.chk.ops)
            new.append(Ent(e.typ, r, mr, label))
            return label, new

        if kind == 'df':
            via = op['via']
            label = {'df': 'df', 'atoms_df': 'atoms_df', 'atoms_df_scale': 'atoms_df(scale)'}[via]
            if via == 'df':
                st, df, _ = self.both(label, lambda: a.df(), lambda: None)
            else:
                st, df, _ = self.both(label, lambda: e.real.atoms_df(scale=(via == 'atoms_df_scale')), lambda: None)
            mt = ma
            if via == 'atoms_df_scale':
                mt = ma.copy()
                mt.set('pos', e.model.rel(ma.column('pos')))
            table = mt.table()
            rec.check(list(df.columns) == list(table) and len(df) == ma.natoms, 'the table has one row per atom and one column per component',
                      f'{label}:columns', got=list(df.columns), expected=list(table), ops=self.chk.ops)
            bad = [c for c in table if c in df.columns and not same_values(df[c].to_numpy(), table[c])]
            rec.check(not bad, 'table values equal the model', f'{label}:values', columns=bad, ops=self.chk.ops)
            arrs = self.stored()
            al = []
            for c in df.columns:
                col = df[c].to_numpy()
                if shares(col, arrs):
                    al.append(c)
                if col.dtype.kind in 'iuf':
                    try:
                        df.loc[:, c] = col + 5
                    except Exception:
                        pass
            rec.check(not al, 'table columns do not share memory with storage', f'{label}:alias', columns=al, ops=self.chk.ops)
            return label, new

        if kind == 'atoms_prop_get':
            s, ms = e.real, e.model
            key, index, scale = op['key'], op['index'], op['scale']
            label = 'atoms_prop_get(scale)' if scale else 'atoms_prop_get'
            kw = dict(scale=scale)
            if key is not None:
                kw['key'] = key
            if op['icls'] == 'a_id':
                kw['a_id'] = index
            elif index is not None:
                kw['index'] = index

            def model():
                if key is None:
                    if index is None and not scale:
                        return list(ma.keys)
                    sub = ma.subset(slice(None) if index is None else index)
                    if scale:
                        sub.set('pos', ms.rel(sub.column('pos')))
                    return sub
                v = ma.get(key, index)
                return ms.rel(v) if scale else v
            st, got, exp = self.both(label, lambda: s.atoms_prop(**kw), model)
            if isinstance(exp, list):
                rec.check(got == exp, 'atoms_prop() lists the property names', f'{label}:values', got=got, expected=exp, ops=self.chk.ops)
            elif isinstance(exp, M.MAtoms):
                self.chk.atoms(got, exp, label, 'result')
                self.noalias(got, label, 'the Atoms returned by atoms_prop')
            else:
                rec.check(same_values(got, exp), 'atoms_prop(key[, index][, scale]) returns the model values', f'{label}:values',
                          got=got, expected=exp, ops=self.chk.ops)
                self.noalias(got, label, 'the array returned by atoms_prop')
                again = s.atoms_prop(**kw)
                rec.check(same_values(again, exp), 'the same read repeated returns the same values', f'{label}:repeat', got=again, expected=exp,
                          ops=self.chk.ops)
                rec.count('repeated-reads')
            rec.count(f'class:index:{op["icls"]}')
            return label, new

        if kind == 'atoms_prop_set':
            s, ms = e.real, e.model
            key, index, scale = op['key'], op['index'], op['scale']
            label = 'atoms_prop_set(scale)' if scale else 'atoms_prop_set'
            val = fresh(op['value'])
            kw = dict(key=key, value=val, scale=scale)
            if index is not None:
                kw['index'] = index

            def model():
                v = np.asarray(op['value'])
                if scale:
                    v = ms.cart(v)
                if index is None:
                    ma.set(key, v)
                else:
                    ma.write(key, index, v)
            st, _, _ = self.both(label, lambda: s.atoms_prop(**kw), model)
            rec.count(f'class:index:{op["icls"]}')
            rec.count('class:given:' + O.given_class(op['value']))
            self.changed += 1
            if st == 'ok':
                self.argument(val, label)
            return label, new

        if kind == 'symbols_set':
            label = 'symbols_set'

            def real():
                e.real.symbols = fresh(op['value'])
            self.both(label, real, lambda: e.model.set_symbols(op['value']))
            rec.count(f'class:symbols_set:{op["cls"]}')
            return label, new

        if kind == 'masses_set':
            label = 'masses_set'

            def real():
                e.real.masses = fresh(op['value'])
            self.both(label, real, lambda: e.model.set_masses(op['value']))
            rec.count(f'class:masses_set:{op["cls"]}')
            return label, new

        if kind == 'pbc_set':
            label = 'pbc_set'

            def real():
                e.real.pbc = fresh(op['value'])
            self.both(label, real, lambda: e.model.set_pbc(op['value']))
            rec.count(f'class:pbc_set:{op["cls"]}')
            return label, new

        if kind == 'prop_refuse':
            label = 'prop(invalid arguments)'

            def model():
                raise M.Refused(op['cls'])
            if op['cls'] == 'a_id-and-index':
                self.both(label, lambda: a.prop(key=op['key'], index=0, a_id=0), model)
            else:
                self.both(label, lambda: a.prop(value=1.5), model)
            return label, new

        raise ValueError(kind)


# ---------------------------------------------------------------------------
# initial objects of a history
# ---------------------------------------------------------------------------
def initial(am, rng, i):
    ncls = O.NATOMS_CLASSES[i % len(O.NATOMS_CLASSES)]
    schema = O.SCHEMAS[(i // len(O.NATOMS_CLASSES)) % len(O.SCHEMAS)]
    ctor = (i // 3) % 4
    kind = cells.KINDS[i % len(cells.KINDS)]
    origin = cells.ORIGINS[(i // 2) % 2]
    cell = cells.gen_cell(rng, kind, origin, 1.0)
    n = O.natoms_of(rng, ncls)
    n2 = O.natoms_of(rng, O.NATOMS_CLASSES[(i // 7) % len(O.NATOMS_CLASSES)])
    scale = bool((i // 5) % 3 == 1)
    spec_s = O.atoms_spec(rng, n, schema[0], maxtype=3, rel=scale)
    spec_a = O.atoms_spec(rng, n2, schema[1], maxtype=2)
    init = dict(natoms_class=ncls, schema=schema, ctor=ctor, cell_kind=kind, origin=origin, scale=scale, system_atoms=spec_s,
                atoms=spec_a, vects=cell['vects'], box_origin=cell['origin'])
    # real Atoms of the System, by one of four constructor forms
    if ctor == 0:
        a = build_atoms(am, spec_s)
        msa = build_matoms(spec_s)
    elif ctor == 1:
        a = build_atoms(am, spec_s, safecopy=True, natoms=n)
        msa = build_matoms(spec_s)
    elif ctor == 2:                    # backwards-compatible prop= dictionary
        a = am.Atoms(prop={k: fresh(v) for k, v in spec_s.items()})
        msa = build_matoms(spec_s)
    else:                              # natoms + one value for everybody
        one = {k: v[:1] for k, v in spec_s.items()}
        d = {k: fresh(v) for k, v in one.items() if k not in ('atype', 'pos')}
        a = am.Atoms(natoms=n, atype=int(one['atype'][0]), pos=fresh(one['pos']), **d)
        msa = M.MAtoms.build(n, **one)
    nta = msa.natypes()
    sycls = ['none', 'short', 'full', 'long', 'str'][(i // 4) % 5]
    mcls = ['none', 'given', 'none', 'scalar'][(i // 9) % 4]
    syms = {'none': None, 'short': ['Aa'] * max(0, nta - 1), 'full': ['Aa', 'Bb', 'Cc', 'Dd'][:nta], 'long': ['Aa', 'Bb', 'Cc', 'Dd', 'Ee'][:nta + 2],
            'str': 'Fe'}[sycls]
    nts = max(nta, len(syms) if isinstance(syms, list) else (1 if syms else 0))
    masses = None
    if mcls == 'given':
        masses = [float(x) for x in np.round(rng.uniform(1, 100, nts if sycls != 'none' else nta + 1), 2)]
    elif mcls == 'scalar':
        masses = 55.845
    pbc = cells.PBCS[i % 8]
    init.update(symbols=syms, masses=masses, pbc=pbc)
    box = am.Box(vects=cell['vects'], origin=cell['origin'])
    s = am.System(atoms=a, box=box, pbc=pbc, symbols=fresh(syms), masses=fresh(masses), scale=scale)
    ms = M.MSystem(msa, cell['vects'], cell['origin'], pbc, symbols=syms, masses=masses, scale=scale)
    a2 = build_atoms(am, spec_a)
    ma2 = build_matoms(spec_a)
    return init, [Ent('system', s, ms, 'S'), Ent('atoms', a2, ma2, 'A')]


def compact(op):
    return {k: v for k, v in op.items()}


# ---------------------------------------------------------------------------
# objects built from the constructor DEFAULTS (group 'defaults'): whatever one instance does, the defaults every other
# instance starts from -- before or after -- are atype 1, pos (0,0,0), no further property, no symbols / masses, pbc TTT
# ---------------------------------------------------------------------------
PROPS_ONLY = {'charge': ('float', ()), 'vel': ('float', (3,)), 'tag': ('str', ())}


def default_atoms(am, path, rng, n):
    """(real Atoms, model, description) of an Atoms built by ``path`` leaving atype and/or pos to the defaults."""
    kw, how = {}, {}
    if path in ('Atoms()', 'Atoms(model=default)'):
        mkw, mn = {}, 1
    elif path in ('Atoms(natoms=n)', 'Atoms(natoms=n,safecopy)'):
        kw = dict(natoms=n)
        if path.endswith('safecopy)'):
            kw['safecopy'] = True
        mkw, mn = {}, n
    elif path in ('Atoms(pos=one)', 'Atoms(pos=int-list)'):
        p = np.round(rng.uniform(-5, 5, 3), 4) if path == 'Atoms(pos=one)' else rng.integers(-5, 6, 3)
        kw = dict(pos=p.copy() if path == 'Atoms(pos=one)' else [int(x) for x in p])
        if n > 1:
            kw['natoms'] = n
        mkw, mn = dict(pos=np.asarray(p, float).reshape(1, 3)), n
    elif path == 'Atoms(pos=many)':
        p = np.round(rng.uniform(-5, 5, (n, 3)), 4)
        kw, mkw, mn = dict(pos=p.copy()), dict(pos=p), n
    elif path == 'Atoms(atype=scalar)':
        kw, mkw, mn = dict(natoms=n, atype=2), dict(atype=2), n
    elif path == 'Atoms(atype=many)':
        t = rng.integers(1, 4, n)
        kw, mkw, mn = dict(atype=t.copy() if n % 2 else [int(x) for x in t]), dict(atype=t), n
    elif path in ('Atoms(props-only)', 'Atoms(prop={props})'):
        d = {k: O.gen_value(rng, kc, shape, [1, n][j % 2]) for j, (k, (kc, shape)) in enumerate(PROPS_ONLY.items())}
        mkw, mn = d, n
        if path == 'Atoms(props-only)':
            kw = dict(natoms=n, **{k: fresh(v) for k, v in d.items()})
        else:
            kw = dict(natoms=n, prop={k: fresh(v) for k, v in d.items()})
    else:
        raise ValueError(path)
    how = dict(path=path, natoms=mn, kwargs={k: v for k, v in kw.items()})
    if path == 'Atoms(model=default)':
        a = am.Atoms(model=am.Atoms().model())
    else:
        a = am.Atoms(**kw)
    return a, M.MAtoms.build(mn, **mkw), how


def default_system(am, path, rng, n, i):
    """(real System, model, description, [further live objects]) of a System built by ``path``."""
    extra = []
    I3, O3 = np.identity(3), np.zeros(3)
    vects, origin, pbc, syms, masses, scale = I3, O3, (True, True, True), None, None, False
    kw = {}
    ma = M.MAtoms.build(1)
    if path == 'System()':
        pass
    elif path == 'System(atoms=Atoms())':
        kw = dict(atoms=am.Atoms())
    elif path == 'System(atoms=Atoms(natoms=n))':
        kw = dict(atoms=am.Atoms(natoms=n))
        ma = M.MAtoms.build(n)
    elif path in ('System(box)', 'System(box,scale)'):
        cell = cells.gen_cell(rng, cells.KINDS[i % len(cells.KINDS)], cells.ORIGINS[(i // 2) % 2], 1.0)
        vects, origin = cell['vects'], cell['origin']
        kw = dict(box=am.Box(vects=vects, origin=origin))
        if path.endswith('scale)'):
            kw['scale'] = scale = True
    elif path == 'System(symbols,masses)':
        syms, masses = ['Aa', 'Bb'][:1 + i % 2], [float(np.round(rng.uniform(1, 100), 2))]
        kw = dict(symbols=fresh(syms), masses=fresh(masses))
    elif path == 'System(atoms=Atoms(pos=one))':
        a, ma, _ = default_atoms(am, 'Atoms(pos=one)', rng, n)
        kw = dict(atoms=a)
    elif path == 'System(atoms,safecopy)':
        a, ma0, _ = default_atoms(am, 'Atoms(natoms=n)', rng, n)
        kw = dict(atoms=a, safecopy=True)
        ma = ma0.copy()
        extra.append(Ent('atoms', a, ma0, 'safecopied-original'))
    elif path == 'System(pbc)':
        pbc = cells.PBCS[1 + i % 7]
        kw = dict(pbc=pbc)
    else:
        raise ValueError(path)
    s = am.System(**kw)
    ms = M.MSystem(ma, vects, origin, pbc, symbols=syms, masses=masses, scale=scale)
    return s, ms, dict(path=path, natoms=ma.natoms, vects=vects, origin=origin, pbc=pbc, symbols=syms, masses=masses), extra


REACH = [
    ('PropertyDict.__setitem__', 'Atoms.py', lambda am: am.Atoms.PropertyDict.__setitem__, 14),
    ('Atoms.__getitem__', 'Atoms.py', lambda am: am.Atoms.__getitem__, 5),
    ('Atoms.__setitem__', 'Atoms.py', lambda am: am.Atoms.__setitem__, 8),
    ('Atoms.__deepcopy__', 'Atoms.py', lambda am: am.Atoms.__deepcopy__, 6),
    ('Atoms.prop', 'Atoms.py', lambda am: am.Atoms.prop, 20),
    ('Atoms.prop_atype', 'Atoms.py', lambda am: am.Atoms.prop_atype, 12),
    ('Atoms.extend', 'Atoms.py', lambda am: am.Atoms.extend, 16),
    ('Atoms.df', 'Atoms.py', lambda am: am.Atoms.df, 8),
    ('System._AtomsIndexer.__setitem__', 'System.py', lambda am: am.System._AtomsIndexer.__setitem__, 9),
    ('System.symbols.setter', 'System.py', lambda am: am.System.symbols.fset, 7),
    ('System.masses.setter', 'System.py', lambda am: am.System.masses.fset, 11),
    ('System.atoms_prop', 'System.py', lambda am: am.System.atoms_prop, 30),
    ('System.atoms_extend', 'System.py', lambda am: am.System.atoms_extend, 12),
    ('System.atoms_df', 'System.py', lambda am: am.System.atoms_df, 14),
]


ANCHORS = [
    ('length-1 broadcast branch', 'Atoms.py', 'np.broadcast_to(value, (host.natoms,) + value.shape[1:])'),
    ('scalar broadcast branch', 'Atoms.py', 'np.broadcast_to(value, (host.natoms,) + value.shape))'),
    ('leading-length refusal', 'Atoms.py', "raise ValueError('First dimension of value must be 1 or natoms')"),
    ('atype<1 refusal', 'Atoms.py', "raise ValueError('atype values must be >= 1')"),
    ('existing key overwritten in place', 'Atoms.py', 'self[key][:] = value'),
    ('__intslice(-1)', 'Atoms.py', 'return slice(intnum, None)'),
    ('prop_atype(atype) allocates a new key', 'Atoms.py', 'self.view[key] = np.zeros((self.natoms,) + value.shape'),
    ('prop_atype refusals', 'Atoms.py', "raise ValueError('atype not found')"),
    ('extend allocates a property of the argument', 'Atoms.py', 'newatoms.view[prop] = np.zeros((newatoms.natoms, )'),
    ('extend zero-fills a property the argument lacks', 'Atoms.py', 'newatoms.view[prop][self.natoms:] = np.zeros((natoms, )'),
    ('__setitem__ refuses mismatched properties', 'Atoms.py', "raise ValueError('Can only set Atoms with matching properties')"),
    ('symbols / masses None padding', 'System.py', 'newvalue[i] = value[i]'),
    ('too many masses refused', 'System.py', "raise ValueError('More masses than atom types given"),
    ('atoms_prop(value=Atoms, scale=True)', 'System.py', 'value.pos = self.box.position_relative_to_cartesian(value.pos)'),
    ('atoms_prop(key, value, scale=True)', 'System.py', ' value = self.box.position_relative_to_cartesian(value)'),
    ('atoms_extend(scale=True)', 'System.py', '] = self.box.position_relative_to_cartesian(value.pos)'),
    ('atoms_prop(scale=True) reads', 'System.py', '                    return self.box.position_cartesian_to_relative(value)'),
    ('atoms_ix set from a System', 'System.py', 'host.atoms[index] = value.atoms'),
]


def run(ctx):
    import atomman as am
    rec = ctx.rec
    cover.start(['atomman/core/Atoms.py', 'atomman/core/System.py'])

    nhist = ctx.pick(640, 4800)
    pairs = set()
    nops = ctx.pick(25, 40)
    for i in ctx.cases('histories', nhist):
        rng = ctx.rng
        kinds, crng = O.plan(i, nops)
        chk = Checker(rec, am)
        try:
            init, pool = initial(am, rng, i)
        except Exception as ex:
            rec.fail('the initial Atoms / System can be built', 'init:exception', exception=ex)
            continue
        chk.ops = [{'init': init}]
        run_ = Runner(ctx, am, chk)
        run_.pool = pool
        for e in pool:
            chk.ent(e, 'init', 'target')
        done = 0
        aborted = False
        prev = None
        for j, kind in enumerate(kinds):
            views = [(e.typ, e.model) for e in run_.pool]
            op = O.make_op(kind, crng, rng, views)
            chk.ops.append(op)
            v0 = rec.n_violations
            readonly = kind in READONLY
            try:
                label, new = run_.step(op)
            except Diverged:
                if readonly:                   # nothing was modified on either side: go on
                    rec.count('ops-diverged-readonly')
                    continue
                aborted = True
                break
            except M.OutOfDomain as ex:
                rec.count('harness:out-of-domain-op')
                rec.fail('harness: the generator produced an op the model gives no meaning to', 'harness:out-of-domain', error=str(ex), ops=chk.ops)
                aborted = True
                break
            except Exception as ex:            # the harness tripped over something the real objects handed back
                import traceback
                rec.fail('results of the real operation can be examined by the monitors', f'{kind}:monitor-exception',
                         exception=ex, where=traceback.format_exc()[-1200:], ops=chk.ops)
                aborted = True
                break
            done += 1
            rec.count('ops')
            rec.count('op:' + label)
            if prev is not None:
                pairs.add((prev, kind))
            prev = kind
            if rec.n_violations > v0 and not readonly:   # the operation itself misbehaved: stop comparing this history
                aborted = True
                break
            v1 = rec.n_violations
            if run_.phase == 'refused':
                label = label + ':refused'
            tgt = run_.pool[op['slot']]
            for e in run_.pool:
                chk.ent(e, label, 'target' if e is tgt else 'bystander')
            rec.count('full-comparisons', len(run_.pool))
            run_.check_kept()
            if rec.n_violations > v1:
                aborted = True
                break
            for e in new:
                chk.ent(e, label, 'result', getattr(e, 'special', None))
                if rec.n_violations > v1:
                    rec.count('results-dropped')
                    break
                run_.add(e)
                rec.count('results-kept')
        if aborted:
            rec.count('histories-aborted')
        sig = (init['natoms_class'], (i // len(O.NATOMS_CLASSES)) % len(O.SCHEMAS), kinds[0])
        rec.case(sig, nontrivial=done >= 8 and run_.changed >= 3, fp=fingerprint([compact(o) for o in chk.ops[1:]], init['system_atoms']['pos']))
        if i < 24:
            rec.sample(dict(natoms=init['natoms_class'], schema=init['schema'], ops=[{k: v for k, v in o.items() if k not in ('operand',)}
                                                                                     for o in chk.ops[1:7]]))

    rec.count('distinct-consecutive-op-kind-pairs(summed over workers)', len(pairs))
    rec.floor('distinct-consecutive-op-kind-pairs(summed over workers)', 1000)

    # default-built objects: state leaking between instances ------------------------------------------
    LEFT = {'Atoms()': 'atype,pos', 'Atoms(natoms=n)': 'atype,pos', 'Atoms(pos=one)': 'atype', 'Atoms(pos=many)': 'atype',
            'Atoms(pos=int-list)': 'atype', 'Atoms(atype=scalar)': 'pos', 'Atoms(atype=many)': 'pos', 'Atoms(props-only)': 'atype,pos',
            'Atoms(prop={props})': 'atype,pos', 'Atoms(model=default)': '', 'Atoms(natoms=n,safecopy)': 'atype,pos',
            'System(atoms=Atoms(pos=one))': 'atype'}
    nA, nS = len(O.ATOMS_PATHS), len(O.SYSTEM_PATHS)
    for i in ctx.cases('defaults', ctx.pick(396, 3960)):
        rng = ctx.rng
        steps, crng = O.plan_defaults(i)
        apath, spath, n = O.ATOMS_PATHS[i % nA], O.SYSTEM_PATHS[i % nS], O.DEFAULT_NATOMS[i % 5]
        chk = Checker(rec, am)
        run_ = Runner(ctx, am, chk)
        init = dict(atoms_path=apath, system_path=spath, n=n)
        chk.ops = [{'init': init}]
        rec.count('class:default-path:' + apath)
        rec.count('class:default-path:' + spath)

        def witnesses(tag):
            """Objects built from the defaults (and a second instance by the paths of this case)."""
            out = []
            for path in ('System()', spath):
                s_, ms_, _, ex_ = default_system(am, path, rng, n, i)
                out.append(Ent('system', s_, ms_, f'{tag}:{path}'))
                out.extend(ex_)
            for path, n_ in (('Atoms()', 1), (apath, n), ('Atoms(natoms=n)', O.DEFAULT_NATOMS[(i + 1) % 5])):
                a_, ma_, _ = default_atoms(am, path, rng, n_)
                out.append(Ent('atoms', a_, ma_, f'{tag}:{path}'))
            return out
        try:
            s, ms, hows, extra = default_system(am, spath, rng, n, i)
            a, ma, howa = default_atoms(am, apath, rng, n)
            init.update(system=hows, atoms=howa)
            run_.pool = [Ent('system', s, ms, 'S'), Ent('atoms', a, ma, 'A')]
            run_.extra = extra + witnesses('before')
        except Exception as ex:
            rec.fail('Atoms / System can be built from the constructor defaults', 'defaults-init:exception', exception=ex, ops=chk.ops)
            rec.case(('defaults', apath, spath), nontrivial=False, fp=fingerprint(i))
            continue
        v0 = rec.n_violations
        for e in run_.pool + run_.extra:
            chk.ent(e, 'defaults-init', 'target')
        done, aborted = 0, rec.n_violations > v0
        for j, step in enumerate(steps):
            if aborted:
                break
            views = [(e.typ, e.model) for e in run_.pool]
            forced = isinstance(step, tuple)
            op = O.forced_edit(step[1], i + j, crng, rng, views) if forced else O.make_op(step, crng, rng, views)
            if op['op'] == 'extend_int' and step == 'extend_int':
                op['n'] = [1, 2, 1, 3][i % 4]
            if op['op'] == 'atoms_extend' and step == 'atoms_extend' and j == 8:
                op = {'op': 'atoms_extend', 'slot': 0, 'vcls': 'int', 'n': [1, 1, 2][i % 3], 'scale': False, 'safecopy': bool(i % 2), 'scls': 'none'}
            chk.ops.append(op)
            kind = op['op']
            readonly = kind in READONLY
            v0 = rec.n_violations
            try:
                label, new = run_.step(op)
            except Diverged:
                if readonly:
                    rec.count('ops-diverged-readonly')
                    continue
                aborted = True
                break
            except M.OutOfDomain as ex:
                rec.count('harness:out-of-domain-op')
                rec.fail('harness: the generator produced an op the model gives no meaning to', 'harness:out-of-domain', error=str(ex), ops=chk.ops)
                aborted = True
                break
            except Exception as ex:
                import traceback
                rec.fail('results of the real operation can be examined by the monitors', f'{kind}:monitor-exception',
                         exception=ex, where=traceback.format_exc()[-1200:], ops=chk.ops)
                aborted = True
                break
            done += 1
            rec.count('ops')
            rec.count('op:' + label)
            if forced and run_.phase != 'refused':
                tm = run_.pool[op['slot']].matoms
                left = LEFT.get(spath if op['slot'] == 0 else apath, 'atype,pos')
                touched = ['atype', 'pos'] if kind == 'assign' else [op['key']]
                rec.count('class:default-edit:' + '/'.join(str(x) for x in O.EDIT_FORMS[step[1]][:3]))
                if any(k in left.split(',') for k in touched):
                    rec.count('defaults:in-place-edit-of-a-defaulted-property:' + ('natoms=1' if tm.natoms == 1 else 'natoms>1'))
            if rec.n_violations > v0 and not readonly:
                aborted = True
                break
            v1 = rec.n_violations
            if run_.phase == 'refused':
                label = label + ':refused'
            tgt = run_.pool[op['slot']]
            for e in run_.pool:
                chk.ent(e, label, 'target' if e is tgt else 'bystander')
            for e in run_.extra:                      # untouched instances built from the same defaults
                chk.ent(e, label, 'bystander')
            rec.count('full-comparisons', len(run_.pool))
            rec.count('defaults:witness-comparisons', len(run_.extra))
            run_.check_kept()
            if rec.n_violations > v1:
                aborted = True
                break
            for e in new:
                chk.ent(e, label, 'result', getattr(e, 'special', None))
                if rec.n_violations > v1:
                    rec.count('results-dropped')
                    break
                run_.add(e)
                rec.count('results-kept')
        if aborted:
            rec.count('histories-aborted')
        else:
            # whatever happened to the instances above, what is built from the defaults NOW is still the defaults
            v1 = rec.n_violations
            try:
                after = witnesses('after')
                spec = O.atoms_spec(rng, [2, 3, 1][i % 3], ['charge', 'vel'][:i % 3], maxtype=2)
                k = [1, 2, 1, 3][i % 4]
                big, mbig = build_atoms(am, spec), build_matoms(spec)
                after.append(Ent('atoms', big.extend(k), mbig.extend(k), 'after:explicit.extend(int)'))
                sbig = am.System(atoms=build_atoms(am, spec), symbols=['Aa', 'Bb'])
                msbig = M.MSystem(build_matoms(spec), np.identity(3), np.zeros(3), symbols=['Aa', 'Bb'])
                after.append(Ent('system', sbig.atoms_extend(k), msbig.atoms_extend(k), 'after:explicit.atoms_extend(int)'))
                d0 = am.Atoms()
                after.append(Ent('atoms', copy.deepcopy(d0), M.MAtoms.build(1), 'after:deepcopy(Atoms())'))
                after.append(Ent('atoms', d0[0], M.MAtoms.build(1), 'after:Atoms()[0]'))
            except Exception as ex:
                rec.fail('Atoms / System can be built from the constructor defaults', 'defaults-after:exception', exception=ex, ops=chk.ops)
                after = []
            for e in after:
                chk.ent(e, 'defaults-' + e.name, 'result')
            rec.count('defaults:built-after-comparisons', len(after))
            if rec.n_violations == v1:
                rec.count('defaults:histories-completed')
        rec.case(('defaults', apath, spath, n), nontrivial=done >= 6 and run_.changed >= 3,
                 fp=fingerprint([compact(o) for o in chk.ops[1:]], i))

    # the caller keeps (and reuses) the objects it handed in ------------------------------------------
    AR = ['Atoms(safecopy)', 'Atoms(safecopy)-twice', 'System(atoms,safecopy)', 'prop(key,value)-new', 'atoms_prop(key,value)-new',
          'view-existing', 'Atoms(lists)-twice', 'Atoms(prop=dict)-twice', 'atoms_extend(safecopy)']
    for i in ctx.cases('arguments', ctx.pick(108, 1080)):
        rng = ctx.rng
        cls = AR[i % len(AR)]
        n = [1, 2, 3, 5][(i // len(AR)) % 4]
        chk = Checker(rec, am)
        names = [['charge', 'vel'], ['idx', 'tag'], ['stress', 'flag']][(i // 4) % 3]
        spec = O.atoms_spec(rng, n, names, maxtype=3)
        chk.ops = [dict(op=cls, natoms=n, spec=spec)]
        label = 'reuse:' + cls
        rec.case(('arguments', cls, n), nontrivial=True, fp=fingerprint(cls, n, spec))
        rec.count('class:arguments:' + cls)
        mine = {k: fresh(v) for k, v in spec.items()}          # the caller's own arrays
        extra = {k: v for k, v in mine.items() if k not in ('atype', 'pos')}

        def overwrite():
            return sum(bool(scribble(v)) for v in mine.values())
        try:
            if cls in ('Atoms(safecopy)', 'Atoms(safecopy)-twice'):
                a = am.Atoms(atype=mine['atype'], pos=mine['pos'], safecopy=True, **extra)
                objs = [('atoms', a, build_matoms(spec))]
                if cls.endswith('twice'):                      # edit the first, build the second from the same argument objects
                    ma = objs[0][2]
                    newpos = O.gen_value(rng, 'float', (3,), n)
                    a.pos = newpos.copy()
                    ma.set('pos', newpos)
                    a.prop('atype', index=0, value=3)
                    ma.write('atype', 0, 3)
                    b = am.Atoms(atype=mine['atype'], pos=mine['pos'], safecopy=True, **extra)
                    objs.append(('atoms', b, build_matoms(spec)))
                rec.count('scribbled-arguments', overwrite())
            elif cls == 'System(atoms,safecopy)':
                a = build_atoms(am, spec)
                s = am.System(atoms=a, safecopy=True)
                newpos = O.gen_value(rng, 'float', (3,), n)
                a.pos = newpos.copy()                          # the caller goes on editing its own Atoms ...
                ma = build_matoms(spec)
                ma.set('pos', newpos)
                s.atoms.prop('atype', index=-1, value=4)       # ... and the System is edited too
                ms = M.MSystem(build_matoms(spec), np.identity(3), np.zeros(3))
                ms.atoms.write('atype', -1, 4)
                objs = [('atoms', a, ma), ('system', s, ms)]
            elif cls in ('prop(key,value)-new', 'atoms_prop(key,value)-new', 'view-existing'):
                base = {k: v for k, v in spec.items() if k in ('atype', 'pos')}
                a = build_atoms(am, base)
                ma = build_matoms(base)
                s = am.System(atoms=a)
                if cls == 'view-existing':
                    for k, v in extra.items():
                        a.view[k] = np.zeros_like(v)
                        ma.set(k, np.zeros_like(v))
                for k, v in extra.items():
                    if cls == 'prop(key,value)-new':
                        a.prop(k, value=v)
                    elif cls == 'atoms_prop(key,value)-new':
                        s.atoms_prop(k, value=v)
                    else:
                        a.view[k] = v
                    ma.set(k, spec[k])
                rec.check(not any(shares(v, arrays_of(a)) for v in extra.values()),
                          'the stored values do not share memory with the value handed in', f'{label}:argument-alias', ops=chk.ops)
                rec.count('scribbled-arguments', overwrite())
                objs = [('atoms', a, ma)]
            elif cls == 'Atoms(lists)-twice':
                lists = {k: v.tolist() for k, v in mine.items()}
                a = am.Atoms(**lists)
                a.pos = O.gen_value(rng, 'float', (3,), n)
                ma = build_matoms(spec)
                ma.set('pos', a.pos.copy())
                b = am.Atoms(**lists)
                rec.check(all(lists[k] == spec[k].tolist() for k in spec), 'the constructor leaves the lists handed in unchanged',
                          f'{label}:operand', ops=chk.ops)
                objs = [('atoms', a, ma), ('atoms', b, build_matoms(spec))]
            elif cls == 'Atoms(prop=dict)-twice':
                d = {k: v.tolist() for k, v in mine.items()}
                a = am.Atoms(prop=d)
                same = list(d) == list(spec)
                rec.check(same, 'Atoms(prop=dict) leaves the dictionary handed in unchanged (the same call can be repeated)',
                          'Atoms(prop=dict):operand', keys_left=list(d), keys_given=list(spec), ops=chk.ops)
                objs = [('atoms', a, build_matoms(spec))]
                if same:
                    objs.append(('atoms', am.Atoms(prop=d), build_matoms(spec)))
            elif cls == 'atoms_extend(safecopy)':
                host = am.System(atoms=build_atoms(am, {k: v for k, v in spec.items() if k in ('atype', 'pos')}))
                mhost = M.MSystem(build_matoms({k: v for k, v in spec.items() if k in ('atype', 'pos')}), np.identity(3), np.zeros(3))
                o = am.Atoms(atype=mine['atype'], pos=mine['pos'], **extra)      # direct setting: o may hold the caller's arrays
                r = host.atoms_extend(o, safecopy=True)
                mr = mhost.atoms_extend(build_matoms(spec))
                rec.check(not any(shares(y, arrays_of(o) + arrays_of(host) + list(mine.values())) for y in r.atoms.view.values()),
                          'the new object does not share per-atom storage with the operands', f'{label}:alias', ops=chk.ops)
                rec.count('scribbled-arguments', overwrite())
                objs = [('system', r, mr), ('system', host, mhost)]
        except Exception as ex:
            import traceback
            rec.fail('an in-domain operation must not raise', f'{label}:exception', exception=ex, where=traceback.format_exc()[-800:], ops=chk.ops)
            continue
        for typ, real, model in objs:
            chk.ent(Ent(typ, real, model, cls), label, 'target')
        rec.count('arguments:compared', len(objs))

    # constructor forms ------------------------------------------------------------
    CT = ['default', 'single-pos', 'scalar-atype', 'inferred-from-atype', 'inferred-from-pos', 'refuse-atype-pos-lengths',
          'refuse-natoms', 'refuse-atype<1', 'refuse-prop-length', 'refuse-pos-dimension', 'refuse-atype-2d', 'len1-props']
    for i in ctx.cases('constructors', ctx.pick(96, 960)):
        rng = ctx.rng
        cls = CT[i % len(CT)]
        n = [1, 2, 3, 4, 6][(i // len(CT)) % 5]
        chk = Checker(rec, am)
        label = f'Atoms({cls})'
        pos1 = np.round(rng.uniform(-5, 5, 3), 4)
        posn = np.round(rng.uniform(-5, 5, (n, 3)), 4)
        at = rng.integers(1, 4, n)
        kw, mkw, mn, refuse = {}, {}, n, None
        if cls == 'default':
            mn = 1
        elif cls == 'single-pos':
            given = [None, n][i % 2] if n == 1 else n
            kw = dict(pos=pos1.copy() if i % 3 else pos1.tolist())
            if given is not None:
                kw['natoms'] = given
            mkw = dict(pos=pos1.reshape(1, 3))
        elif cls == 'scalar-atype':
            kw = dict(natoms=n, atype=2)
            mkw = dict(atype=2)
        elif cls == 'inferred-from-atype':
            kw = dict(atype=at.copy(), pos=pos1.reshape(1, 3))
            mkw = dict(atype=at, pos=pos1.reshape(1, 3))
        elif cls == 'inferred-from-pos':
            kw = dict(pos=posn.copy(), charge=0.5)
            mkw = dict(pos=posn, charge=0.5)
        elif cls == 'len1-props':
            kw = dict(natoms=n, atype=[3], pos=pos1.reshape(1, 3), vel=[[1.0, 2.0, 3.0]], tag=['ab'], flag=True)
            mkw = dict(atype=[3], pos=pos1.reshape(1, 3), vel=[[1.0, 2.0, 3.0]], tag=['ab'], flag=True)
        elif cls == 'refuse-atype-pos-lengths':
            kw = dict(atype=rng.integers(1, 3, n + 1), pos=np.zeros((n + 2, 3)))
            refuse = 'leading-length'
        elif cls == 'refuse-natoms':
            kw = dict(natoms=n + 1, atype=rng.integers(1, 3, n + 3))
            refuse = 'leading-length'
        elif cls == 'refuse-atype<1':
            bad = at.copy()
            bad[int(rng.integers(0, n))] = 0
            kw = dict(atype=bad, pos=posn.copy())
            refuse = 'atype<1'
        elif cls == 'refuse-prop-length':
            kw = dict(atype=at.copy(), pos=posn.copy(), charge=np.zeros(n + 1 if n > 1 else 2))
            refuse = 'leading-length'
        elif cls == 'refuse-pos-dimension':
            kw = dict(pos=np.zeros((n, 2)))
            refuse = 'pos-dimension'
        elif cls == 'refuse-atype-2d':
            kw = dict(atype=np.ones((n, 2), int))
            refuse = 'atype-dimension'
        chk.ops = [dict(op='Atoms(...)', cls=cls, natoms=n, kwargs=kw)]
        rec.case(('constructor', cls, n), nontrivial=cls != 'default', fp=fingerprint(cls, n, kw))
        a = exc = None
        try:
            a = am.Atoms(**kw)
        except Exception as ex:
            exc = ex
        rec.count('class:constructor:' + cls)
        if refuse is not None:
            rec.check(exc is not None, 'a constructor call the documentation refuses must raise', f'{label}:not-refused', ops=chk.ops)
            if exc is not None:
                rec.count('constructor:refused')
                rec.refusal(f'{label}:{type(exc).__name__}')
            continue
        if exc is not None:
            rec.fail('an in-domain constructor call must not raise', f'{label}:exception', exception=exc, ops=chk.ops)
            continue
        chk.atoms(a, M.MAtoms.build(mn, **mkw), label, 'target')
        rec.count('constructor:compared')

    # reach of the anchored code (per worker: did THIS worker execute the region / the anchored line?)
    for name, fsuffix, get, minimum in REACH:
        try:
            fn = get(am)
            fn = getattr(fn, '__vf_real__', fn)
            code_lines = sorted({ln for _, ln in dis.findlinestarts(fn.__code__) if ln and ln != fn.__code__.co_firstlineno})
            hit = sum(1 for ln in code_lines if cover.hit('atomman/core/' + fsuffix, ln))
            minimum = int(np.ceil(0.8 * len(code_lines)))
        except Exception:
            hit, minimum = 0, 1
        rec.count('reach-lines:' + name, hit)
        rec.count('reach:' + name, int(hit >= minimum))
        rec.floor('reach:' + name, 1)
    for name, fsuffix, snippet in ANCHORS:
        try:
            mod = am.core.Atoms if fsuffix == 'Atoms.py' else am.core.System
            lines = inspect.getsource(inspect.getmodule(mod)).splitlines()
        except Exception:
            lines = []
        where = [k + 1 for k, ln in enumerate(lines) if snippet in ln]
        if not where:
            rec.count('reach-anchor-missing:' + name)       # the line was rewritten: no floor rather than a false 'inconclusive'
            continue
        rec.count('reach:' + name, int(all(cover.hit('atomman/core/' + fsuffix, w) for w in where)))
        rec.floor('reach:' + name, 1)

    q = ctx.quick
    rec.floor('ops', 8000 if q else 200000)
    rec.floor('full-comparisons', 10000)
    rec.floor('constructor:compared', 40)
    rec.floor('constructor:refused', 40)
    rec.floor('agree:refused', 300)
    rec.floor('agree:performed', 3000)
    for r_ in ('leading-length', 'atype<1', 'mismatched-properties', 'fewer-values-than-natypes', 'atype-not-found', 'more-masses-than-natypes'):
        rec.floor('refused:' + r_, 10)
    rec.floor('refused:pbc-shape', 2)
    for c in O.INDEX_CLASSES + O.READ_ONLY_INDEX_CLASSES + ['a_id', 'none']:
        rec.floor('class:index:' + c, 10)
    rec.floor('class:prop_atype(atype):new-vector:natoms=3', 3)
    rec.floor('class:prop_atype_k:new-vector', 20)
    rec.floor('class:prop_atype_k:new-scalar', 10)
    rec.floor('class:prop_atype:new-vector', 10)
    rec.floor('class:set:existing-len1', 10)
    rec.floor('class:set:existing-scalar', 10)
    rec.floor('class:set:new-len1', 10)
    rec.floor('class:set:existing-cross', 10)
    rec.floor('class:atype_set:grow', 10)
    rec.floor('class:getitem:empty-result', 5)
    rec.floor('class:atoms_extend(scale):nadd!=nhost', 20)
    rec.floor('pbc-alias:judged', 50)
    rec.floor('class:atoms_extend(scale):nadd==nhost', 5)
    rec.floor('class:extend:new-str-property', 20)
    rec.floor('observed:getitem-shares-storage', 50)
    rec.floor('observed:getitem-copies', 50)
    rec.floor('scribbled-results', 200)
    rec.floor('results-kept', 500)
    # round 4: state leaking between instances, arguments reused by the caller, results kept by the caller, input forms
    for path in O.ATOMS_PATHS + O.SYSTEM_PATHS:
        rec.floor('class:default-path:' + path, 20)
    for form in O.EDIT_FORMS:
        rec.floor('class:default-edit:' + '/'.join(str(x) for x in form[:3]), 12)
    rec.floor('defaults:in-place-edit-of-a-defaulted-property:natoms=1', 200)
    rec.floor('defaults:in-place-edit-of-a-defaulted-property:natoms>1', 100)
    rec.floor('defaults:witness-comparisons', 10000)
    rec.floor('defaults:built-after-comparisons', 2000)
    rec.floor('defaults:histories-completed', 300)
    for c in AR:
        rec.floor('class:arguments:' + c, 10)
    rec.floor('arguments:compared', 100)
    rec.floor('scribbled-arguments', 2000)
    rec.floor('arguments-direct-setting-allowed', 20)
    rec.floor('kept-results-rejudged', 20000)
    rec.floor('repeated-reads', 500)
    for g in ('list', 'tuple', 'ndarray', 'scalar', 'narrow:float32', 'narrow:int32', 'narrow:int16', 'narrow:int8'):
        rec.floor('class:given:' + g, 20)
    rec.floor('op:raw_write', 100)
    for lab in ('attr_set', 'view_set', 'prop_set', 'prop_write', 'setitem', 'prop(index,Atoms)', 'atoms_ix_set', 'atoms_ix_set(System)',
                'atoms_prop(index,Atoms)', 'atoms_prop(index,Atoms,scale)', 'prop_atype', 'prop_atype(atype)', 'extend(int)', 'extend(Atoms)',
                'getitem', 'atoms_ix_get', 'deepcopy(Atoms)', 'deepcopy(System)', 'df', 'atoms_df', 'atoms_df(scale)', 'atoms_prop_get',
                'atoms_prop_get(scale)', 'atoms_prop_set', 'atoms_prop_set(scale)', 'atoms_extend(Atoms)', 'atoms_extend(int)',
                'atoms_extend(Atoms,scale)', 'symbols_set', 'masses_set', 'pbc_set', 'prop_get',
                'prop(index)'):
        rec.floor('op:' + lab, 5)
