"""C07 - Written LAMMPS data/dump and POSCAR files are well-formed and describe the system.

Observer: every file ``System.dump`` writes is re-read by the independent
parsers of ``vf/oracle/c07_formats.py`` (format manuals) and compared with the
system the file was written for, values converted with the independent unit
table ``vf/oracle/c07_units.py``.
"""
from __future__ import annotations

import copy
import io
import os
import shutil
import tempfile

import numpy as np

from ..core import fingerprint
from ..gen import c07_systems as S
from ..gen import cells
from ..oracle import c07_formats as F
from ..oracle import c07_units as U
from ..oracle import geometry as G
from .. import cover

RULE = ('classes are enumerated round-robin by case index: data files = 21 atom styles (18 plain + 3 hybrid) x 8 unit '
        'styles, crossed with 4 float formats, 8 LAMMPS-compatible cell kinds x 3 origin classes, 8 pbc settings, '
        '4 position classes (inside / outside / exactly on faces / tens of cells away), 4 type classes, velocities '
        'on/off, 3 output modes; dump files = 8 unit styles x 7 column variants (default, x, xs, xu, xsu, mixed '
        'standard, all position variants) x carried ids; POSCAR = 6 coordinate-mode spellings x 3 scale factors x 3 '
        'symbol sources x 4 type classes x 9 cell kinds (incl. rotated). A case is non-trivial when the file was '
        'written, parsed and compared; distinct = distinct fingerprint of (cell, positions, types, class).')
ASSUMPTIONS = [
    'default working units (angstrom, amu, eV, e); the per-atom numbers held by the System are in these units',
    'unit factors from hand-entered CODATA-2022/SI values and the LAMMPS manual unit tables; 3e-9 relative slack for '
    'CODATA-edition differences (1e-5 for the electron-style velocity whose time unit the manual prints with 6 figures)',
    'Atoms-section layouts from the read_data manual; for template and smd, whose published layout changed between '
    'manual editions, either published layout is accepted',
    'columns for which the manual gives no unit (rho, esph, cv, cs_re, cs_im) are compared unconverted',
    'the density column uses the "density" unit of the unit style (units page), as atomman does',
    'a fixed-point float format is only combined with a unit style in which the shortest cell edge is >= 100 printed '
    'units; otherwise the exponent format of the same precision class is used (counted as format-swapped)',
    'non-periodic directions may be enlarged along their own cell vector when an atom lies outside or on that face '
    '(documented normalisation of dump(atom_data)); otherwise the written cell must equal the system cell',
    'POSCAR carries no origin: Cartesian coordinates may equal the absolute positions or positions minus the cell origin',
    'dump(atom_data, potential=...) is not exercised (needs a potentials record)',
]

FORMATS = ['%.13f', '%.6f', '%.16e', '%.5e']
EXP_OF = {'%.13f': '%.16e', '%.6f': '%.5e'}
UNITS = list(U.STYLES)
PLAIN_STYLES = ['atomic', 'charge', 'full', 'molecular', 'angle', 'bond', 'body', 'dipole', 'electron', 'ellipsoid',
                'line', 'meso', 'peri', 'smd', 'sphere', 'template', 'tri', 'wavepacket']
HYBRID_STYLES = ['hybrid charge sphere', 'hybrid sphere dipole', 'hybrid bond ellipsoid']
ATOM_STYLES = PLAIN_STYLES + HYBRID_STYLES
OUTMODES = ['string', 'path', 'filelike']

# ---- interface map: manual column name -> (atomman per-atom property, component) ----------------
DATA_PROP = {
    'mol': ('m_id', None), 'type': ('atype', None), 'q': ('charge', None),
    'x': ('pos', 0), 'y': ('pos', 1), 'z': ('pos', 2),
    'mux': ('mu', 0), 'muy': ('mu', 1), 'muz': ('mu', 2),
    'bodyflag': ('bflag', None), 'mass': ('mass', None), 'espin': ('espin', None), 'eradius': ('eradius', None),
    'ellipsoidflag': ('eflag', None), 'density': ('density', None), 'lineflag': ('lflag', None),
    'rho': ('rho', None), 'esph': ('e', None), 'cv': ('cv', None), 'volume': ('volume', None),
    'kradius': ('kradius', None), 'cradius': ('cradius', None), 'diameter': ('diameter', None),
    'template_index': ('m_template', None), 'template_atom': ('a_template', None),
    'triangleflag': ('tflag', None), 'etag': ('e_id', None), 'cs_re': ('cs_re', None), 'cs_im': ('cs_im', None),
    'vx': ('velocity', 0), 'vy': ('velocity', 1), 'vz': ('velocity', 2), 'ervel': ('eradial_velocity', None),
    'lx': ('ang_momentum', 0), 'ly': ('ang_momentum', 1), 'lz': ('ang_momentum', 2),
    'wx': ('ang_velocity', 0), 'wy': ('ang_velocity', 1), 'wz': ('ang_velocity', 2),
}
POSITIVE = {'mass', 'eradius', 'density', 'volume', 'kradius', 'cradius', 'diameter', 'rho', 'cv', 'radius', 'mu_mag'}
# dump-file attribute -> atomman property (standard attributes of "dump custom")
DUMP_PROP = {
    'id': ('atom_id', None), 'mol': ('m_id', None), 'type': ('atype', None), 'mass': ('mass', None),
    'x': ('pos', 0), 'y': ('pos', 1), 'z': ('pos', 2),
    'vx': ('velocity', 0), 'vy': ('velocity', 1), 'vz': ('velocity', 2),
    'fx': ('force', 0), 'fy': ('force', 1), 'fz': ('force', 2), 'q': ('charge', None),
    'mux': ('mu', 0), 'muy': ('mu', 1), 'muz': ('mu', 2), 'mu': ('mu_mag', None),
    'radius': ('radius', None), 'diameter': ('diameter', None),
    'omegax': ('ang_velocity', 0), 'omegay': ('ang_velocity', 1), 'omegaz': ('ang_velocity', 2),
    'angmomx': ('ang_momentum', 0), 'angmomy': ('ang_momentum', 1), 'angmomz': ('ang_momentum', 2),
    'tqx': ('torque', 0), 'tqy': ('torque', 1), 'tqz': ('torque', 2),
}
DUMP_STD_PROPS = {  # atomman property -> shape, for the 'mixed' column variant
    'velocity': (3,), 'force': (3,), 'charge': (), 'mu': (3,), 'mu_mag': (), 'radius': (), 'diameter': (),
    'ang_velocity': (3,), 'ang_momentum': (3,), 'torque': (3,), 'mass': (), 'm_id': (),
}

EPS = 1e-13


# =======================================================================================
# small helpers
# =======================================================================================
class Checks:
    """Collects (ok, clause, key, detail) so that alternative readings of one file can be
    evaluated before anything is recorded."""

    def __init__(self):
        self.items = []

    def add(self, ok, clause, key, **detail):
        self.items.append((bool(ok), clause, key, detail))
        return bool(ok)

    def close(self, got, ulp, exp, rel, clause, key, extra=0.0, **detail):
        got, exp = np.asarray(got, float), np.asarray(exp, float)
        if got.shape != exp.shape:
            return self.add(False, clause, key, why='shape', got_shape=got.shape, exp_shape=exp.shape, **detail)
        tol = 0.5 * np.asarray(ulp, float) * (1 + 1e-9) + rel * np.abs(exp) + extra
        err = np.abs(got - exp)
        bad = ~(err <= tol)
        if bad.any():
            return self.add(False, clause, key, max_err=float(np.nanmax(err[bad])), tol=float(np.max(tol[bad]) if np.ndim(tol) else tol),
                            got=got[bad][:4], expected=exp[bad][:4], n_bad=int(bad.sum()), **detail)
        return self.add(True, clause, key)

    @property
    def nfail(self):
        return sum(1 for it in self.items if not it[0])

    def emit(self, rec, rekey=None):
        for ok, clause, key, detail in self.items:
            rec.check(ok, clause, (rekey or key) if not ok else key, **detail)


def pick_format(i_fmt, min_edge_file_units):
    fmt = FORMATS[i_fmt % 4]
    swapped = False
    kind, p = F.format_shape(fmt)
    if kind == 'f' and min_edge_file_units < 100 * 10.0 ** (-p):
        fmt, swapped = EXP_OF[fmt], True
    return fmt, swapped


def check_token_shapes(chk, tokens, fmt, clause, key):
    want = F.format_shape(fmt)
    bad = [t for t in tokens if F.token_shape(t) != want]
    chk.add(not bad, clause, key, float_format=fmt, offending=bad[:4])


def build_system(am, desc, props, symbols='system'):
    atoms = am.Atoms(atype=np.array(desc['atype']), pos=np.array(desc['pos']))
    for name, val in props.items():
        atoms.view[name] = np.array(val)
    box = am.Box(vects=np.array(desc['vects']), origin=np.array(desc['origin']))
    kw = {}
    if symbols == 'system':
        kw['symbols'] = list(desc['symbols'])
    return am.System(atoms=atoms, box=box, pbc=desc['pbc'], **kw)


def truth_of(system):
    t = dict(V=np.array(system.box.vects, float), o=np.array(system.box.origin, float),
             X=np.array(system.atoms.pos, float), pbc=[bool(b) for b in system.pbc],
             atype=np.array(system.atoms.atype, int), N=int(system.natoms), natypes=int(system.natypes),
             symbols=tuple(system.symbols), props={})
    for k in system.atoms_prop():
        if k not in ('atype', 'pos'):
            t['props'][k] = np.array(system.atoms.view[k])
    return t


def write(tmpdir, tag, mode, call):
    """call(f) -> what dump returned.  -> (result, path): for mode 'string' result is dump's return value,
    otherwise (text read back from the path / file-like object, dump's return value)."""
    if mode == 'string':
        return call(None), None
    if mode == 'path':
        path = os.path.join(tmpdir, f'{tag}.out')
        r = call(path)
        with open(path, encoding='UTF-8') as fh:
            return (fh.read(), r), path
    buf = io.StringIO()
    r = call(buf)
    return (buf.getvalue(), r), None


def boundary_ok(flags, pbc):
    """LAMMPS 'boundary' arguments: one or two letters of p/f/s/m per direction, p only as 'p' (both faces)."""
    if len(flags) != 3:
        return False
    for x, per in zip(flags, pbc):
        if len(x) not in (1, 2) or not set(x) <= set('pfsm') or ('p' in x and x != 'p'):
            return False
        if (x == 'p') != bool(per):
            return False
    return True


def prop_component(truth, pname, comp):
    if pname == 'atype':
        v = truth['atype']
    elif pname == 'pos':
        v = truth['X']
    else:
        v = truth['props'][pname]
    return v if comp is None else v[:, comp]


# =======================================================================================
# LAMMPS data files
# =======================================================================================
def data_classes(i):
    p = i % (len(ATOM_STYLES) * len(UNITS))
    r = i // (len(ATOM_STYLES) * len(UNITS))
    return dict(
        style=ATOM_STYLES[p % len(ATOM_STYLES)], units=UNITS[p // len(ATOM_STYLES)],
        ifmt=(i + r) % 4,
        kind=S.LAMMPS_KINDS[(i // 2 + r) % len(S.LAMMPS_KINDS)],
        origin=cells.ORIGINS[(i // 5 + r) % 3],
        pbc=cells.PBCS[(7 - (i * 3 + i // 8 + r) % 8)],
        posclass=S.POS_CLASSES[(i // 3 + i + r) % 4],
        typeclass=S.TYPE_CLASSES[(i // 7 + r) % 4],
        vel=bool((i + i // 4) % 2),
        outmode=OUTMODES[(i + i // 9) % 3],
        defaults=(i % 23 == 11),                 # call without atom_style/units (documented defaults)
        natypes_extra=(2 if i % 11 == 3 else 0),
        safecopy=bool((i // 2) % 2),
        scale=[1.0, 12.0][(i // 13) % 2],
    )


def style_props(rng, style, n, vel):
    """Per-atom properties (atomman names) a style's columns need."""
    props = {}
    cols = F.atom_style_layouts(style)[-1]            # the legacy layout is the one without x0 y0 z0
    vcols = F.velocity_layout(style)[1:] if vel else []
    for c in list(cols) + list(vcols):
        if c in ('id', 'type', 'x', 'y', 'z', 'x0', 'y0', 'z0'):
            continue
        pname, comp = DATA_PROP[c]
        if pname in props:
            continue
        if c in F.INT_COLUMNS:
            props[pname] = S.gen_values(rng, n, (), 'int')
        else:
            props[pname] = S.gen_values(rng, n, () if comp is None else (3,), 'float', positive=pname in POSITIVE)
    return props


def parse_info(text):
    """LAMMPS input-script snippet -> {command: [args]} and command order."""
    cmds, order = {}, []
    for line in text.split('\n'):
        body = line.split('#', 1)[0].strip()
        if not body:
            continue
        w = body.split()
        cmds.setdefault(w[0], w[1:])
        order.append(w[0])
    return cmds, order


def check_data_file(rec, cls, truth, text, info, path, units, style, fmt, natypes_req):
    """All clauses of the property for one data file.  Returns True when the comparison was complete."""
    K = 'data'
    rekey = None            # (was: hybrid styles with non-metal units re-keyed while defect G1 stood; repaired in /repo 6c4bf16)
    try:
        d = F.parse_lammps_data(text)
    except F.FormatError as e:
        rec.fail('data file is well-formed (header/sections) under the read_data rules', f'{K}:wellformed:{e.code}',
                 error=e, head=text[:400])
        return False
    rec.count('monitor:data:parsed')
    N = truth['N']
    fL = U.factor(units, 'length')
    sL = U.slack(units, 'length')
    # ---- header / counts ---------------------------------------------------------------
    rec.check(d.natoms == N, 'data header: atoms count equals the number of atoms', f'{K}:count:atoms', got=d.natoms, exp=N)
    exp_nt = natypes_req if natypes_req is not None else truth['natypes']
    rec.check(d.natypes == exp_nt, 'data header: atom types equals the (requested) number of types', f'{K}:count:atom-types',
              got=d.natypes, exp=exp_nt)
    rec.check(d.section_order[:1] == ['Atoms'] and set(d.section_order) <= {'Atoms', 'Velocities'},
              'data sections: Atoms first, then Velocities only', f'{K}:sections', got=d.section_order)
    rec.check(d.atom_style == style, 'Atoms section comment names the atom style used', f'{K}:style-comment',
              got=d.atom_style, exp=style)
    rec.check(bool((d.lohi[:, 0] < d.lohi[:, 1]).all()), 'written bounds satisfy lo < hi', f'{K}:lohi', lohi=d.lohi)
    # ---- tilt line iff a tilt != 0 -------------------------------------------------------
    V, o, pbc = truth['V'], truth['o'], truth['pbc']
    tilts = np.array([V[1, 0], V[2, 0], V[2, 1]])
    has = bool((tilts != 0).any())
    rec.check(d.has_tilt == has, 'tilt line present iff a tilt factor is non-zero', f'{K}:tilt-line',
              has_tilt_line=d.has_tilt, system_tilts=tilts)
    if has:
        rec.count('data:triclinic')
        if (tilts == 0).any():
            rec.count('data:triclinic-some-zero-tilts')
    # ---- cell ----------------------------------------------------------------------------
    Vf, of_ = d.vects(), d.origin()                       # file units
    Vu = d.vects_ulp()
    Vw, ow = Vf / fL, of_ / fL                            # back in working units
    chk = Checks()
    rel_true = G.rel(truth['X'], V, o)
    M = np.linalg.inv(V)                                  # rel = (x - o) @ M
    lo_err = (0.5 * d.lohi_ulp[:, 0] / fL + sL * np.abs(ow) + EPS * (np.abs(o) + truth_L(V)))
    m = (ow - o) @ M                                      # lower corner of the written box in system-relative coords
    tol_m = lo_err @ np.abs(M) + 1e-12
    for ax in range(3):
        row_tol = 0.5 * Vu[ax] / fL + sL * np.abs(V[ax]) + EPS * truth_L(V)
        if pbc[ax]:
            chk.close(Vw[ax], 0, V[ax], 0, 'cell vector of a periodic direction equals the system cell vector',
                      f'{K}:cell:periodic', extra=row_tol, axis=ax)
            chk.add(abs(m[ax]) <= tol_m[ax], 'box origin is unchanged along periodic directions', f'{K}:cell:origin',
                    axis=ax, shift=m[ax], tol=tol_m[ax])
        else:
            t = Vw[ax, ax] / V[ax, ax]
            tol_t = (row_tol[ax] / V[ax, ax])
            # t itself is known to tol_t only (it is a ratio of printed numbers): propagate into every component
            chk.close(Vw[ax], 0, t * V[ax], 0, 'cell vector of a non-periodic direction stays parallel to the system vector',
                      f'{K}:cell:nonperiodic:parallel', extra=row_tol * max(1.0, t) + tol_t * np.abs(V[ax]), axis=ax)
            lo_need, hi_need = rel_true[:, ax].min(), rel_true[:, ax].max()
            upper = m[ax] + t
            tol_u = tol_m[ax] + tol_t
            ok_lo = (m[ax] <= tol_m[ax]) and (abs(m[ax]) <= tol_m[ax] or lo_need <= 1e-9)
            ok_hi = (upper >= 1 - tol_u) and (abs(upper - 1) <= tol_u or hi_need >= 1 - 1e-9)
            chk.add(ok_lo and ok_hi, 'non-periodic direction: written box contains the system box and is enlarged only when '
                    'an atom lies outside or on that face', f'{K}:cell:nonperiodic:extent', axis=ax, lower=m[ax], upper=upper,
                    atoms_min=lo_need, atoms_max=hi_need)
            if abs(m[ax]) > tol_m[ax] or abs(upper - 1) > tol_u:
                rec.count('data:nonperiodic-enlarged')
    chk.emit(rec, rekey)
    # ---- Atoms table under each published layout -------------------------------------------
    layouts = F.atom_style_layouts(style)
    best = None
    for li in range(len(layouts)):
        c = Checks()
        try:
            t = d.atoms_table(style, li)
        except F.FormatError as e:
            c.add(False, 'Atoms section is well-formed for its atom style', f'{K}:wellformed:{e.code}', error=e, layout=layouts[li])
            t = None
        if t is not None:
            compare_atoms(c, rec, d, t, truth, units, fmt, Vf, Vu, of_, fL, sL, count=False)
        if best is None or c.nfail < best[0].nfail:
            best = (c, t, li)
    c, t, li = best
    if t is not None:                                    # re-run the winner with counters on
        c = Checks()
        compare_atoms(c, rec, d, t, truth, units, fmt, Vf, Vu, of_, fL, sL, count=True)
    rec.count(f'data:layout:{li}')
    c.emit(rec, rekey)
    complete = t is not None
    # ---- Velocities ----------------------------------------------------------------------
    has_v = 'velocity' in truth['props']
    rec.check(('Velocities' in d.sections) == has_v, 'Velocities section present iff the system has velocities',
              f'{K}:velocities:present', present='Velocities' in d.sections, system_has=has_v)
    if has_v and 'Velocities' in d.sections:
        c = Checks()
        try:
            v = d.velocities_table(style)
        except F.FormatError as e:
            c.add(False, 'Velocities section is well-formed for its atom style', f'{K}:wellformed:velocities:{e.code}', error=e)
            v = None
        if v is not None:
            rec.count('monitor:data:velocities')
            ids = v.ids
            okid = sorted(ids.tolist()) == list(range(1, N + 1))
            c.add(okid, 'Velocities ids are exactly 1..N', f'{K}:velocities:ids', ids=ids[:8])
            if okid:
                order = ids - 1
                compare_columns(c, rec, v, v.columns[1:], order, truth, units, 'data', DATA_PROP, F.COLUMN_QUANTITY, True)
                ftoks = [tok for row in v.tokens for tok, col in zip(row, v.columns) if col != 'id']
                check_token_shapes(c, ftoks, fmt, 'Velocities numbers are printed with the requested float_format',
                                   f'{K}:format:velocities')
        c.emit(rec, rekey)
    # ---- header number format -------------------------------------------------------------
    c = Checks()
    check_token_shapes(c, d.float_tokens, fmt, 'box numbers are printed with the requested float_format', f'{K}:format:box')
    c.emit(rec)
    # ---- info snippet ------------------------------------------------------------------------
    if info is not None:
        rec.count('monitor:data:info')
        cmds, order = parse_info(info)
        rec.check(cmds.get('units') == [units], 'info snippet names the unit style used', f'{K}:info:units',
                  got=cmds.get('units'), exp=units)
        rec.check(cmds.get('atom_style') == style.split(), 'info snippet names the atom style used', f'{K}:info:atom_style',
                  got=cmds.get('atom_style'), exp=style)
        b = cmds.get('boundary') or []
        rec.check(boundary_ok(b, pbc), 'info snippet boundary flags: p for periodic, f/s/m for non-periodic directions', f'{K}:info:boundary',
                  got=b, pbc=pbc)
        if path is not None:
            rec.count('data:info:path')
            rec.check(cmds.get('read_data', [None])[0] == path and order and order[-1] == 'read_data',
                      'info snippet reads the file that was written (read_data <path> after units/atom_style/boundary)',
                      f'{K}:info:read_data', got=cmds.get('read_data'), exp=path, order=order)
    return complete


def truth_L(V):
    return float(np.abs(V).sum(axis=1).max())


def compare_atoms(c, rec, d, t, truth, units, fmt, Vf, Vu, of_, fL, sL, count):
    K = 'data'
    N = truth['N']
    pbc = truth['pbc']
    ids = t.ids
    okid = len(set(ids.tolist())) == len(ids) and sorted(ids.tolist()) == list(range(1, N + 1))
    c.add(okid, 'atom ids are unique and exactly 1..N', f'{K}:ids', ids=ids[:8], N=N)
    if not okid or t.natoms != N:
        return
    order = ids - 1                                       # row r describes atom order[r]
    types = t.types
    c.add(bool((types == truth['atype'][order]).all()), 'atom types equal the system types', f'{K}:types',
          got=types[:8], exp=truth['atype'][order][:8])
    nt = d.natypes if d.natypes is not None else 0
    c.add(bool(((types >= 1) & (types <= nt)).all()), 'every type lies in 1..(atom types of the header)', f'{K}:count:type-range',
          types=types[:8], natypes=nt)
    # --- image flags / inside / reconstruct (all in file units first) ------------------------
    x = t.xyz
    xu = t.colulps(['x', 'y', 'z'])
    img = t.image if t.image is not None else np.zeros((N, 3), int)
    if count:
        rec.count('monitor:data:atoms-table')
        if t.image is not None:
            rec.count('data:with-image-flags')
        if np.abs(img).max(initial=0) >= 2:
            rec.count('data:flags>=2')
    nonp = [ax for ax in range(3) if not pbc[ax]]
    c.add(bool((img[:, nonp] == 0).all()), 'image flags are zero in non-periodic directions', f'{K}:flags-nonperiodic',
          flags=img[:4])
    Mi = np.linalg.inv(Vf)
    rel_f = (x - of_) @ Mi
    err = 0.5 * (xu + d.lohi_ulp[:, 0] + d.lohi_ulp[:, 1] + d.tilt_ulp.sum()) * (1 + np.abs(rel_f).max(initial=0)) \
        + 1e-12 * (np.abs(x).max(initial=0) + np.abs(of_).max())
    tol_rel = err @ np.abs(Mi) + 1e-9 * (1 + np.abs(of_).max() / np.abs(Vf).max())
    inside = (rel_f >= -tol_rel) & (rel_f <= 1 + tol_rel)
    c.add(bool(inside.all()), 'every atom of a data file lies within the written bounds', f'{K}:inside',
          worst_rel=rel_f[~inside.all(axis=1)][:3], tol=tol_rel.max(initial=0), pbc=pbc)
    if count:
        onface = (np.abs(rel_f) <= 1e-6) | (np.abs(rel_f - 1) <= 1e-6)
        rec.count('data:atoms-checked-inside', N)
        rec.count('data:atoms-written-on-a-face', int(onface.any(axis=1).sum()))
    # reconstruct: x + ix*a' + iy*b' + iz*c' with the FILE's vectors, then to working units
    un = t.unwrapped(Vf)
    un_ulp = xu + np.abs(img) @ Vu
    X = truth['X'][order]
    mag = np.abs(X) + np.abs(img) @ np.abs(truth['V'])
    c.close(un / fL, un_ulp / fL, X, 0, 'positions after applying the image flags equal the system positions', f'{K}:reconstruct',
            extra=sL * mag + EPS * (mag + np.abs(truth['o']).max() + truth_L(truth['V'])), flags=img[:3])
    # --- all other columns ------------------------------------------------------------------------
    other = [col for col in t.columns if col not in ('id', 'type', 'x', 'y', 'z')]
    compare_columns(c, rec if count else None, t, other, order, truth, units, 'data', DATA_PROP, F.COLUMN_QUANTITY, count)
    ftoks = []
    for row in t.tokens:
        for tok, col in zip(row, t.columns):
            if col not in F.INT_COLUMNS:
                ftoks.append(tok)
    check_token_shapes(c, ftoks, fmt, 'Atoms numbers are printed with the requested float_format', f'{K}:format:atoms')


def compare_columns(c, rec, table, cols, order, truth, units, K, propmap, quantities, count):
    for col in cols:
        if col not in propmap:
            c.add(False, 'every column of the layout is backed by a system property', f'{K}:column:unmapped', column=col)
            continue
        pname, comp = propmap[col]
        q = quantities.get(col)
        try:
            exp = prop_component(truth, pname, comp)[order]
        except KeyError:
            c.add(False, 'every column of the layout is backed by a system property', f'{K}:column:missing-prop', column=col, prop=pname)
            continue
        if not U.defined(units, q):
            if rec is not None:
                rec.count('skipped:undefined-unit')
            continue
        f = U.factor(units, q)
        sl = U.slack(units, q)
        if np.issubdtype(np.asarray(exp).dtype, np.integer):
            c.add(bool(table.isint[:, table.columns.index(col)].all()) and bool((table.col(col) == exp).all()),
                  'integer columns are printed as integers and equal the system values', f'{K}:value:int:{col}',
                  got=table.col(col)[:6], exp=exp[:6])
        else:
            c.close(table.col(col), table.ulp(col), exp * f, sl,
                    f'column values equal the system values converted to the unit style ({q or "no unit"})',
                    f'{K}:value:{q or "plain"}:{units}', column=col, units=units, factor=f)
        if rec is not None and count:
            rec.count(f'monitor:{K}:column-compared')
            if q is not None and units != 'lj':
                rec.count(f'{K}:converted:{q}')


def run_data(ctx, am, tmpdir, n):
    rec = ctx.rec
    for i in ctx.cases('data', n):
        rng = ctx.rng
        cls = data_classes(i)
        style, units = cls['style'], cls['units']
        if cls['defaults']:
            style, units = 'atomic', 'metal'
        natoms = int(rng.integers(4, 13))
        desc = S.gen_system(rng, cls['kind'], cls['origin'], cls['scale'], cls['pbc'], natoms, cls['posclass'], cls['typeclass'])
        props = style_props(rng, style, natoms, cls['vel'])
        fL = U.factor(units, 'length')
        min_edge = min(desc['vects'][k, k] for k in range(3)) * fL
        fmt, swapped = pick_format(cls['ifmt'], min_edge)
        if swapped:
            rec.count('format-swapped')
        system = build_system(am, desc, props)
        truth = truth_of(system)
        natypes_req = truth['natypes'] + cls['natypes_extra'] if cls['natypes_extra'] else None
        sig = ('data', style, units, fmt, cls['kind'], cls['origin'], 'pbc%d%d%d' % tuple(cls['pbc']), cls['posclass'],
               cls['typeclass'], 'vel' if cls['vel'] else 'novel', cls['outmode'])
        kw = dict(float_format=fmt)
        if not cls['defaults']:
            kw.update(atom_style=style, units=units)
        else:
            rec.count('data:defaults-call')
        if natypes_req is not None:
            kw['natypes'] = natypes_req
        if cls['safecopy']:
            kw['safecopy'] = True
            arg = system
        else:
            arg = copy.deepcopy(system)                      # the writer wraps its argument in place
        allcols = F.atom_style_layouts(style)[-1] + (F.velocity_layout(style) if cls['vel'] else [])
        undefined = any(not U.defined(units, F.COLUMN_QUANTITY[c_]) for c_ in allcols if c_ in F.COLUMN_QUANTITY)
        wkey = 'data:write'
        accept = ()
        if undefined:
            accept = (KeyError,)                             # LAMMPS defines no such unit for this style: refusal accepted
            rec.count('data:undefined-unit-class')
        out, path = None, None
        with ctx.guard('dump(atom_data) writes a file for every supported atom style and unit style', wkey, accept=accept):
            out, path = write(tmpdir, f'data{i}', cls['outmode'], lambda f: am.dump('atom_data', arg, f=f, **kw)
                              if i % 2 else arg.dump('atom_data', f=f, **kw))
        rec.count('data:style:' + ('hybrid' if style.startswith('hybrid') else style))
        rec.count('data:units:' + units)
        rec.count('data:pos:' + cls['posclass'])
        rec.count('data:fmt:' + fmt)
        if out is None:
            rec.case(sig, nontrivial=False)
            continue
        text, info = out                                     # (content, info) in every output mode
        ok = check_data_file(rec, cls, truth, text, info, path, units, style, fmt, natypes_req)
        if cls['safecopy']:
            rec.check(np.array_equal(system.atoms.pos, truth['X']) and np.array_equal(system.box.vects, truth['V']),
                      'safecopy=True leaves the argument unwrapped', 'data:safecopy')
        rec.case(sig, nontrivial=ok, fp=fingerprint(desc['vects'], desc['origin'], desc['pos'], desc['atype'], sig))
        if i < 24:
            rec.sample(dict(kind='atom_data', style=style, units=units, float_format=fmt, pbc=cls['pbc'], posclass=cls['posclass'],
                            file=text[:700]))


# =======================================================================================
# LAMMPS dump files
# =======================================================================================
DUMP_VARIANTS = ['default', 'x', 'xs', 'xu', 'xsu', 'mixed', 'allpos']


def dump_classes(i):
    p = i % (len(DUMP_VARIANTS) * len(UNITS))
    r = i // (len(DUMP_VARIANTS) * len(UNITS))
    return dict(
        variant=DUMP_VARIANTS[p % len(DUMP_VARIANTS)], units=UNITS[p // len(DUMP_VARIANTS)],
        ifmt=(i + r) % 4,
        kind=S.LAMMPS_KINDS[(i // 3 + r) % len(S.LAMMPS_KINDS)],
        origin=cells.ORIGINS[(i // 5 + r) % 3],
        pbc=cells.PBCS[(i * 5 + i // 8 + r) % 8],
        posclass=S.POS_CLASSES[(i // 2 + i + r) % 4],
        typeclass=S.TYPE_CLASSES[(i // 7 + r) % 4],
        carried_ids=bool((i // 2 + i // 14) % 2),
        outmode=OUTMODES[(i + i // 9) % 3],
        scale=[1.0, 12.0][(i // 13) % 2],
        return_prop_info=bool(i % 5 == 2),
    )


def run_dumpfile(ctx, am, tmpdir, n):
    rec = ctx.rec
    for i in ctx.cases('dumpfile', n):
        rng = ctx.rng
        cls = dump_classes(i)
        units, variant = cls['units'], cls['variant']
        natoms = int(rng.integers(4, 13))
        desc = S.gen_system(rng, cls['kind'], cls['origin'], cls['scale'], cls['pbc'], natoms, cls['posclass'], cls['typeclass'])
        props = {}
        if cls['carried_ids']:
            props['atom_id'] = rng.permutation(natoms) * int(rng.integers(1, 4)) + int(rng.integers(1, 50))
        if variant in ('default', 'mixed'):
            names = list(DUMP_STD_PROPS)
            take = [names[(i + j * 5) % len(names)] for j in range(4)]
            for pname in dict.fromkeys(take):
                if pname == 'torque' and not U.defined(units, 'torque'):
                    continue
                shp = DUMP_STD_PROPS[pname]
                props[pname] = S.gen_values(rng, natoms, shp, 'int' if pname == 'm_id' else 'float', positive=pname in POSITIVE)
            if variant == 'default':
                props['stress'] = S.gen_values(rng, natoms, (3, 3))
                props['pe'] = S.gen_values(rng, natoms, ())
                props['grain'] = S.gen_values(rng, natoms, (), 'int')
        fL = U.factor(units, 'length')
        fmt, swapped = pick_format(cls['ifmt'], min(desc['vects'][k, k] for k in range(3)) * fL)
        if swapped:
            rec.count('format-swapped')
        system = build_system(am, desc, props)
        truth = truth_of(system)
        kw = dict(lammps_units=units, float_format=fmt)
        if variant == 'default':
            pass
        elif variant == 'mixed':
            kw['prop_name'] = ['atom_id', 'atype', 'spos'] + [k for k in props if k != 'atom_id']
        elif variant == 'allpos':
            kw['prop_name'] = ['atom_id', 'atype', 'pos', 'spos', 'upos', 'supos']
        else:
            kw['prop_name'] = ['atom_id', 'atype', {'x': 'pos', 'xs': 'spos', 'xu': 'upos', 'xsu': 'supos'}[variant]]
        if cls['return_prop_info']:
            kw['return_prop_info'] = True
        sig = ('dumpfile', variant, units, fmt, cls['kind'], cls['origin'], 'pbc%d%d%d' % tuple(cls['pbc']), cls['posclass'],
               'ids' if cls['carried_ids'] else 'noids', cls['outmode'])
        wkey = 'dumpfile:write:lj' if units == 'lj' else 'dumpfile:write'
        out, path = None, None
        with ctx.guard('dump(atom_dump) writes a file for every unit style', wkey):
            out, path = write(tmpdir, f'dump{i}', cls['outmode'], lambda f: system.dump('atom_dump', f=f, **kw))
        rec.count('dumpfile:units:' + units)
        rec.count('dumpfile:variant:' + variant)
        if out is None:
            rec.case(sig, nontrivial=False)
            continue
        rec.check(np.array_equal(system.atoms.pos, truth['X']), 'dump(atom_dump) does not move the atoms', 'dumpfile:unmoved')
        if cls['outmode'] == 'string':
            text = out[0] if cls['return_prop_info'] else out
        else:
            text = out[0]
        ok = check_dump_file(rec, truth, text, units, fmt, variant)
        rec.case(sig, nontrivial=ok, fp=fingerprint(desc['vects'], desc['origin'], desc['pos'], desc['atype'], sig))
        if i < 24:
            rec.sample(dict(kind='atom_dump', variant=variant, units=units, float_format=fmt, pbc=cls['pbc'], file=text[:700]))


def check_dump_file(rec, truth, text, units, fmt, variant):
    K = 'dumpfile'
    try:
        snaps = F.parse_lammps_dump(text)
    except F.FormatError as e:
        rec.fail('dump file is well-formed (ITEM blocks, counts, boundary flags)', f'{K}:wellformed:{e.code}', error=e, head=text[:400])
        return False
    rec.count('monitor:dumpfile:parsed')
    s = snaps[0]
    N = truth['N']
    V, o, pbc = truth['V'], truth['o'], truth['pbc']
    fL, sL = U.factor(units, 'length'), U.slack(units, 'length')
    rec.check(len(snaps) == 1, 'one snapshot per written system', f'{K}:snapshots', n=len(snaps))
    rec.check(s.natoms == N, 'NUMBER OF ATOMS equals the number of atoms (and of atom lines)', f'{K}:count:atoms', got=s.natoms, exp=N)
    rec.check(s.periodic == pbc and all(b == 'pp' or 'p' not in b for b in s.boundary),
              'boundary flags: pp exactly for the periodic directions', f'{K}:boundary', got=s.boundary, pbc=pbc)
    tilts = np.array([V[1, 0], V[2, 0], V[2, 1]])
    tri = bool((tilts != 0).any())
    rec.check(s.triclinic == tri, '"xy xz yz" bounding-box form iff a tilt factor is non-zero', f'{K}:triclinic-flag',
              triclinic=s.triclinic, system_tilts=tilts)
    if tri:
        rec.count('dumpfile:triclinic')
        if (np.sign(tilts) < 0).any():
            rec.count('dumpfile:negative-tilt')
        if (np.sign(tilts) > 0).any():
            rec.count('dumpfile:positive-tilt')
    rec.check(bool((s.bounds[:, 0] < s.bounds[:, 1]).all()) and bool((s.lohi[:, 0] < s.lohi[:, 1]).all()),
              'bounds satisfy lo < hi (bounding box and recovered box)', f'{K}:lohi', bounds=s.bounds, lohi=s.lohi)
    # bounding box convention, checked directly on the printed numbers
    xy, xz, yz = tilts * fL
    exp_b = np.array([[o[0] * fL + min(0.0, xy, xz, xy + xz), (o[0] + V[0, 0]) * fL + max(0.0, xy, xz, xy + xz)],
                      [o[1] * fL + min(0.0, yz), (o[1] + V[1, 1]) * fL + max(0.0, yz)],
                      [o[2] * fL, (o[2] + V[2, 2]) * fL]])
    c = Checks()
    c.close(s.bounds, s.bounds_ulp, exp_b, sL, 'bounding box = box lo/hi shifted by min/max of the tilt sums', f'{K}:bounding-box',
            extra=sL * (np.abs(o).max() + truth_L(V)) * fL + EPS * fL * (np.abs(o).max() + truth_L(V)))
    if s.triclinic:
        c.close(s.tilt, s.tilt_ulp, tilts * fL, sL, 'tilt factors are written in the order xy, xz, yz', f'{K}:tilt-order')
    Vw, ow = s.vects() / fL, s.origin() / fL
    ex = sL * (np.abs(o).max() + truth_L(V)) + EPS * (np.abs(o).max() + truth_L(V))
    c.close(Vw, s.vects_ulp() / fL, V, 0, 'cell recovered from the bounding box equals the system cell', f'{K}:cell', extra=ex)
    c.close(ow, s.lohi_ulp[:, 0] / fL, o, 0, 'origin recovered from the bounding box equals the system origin', f'{K}:origin', extra=ex)
    check_token_shapes(c, s.box_tokens, fmt, 'box numbers are printed with the requested float_format', f'{K}:format:box')
    c.emit(rec)
    # ---- ids / types ---------------------------------------------------------------------
    if not (s.has('id') and s.has('type')):
        rec.fail('dump file carries id and type columns', f'{K}:columns:id-type', columns=s.columns)
        return False
    ids = s.col('id').astype(int)
    exp_ids = truth['props']['atom_id'] if 'atom_id' in truth['props'] else np.arange(1, N + 1)
    okid = len(set(ids.tolist())) == len(ids) and s.natoms == N and sorted(ids.tolist()) == sorted(np.asarray(exp_ids).tolist())
    rec.check(okid, 'atom ids are unique: 1..N, or the ids the system carries', f'{K}:ids', got=ids[:8], exp=np.asarray(exp_ids)[:8])
    if 'atom_id' in truth['props']:
        rec.count('dumpfile:carried-ids')
    if not okid:
        return False
    lookup = {int(v): k for k, v in enumerate(np.asarray(exp_ids).tolist())}
    order = np.array([lookup[int(v)] for v in ids])
    c = Checks()
    c.add(bool((s.col('type').astype(int) == truth['atype'][order]).all()), 'atom types equal the system types', f'{K}:types')
    # ---- positions in every variant present ----------------------------------------------------
    X = truth['X'][order]
    mag = np.abs(X) + np.abs(o)
    npos = 0
    for names, scaled, label in ((['x', 'y', 'z'], False, 'x'), (['xu', 'yu', 'zu'], False, 'xu'),
                                 (['xs', 'ys', 'zs'], True, 'xs'), (['xsu', 'ysu', 'zsu'], True, 'xsu')):
        if not all(s.has(nm) for nm in names):
            continue
        npos += 1
        vals, ul = s.cols(names), s.colulps(names)
        if scaled:
            got = vals @ V + o                                  # lamda/scaled coordinates -> Cartesian with the SYSTEM cell
            gul = ul @ np.abs(V)
            c.close(got, gul, X, 0, f'positions recovered from the scaled columns {label} equal the system positions',
                    f'{K}:pos:{label}', extra=EPS * (mag + np.abs(vals) @ np.abs(V) + truth_L(V)))
        else:
            c.close(vals / fL, ul / fL, X, 0, f'positions in the {label} columns equal the system positions', f'{K}:pos:{label}',
                    extra=sL * mag + EPS * (mag + truth_L(V)))
        rec.count(f'dumpfile:posvariant:{label}')
    c.add(npos > 0, 'a dump file holds positions in at least one of x|xs|xu|xsu', f'{K}:pos:none', columns=s.columns)
    # ---- other columns -----------------------------------------------------------------------
    skip = {'id', 'type', 'x', 'y', 'z', 'xu', 'yu', 'zu', 'xs', 'ys', 'zs', 'xsu', 'ysu', 'zsu'}
    ftoks = []
    for col in s.columns:
        j = s.columns.index(col)
        if col in skip:
            if col not in ('id', 'type'):
                ftoks += [row[j] for row in s.tokens]
            continue
        base = col.split('[')[0]
        pname = DUMP_PROP[col][0] if col in DUMP_PROP else base
        if pname in truth['props'] and not np.issubdtype(truth['props'][pname].dtype, np.integer):
            ftoks += [row[j] for row in s.tokens]
        if col in DUMP_PROP:
            compare_columns(c, rec, s, [col], order, truth, units, K, DUMP_PROP, F.DUMP_ATTR_QUANTITY, True)
        else:                                                # user property: name, name[i], name[i][j] ; no unit
            base = col.split('[')[0]
            idx = tuple(int(x[:-1]) for x in col.split('[')[1:])
            if base not in truth['props']:
                c.add(False, 'every column is backed by a system property', f'{K}:column:unknown', column=col)
                continue
            exp = truth['props'][base][(order,) + idx] if idx else truth['props'][base][order]
            if np.issubdtype(exp.dtype, np.integer):
                c.add(bool(s.isint[:, j].all() and (s.values[:, j] == exp).all()), 'integer user columns equal the system values',
                      f'{K}:value:int:user', column=col)
            else:
                c.close(s.values[:, j], s.ulps[:, j], exp, 1e-14, 'user-property columns equal the system values (no unit)',
                        f'{K}:value:user', column=col)
            rec.count('dumpfile:user-column')
    check_token_shapes(c, ftoks, fmt, 'atom numbers are printed with the requested float_format', f'{K}:format:atoms')
    c.emit(rec)
    return True


# =======================================================================================
# POSCAR
# =======================================================================================
COORDSTYLES = ['direct', 'cartesian', 'Direct', 'Cartesian', 'D', 'K']
PSCALES = [1.0, 2.5, 0.37]
PSYMBOLS = ['system', 'absent', 'argument']
PFORMATS = ['%.13e', '%.6f', '%.16e', '%.9f']


def poscar_classes(i):
    r = i // 72
    return dict(
        coordstyle=COORDSTYLES[i % 6], scale=PSCALES[(i // 6) % 3], symbols=PSYMBOLS[(i // 2 + i // 18) % 3],
        typeclass=S.TYPE_CLASSES[(i // 3 + r) % 4], kind=S.ALL_KINDS[(i + i // 9 + r) % 9],
        origin=cells.ORIGINS[(i // 4 + r) % 3], fmt=PFORMATS[(i + i // 6 + r) % 4],
        posclass=S.POS_CLASSES[(i // 5 + i) % 4], outmode=OUTMODES[(i + i // 7) % 3],
        header=['', 'generated', 'a b c 1 2 3'][(i // 2) % 3], default_call=(i % 29 == 7),
    )


def run_poscar(ctx, am, tmpdir, n):
    rec = ctx.rec
    for i in ctx.cases('poscar', n):
        rng = ctx.rng
        cls = poscar_classes(i)
        natoms = int(rng.integers(3, 12))
        desc = S.gen_system(rng, cls['kind'], cls['origin'], 1.0, (True, True, True), natoms, cls['posclass'], cls['typeclass'])
        system = build_system(am, desc, {}, symbols='system' if cls['symbols'] == 'system' else 'none')
        truth = truth_of(system)
        kw = dict(coordstyle=cls['coordstyle'], box_scale=cls['scale'], float_format=cls['fmt'], header=cls['header'])
        exp_symbols = list(desc['symbols']) if cls['symbols'] == 'system' else None
        if cls['symbols'] == 'argument':
            exp_symbols = [S.SYMBOL_POOL[(k * 3 + i) % len(S.SYMBOL_POOL)] for k in range(truth['natypes'])]
            kw['symbols'] = list(exp_symbols) if i % 2 else tuple(exp_symbols)
        if cls['default_call']:
            kw = {}
            exp_symbols = list(desc['symbols']) if cls['symbols'] == 'system' else None
            rec.count('poscar:defaults-call')
        sig = ('poscar', cls['coordstyle'], cls['scale'], cls['symbols'], cls['typeclass'], cls['kind'], cls['origin'], cls['fmt'],
               cls['posclass'], cls['outmode'])
        out, path = None, None
        with ctx.guard('dump(poscar) writes a file', 'poscar:write'):
            out, path = write(tmpdir, f'poscar{i}', cls['outmode'], lambda f: system.dump('poscar', f=f, **kw))
        rec.count('poscar:typeclass:' + cls['typeclass'])
        rec.count('poscar:symbols:' + cls['symbols'])
        rec.count('poscar:kind:' + cls['kind'])
        if out is None:
            rec.case(sig, nontrivial=False)
            continue
        text = out if cls['outmode'] == 'string' else out[0]
        ok = check_poscar(rec, truth, text, kw, exp_symbols)
        rec.case(sig, nontrivial=ok, fp=fingerprint(desc['vects'], desc['origin'], desc['pos'], desc['atype'], sig))
        if i < 24:
            rec.sample(dict(kind='poscar', cls={k: v for k, v in cls.items()}, file=text[:600]))


def check_poscar(rec, truth, text, kw, exp_symbols):
    K = 'poscar'
    scale = kw.get('box_scale', 1.0)
    fmt = kw.get('float_format', '%.13e')
    coordstyle = kw.get('coordstyle', 'direct')
    try:
        p = F.parse_poscar(text)
    except F.FormatError as e:
        rec.fail('POSCAR is well-formed under the VASP rules', f'{K}:wellformed:{e.code}', error=e, head=text[:400])
        return False
    rec.count('monitor:poscar:parsed')
    N, V, o = truth['N'], truth['V'], truth['o']
    L = truth_L(V)
    c = Checks()
    c.add(p.comment == kw.get('header', ''), 'first line is the requested comment', f'{K}:comment', got=p.comment)
    c.close(p.scale, p.scale_ulp, scale, 1e-15, 'second line is the requested scale factor', f'{K}:scale')
    lat_tol = 0.5 * p.lattice_ulp * abs(p.factor) + 0.5 * p.scale_ulp * np.abs(p.lattice_raw) + EPS * L
    c.close(p.lattice, 0, V, 0, 'lattice x scale factor equals the system cell', f'{K}:lattice', extra=lat_tol, scale=p.scale)
    c.add(p.symbols == exp_symbols, 'species line: the given symbols, else the system symbols when all are set, else absent',
          f'{K}:symbols', got=p.symbols, exp=exp_symbols)
    per_type = np.bincount(truth['atype'], minlength=truth['natypes'] + 1)[1:]
    counts = np.array(p.counts, int)
    padded = np.zeros(max(len(counts), len(per_type)), int)
    padded[:len(counts)] = counts
    exp_counts = np.zeros_like(padded)
    exp_counts[:len(per_type)] = per_type
    c.add(bool((padded == exp_counts).all()), 'ions-per-species numbers are the per-type atom counts in type order', f'{K}:counts',
          got=counts, exp=per_type)
    c.add(p.natoms == N, 'sum of the counts equals the number of atoms', f'{K}:count:atoms', got=p.natoms, exp=N)
    want_cart = coordstyle[0] in 'cCkK'
    c.add(p.cartesian == want_cart and p.mode_line.strip() == coordstyle, 'coordinate-mode line is the requested mode',
          f'{K}:mode', got=p.mode_line, exp=coordstyle)
    c.add(not p.selective and not p.trailing, 'no selective-dynamics block or trailing sections are written', f'{K}:extras')
    check_token_shapes(c, p.float_tokens, fmt, 'numbers are printed with the requested float_format', f'{K}:format')
    c.emit(rec)
    if p.natoms != N or not bool((padded == exp_counts).all()):
        return False
    # ---- positions, grouped by type ---------------------------------------------------------------
    order = np.argsort(truth['atype'], kind='stable')
    X = truth['X'][order]
    c = Checks()
    if p.cartesian:
        got = p.coords * p.factor
        gul = p.coords_ulp * abs(p.factor) + p.scale_ulp * np.abs(p.coords)
        rec.count('poscar:cartesian')
        if scale != 1.0:
            rec.count('poscar:cartesian-scaled')
        a = Checks()
        a.close(got, gul, X, 0, '', '', extra=EPS * (np.abs(X) + L))
        b = Checks()
        b.close(got, gul, X - o, 0, '', '', extra=EPS * (np.abs(X) + np.abs(o) + L))
        ok = a.nfail == 0 or b.nfail == 0
        if ok:
            rec.count('poscar:cartesian:absolute' if a.nfail == 0 else 'poscar:cartesian:minus-origin')
        if not ok:
            ok = match_within_types(got, gul, X, truth['atype'][order], EPS * (np.abs(X).max() + L))
        c.add(ok, 'Cartesian coordinates x scale factor equal the system positions (grouped by type)', f'{K}:pos:cartesian',
              got=got[:3], exp=X[:3], scale=p.scale)
    else:
        rec.count('poscar:direct')
        got = p.coords @ V + o
        gul = p.coords_ulp @ np.abs(V)
        ex = EPS * (np.abs(X) + np.abs(o) + np.abs(p.coords) @ np.abs(V))
        a = Checks()
        a.close(got, gul, X, 0, '', '', extra=ex)
        ok = a.nfail == 0
        if not ok:
            ok = match_within_types(got, gul, X, truth['atype'][order], ex.max())
        c.add(ok, 'direct coordinates . cell (+ origin) equal the system positions (grouped by type)', f'{K}:pos:direct',
              got=got[:3], exp=X[:3])
    c.emit(rec)
    rec.count('monitor:poscar:positions')
    return True


def match_within_types(got, gul, X, types, extra):
    """Order-free fallback: inside every type block each written atom matches a distinct system atom."""
    for t in np.unique(types):
        idx = np.where(types == t)[0]
        free = list(idx)
        for r in idx:
            hit = None
            for k in free:
                if (np.abs(got[r] - X[k]) <= 0.5 * gul[r] * (1 + 1e-9) + extra).all():
                    hit = k
                    break
            if hit is None:
                return False
            free.remove(hit)
    return True


# =======================================================================================
# whitespace tables (the engine of the data-file writer)
# =======================================================================================
TABLE_UNITS = [  # (property, quantity, atomman unit string, SI value of that unit)
    ('pos', 'length', 'nm', 1e-9), ('pos', 'length', 'm', 1.0), ('velocity', 'velocity', 'm/s', 1.0),
    ('charge', 'charge', 'C', 1.0), ('mass', 'mass', 'kg', 1.0), ('mass', 'mass', 'g/mol', U.GRAM_PER_MOL),
    ('pos', None, 'scaled', None), ('velocity', 'velocity', 'angstrom/ps', 100.0),
]


def check_table(rec, truth, out, names, pname, q, ustr, usi, header):
    """One whitespace table against the system: ``names`` = requested properties in column order, of which
    ``pname`` is written in unit ``ustr`` (quantity ``q``, SI value ``usi``; 'scaled' = box-relative)."""
    natoms = truth['N']
    try:
        t = F.parse_table(out, header=header)
    except F.FormatError as e:
        rec.fail('table is well-formed', f'table:wellformed:{e.code}', error=e, head=out[:300])
        return False
    rec.count('monitor:table:parsed')
    c = Checks()
    c.add(t.values.shape[0] == natoms, 'one row per atom', 'table:rows')
    col = 0
    for nm in names:
        if nm in ('atype', 'tag'):
            exp = truth['atype'] if nm == 'atype' else truth['props']['tag']
            c.add(bool(t.isint[:, col].all() and (t.values[:, col] == exp).all()), 'integer columns equal the system values',
                  'table:value:int')
            if header:
                c.add(t.names[col] == nm, 'header names the columns', 'table:header', got=t.names)
            col += 1
            continue
        val = truth['X'] if nm == 'pos' else truth['props'][nm]
        val = val.reshape(natoms, -1)
        w = val.shape[1]
        got, ul = t.values[:, col:col + w], t.ulps[:, col:col + w]
        if nm != pname:                                       # written without a unit: the numbers as held
            c.close(got, ul, val, 1e-14, 'columns without a unit equal the system values', 'table:value:plain')
        elif ustr == 'scaled':
            back = got @ truth['V'] + truth['o']
            c.close(back, ul @ np.abs(truth['V']), truth['X'], 0, 'scaled columns are box-relative coordinates', 'table:value:scaled',
                    extra=EPS * (np.abs(truth['X']) + np.abs(truth['o']) + np.abs(got) @ np.abs(truth['V'])))
        else:
            f = U.working_si(q) / usi
            c.close(got, ul, val * f, U.SLACK, 'columns equal the system values converted to the requested unit', f'table:value:{ustr}')
        col += w
    c.add(col == t.values.shape[1], 'table has exactly the requested columns', 'table:ncols', got=t.values.shape[1], exp=col)
    c.emit(rec)
    return True


def run_table(ctx, am, tmpdir, n):
    rec = ctx.rec
    for i in ctx.cases('table', n):
        rng = ctx.rng
        natoms = int(rng.integers(3, 10))
        kind = S.LAMMPS_KINDS[i % 8]
        desc = S.gen_system(rng, kind, cells.ORIGINS[(i // 2) % 3], 1.0, (True, True, True), natoms, S.POS_CLASSES[i % 4], 'dense')
        props = dict(velocity=S.gen_values(rng, natoms, (3,)), charge=S.gen_values(rng, natoms, ()),
                     mass=S.gen_values(rng, natoms, (), positive=True), tag=S.gen_values(rng, natoms, (), 'int'))
        system = build_system(am, desc, props)
        truth = truth_of(system)
        pname, q, ustr, usi = TABLE_UNITS[i % len(TABLE_UNITS)]
        header = bool((i // 2) % 2)
        fmt = ['%.13f', '%.8e', '%.6f'][i % 3]
        names = ['atype', pname, 'tag'] if i % 2 else ['tag', 'atype', pname]
        units = [None if nm != pname else ustr for nm in names]
        sig = ('table', pname, ustr, header, fmt)
        out = None
        with ctx.guard('dump(table) writes a table', 'table:write'):
            if (i // 4) % 2:                                     # the same request in its structured prop_info form
                rec.count('table:prop_info-form')
                pinfo = [dict(prop_name=nm, **({'unit': u_} if u_ is not None else {})) for nm, u_ in zip(names, units)]
                for d_ in pinfo:
                    if d_['prop_name'] in ('pos', 'velocity'):
                        d_['shape'] = (3,)
                out = system.dump('table', prop_info=pinfo, header=header, float_format=fmt)
            else:
                out = system.dump('table', prop_name=names, unit=units, header=header, float_format=fmt)
        if out is None:
            rec.case(sig, nontrivial=False)
            continue
        if not check_table(rec, truth, out, names, pname, q, ustr, usi, header):
            rec.case(sig, nontrivial=False)
            continue
        rec.case(sig, nontrivial=True, fp=fingerprint(desc['pos'], sig))
        if i < 4:
            rec.sample(dict(kind='table', names=names, unit=units, file=out[:300]))


# =======================================================================================
def run(ctx):
    import atomman as am
    import atomman.unitconvert as uc
    rec = ctx.rec
    # the stated assumption: default working units
    rec.check(all(abs(uc.unit[k] - 1.0) < 1e-12 for k in ('angstrom', 'amu', 'eV', 'e')),
              'working units are the documented defaults (angstrom, amu, eV, e)', 'setup:working-units')
    COVER = ['atomman/dump/atom_data/dump.py', 'atomman/dump/atom_dump/dump.py', 'atomman/dump/poscar/dump.py',
             'atomman/dump/table/dump.py', 'atomman/dump/atom_data/atoms_prop_info.py',
             'atomman/dump/atom_data/velocities_prop_info.py', 'atomman/lammps/style.py',
             'atomman/dump/atom_dump/process_prop_info.py']
    cover.start(COVER)
    tmpdir = tempfile.mkdtemp(prefix='vf-c07-')
    try:
        run_data(ctx, am, tmpdir, ctx.pick(1008, 9072))
        run_dumpfile(ctx, am, tmpdir, ctx.pick(448, 4032))
        run_poscar(ctx, am, tmpdir, ctx.pick(432, 3888))
        run_table(ctx, am, tmpdir, ctx.pick(96, 768))
    finally:
        shutil.rmtree(tmpdir, ignore_errors=True)
    for f in COVER:
        rec.count('reach:' + f.split('atomman/')[1], len(cover.lines(f)))

    # ---- floors: the monitors and the hostile classes were reached -------------------------------
    rec.floor('monitor:data:parsed', 300)
    rec.floor('monitor:data:atoms-table', 300)
    rec.floor('monitor:data:velocities', 100)
    rec.floor('monitor:data:info', 300)
    rec.floor('monitor:data:column-compared', 300)
    rec.floor('data:with-image-flags', 100)
    rec.floor('data:flags>=2', 20)
    rec.floor('data:nonperiodic-enlarged', 50)
    rec.floor('data:triclinic', 100)
    rec.floor('data:triclinic-some-zero-tilts', 20)
    rec.floor('data:atoms-written-on-a-face', 20)
    rec.floor('data:info:path', 50)
    rec.floor('data:defaults-call', 10)
    for q in ('charge', 'velocity', 'density', 'dipole', 'mass', 'ang-mom', 'ang-vel'):
        rec.floor('data:converted:' + q, 10)
    for u in UNITS:
        rec.floor('data:units:' + u, 60)
        rec.floor('dumpfile:units:' + u, 20)
    for s_ in PLAIN_STYLES:
        rec.floor('data:style:' + s_, 20)
    rec.floor('data:style:hybrid', 60)
    rec.floor('monitor:dumpfile:parsed', 150)
    rec.floor('monitor:dumpfile:column-compared', 100)
    for v in ('x', 'xs', 'xu', 'xsu'):
        rec.floor('dumpfile:posvariant:' + v, 40)
    rec.floor('dumpfile:triclinic', 50)
    rec.floor('dumpfile:negative-tilt', 20)
    rec.floor('dumpfile:positive-tilt', 20)
    rec.floor('dumpfile:carried-ids', 50)
    rec.floor('dumpfile:user-column', 50)
    rec.floor('monitor:poscar:parsed', 200)
    rec.floor('monitor:poscar:positions', 200)
    rec.floor('poscar:cartesian-scaled', 50)
    rec.floor('poscar:direct', 80)
    for tc in S.TYPE_CLASSES:
        rec.floor('poscar:typeclass:' + tc, 40)
    for sy in PSYMBOLS:
        rec.floor('poscar:symbols:' + sy, 40)
    rec.floor('poscar:kind:rotated', 20)
    rec.floor('monitor:table:parsed', 50)
    rec.floor('table:prop_info-form', 20)
    rec.floor('reach:dump/atom_data/dump.py', 30)
    rec.floor('reach:dump/atom_dump/dump.py', 40)
    rec.floor('reach:dump/poscar/dump.py', 20)
