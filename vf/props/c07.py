"""C07 - Written LAMMPS data/dump and POSCAR files are well-formed and describe the system.

Observer: every file ``System.dump`` writes is re-read by the independent
parsers of ``vf/oracle/c07_formats.py`` (format manuals) and compared with the
system the file was written for, values converted with the independent unit
table ``vf/oracle/c07_units.py``.
"""
from __future__ import annotations

import copy
import io
import os
import shutil
import tempfile

import numpy as np

from ..core import fingerprint
from ..gen import c07_sequences as Q
from ..gen import c07_systems as S
from ..gen import cells
from ..oracle import c07_formats as F
from ..oracle import c07_units as U
from ..oracle import geometry as G
from .. import cover

RULE = ('classes are enumerated round-robin by case index: data files = 21 atom styles (18 plain + 3 hybrid) x 8 unit '
        'styles, crossed with 4 float formats, 8 LAMMPS-compatible cell kinds x 3 origin classes, 8 pbc settings, '
        '4 position classes (inside / outside / exactly on faces / tens of cells away), 4 type classes, velocities '
        'on/off, 3 output modes; dump files = 8 unit styles x 7 column variants (default, x, xs, xu, xsu, mixed '
        'standard, all position variants) x carried ids; POSCAR = 6 coordinate-mode spellings x 3 scale factors x 3 '
        'symbol sources x 4 type classes x 9 cell kinds (incl. rotated). A case is non-trivial when the file was '
        'written, parsed and compared; distinct = distinct fingerprint of (cell, positions, types, class). '
        'Call histories (group seq): 35 classes (format x the ONE aspect in which consecutive calls differ: atom_style incl. '
        'permutations / different / growing / shrinking hybrids and plain-vs-hybrid, with and without Velocities columns; '
        'units; float_format; velocities on/off; system; output mode; one System object reused; dump-file column variant, '
        'property list order / subset, one prop_info list reused; POSCAR coordstyle, scale, symbols, format, header; table '
        'unit, order, subset, header, format) x 4 patterns AB / ABA / ABCA / ABAB in ONE process, class = index mod 35 (odd, '
        'so every worker meets every class); every file is judged by the same parsers, a repeated letter must give the '
        'identical text, every 23rd sequence ends with a comparison against a brand-new process.')
ASSUMPTIONS = [
    'default working units (angstrom, amu, eV, e); the per-atom numbers held by the System are in these units',
    'unit factors from hand-entered CODATA-2022/SI values and the LAMMPS manual unit tables; 3e-9 relative slack for '
    'CODATA-edition differences (1e-5 for the electron-style velocity whose time unit the manual prints with 6 figures)',
    'Atoms-section layouts from the read_data manual; for template and smd, whose published layout changed between '
    'manual editions, either published layout is accepted',
    'columns for which the manual gives no unit (rho, esph, cv, cs_re, cs_im) are compared unconverted',
    'the density column uses the "density" unit of the unit style (units page), as atomman does',
    'a fixed-point float format is only combined with a unit style in which the shortest cell edge is >= 100 printed '
    'units; otherwise the exponent format of the same precision class is used (counted as format-swapped)',
    'non-periodic directions may be enlarged along their own cell vector when an atom lies outside or on that face '
    '(documented normalisation of dump(atom_data)); otherwise the written cell must equal the system cell',
    'POSCAR carries no origin: Cartesian coordinates may equal the absolute positions or positions minus the cell origin',
    'dump(atom_data, potential=...) is not exercised (needs a potentials record)',
    'a written file is a function of the system and of the options of that call only: the same request repeated later in '
    'the process (or made as the first call of a new process) must give the identical text',
    'hybrid styles: a column that several sub-styles define appears once, where the first of them puts it (rule of the '
    'current read_data manual page); template and smd are not used as hybrid sub-styles (edition-dependent layouts)',
]

FORMATS = ['%.13f', '%.6f', '%.16e', '%.5e']
EXP_OF = {'%.13f': '%.16e', '%.6f': '%.5e'}
UNITS = list(U.STYLES)
PLAIN_STYLES = ['atomic', 'charge', 'full', 'molecular', 'angle', 'bond', 'body', 'dipole', 'electron', 'ellipsoid',
                'line', 'meso', 'peri', 'smd', 'sphere', 'template', 'tri', 'wavepacket']
HYBRID_STYLES = ['hybrid charge sphere', 'hybrid sphere dipole', 'hybrid bond ellipsoid']
ATOM_STYLES = PLAIN_STYLES + HYBRID_STYLES
OUTMODES = ['string', 'path', 'filelike']

# ---- interface map: manual column name -> (atomman per-atom property, component) ----------------
DATA_PROP = {
    'mol': ('m_id', None), 'type': ('atype', None), 'q': ('charge', None),
    'x': ('pos', 0), 'y': ('pos', 1), 'z': ('pos', 2),
    'mux': ('mu', 0), 'muy': ('mu', 1), 'muz': ('mu', 2),
    'bodyflag': ('bflag', None), 'mass': ('mass', None), 'espin': ('espin', None), 'eradius': ('eradius', None),
    'ellipsoidflag': ('eflag', None), 'density': ('density', None), 'lineflag': ('lflag', None),
    'rho': ('rho', None), 'esph': ('e', None), 'cv': ('cv', None), 'volume': ('volume', None),
    'kradius': ('kradius', None), 'cradius': ('cradius', None), 'diameter': ('diameter', None),
    'template_index': ('m_template', None), 'template_atom': ('a_template', None),
    'triangleflag': ('tflag', None), 'etag': ('e_id', None), 'cs_re': ('cs_re', None), 'cs_im': ('cs_im', None),
    'vx': ('velocity', 0), 'vy': ('velocity', 1), 'vz': ('velocity', 2), 'ervel': ('eradial_velocity', None),
    'lx': ('ang_momentum', 0), 'ly': ('ang_momentum', 1), 'lz': ('ang_momentum', 2),
    'wx': ('ang_velocity', 0), 'wy': ('ang_velocity', 1), 'wz': ('ang_velocity', 2),
}
POSITIVE = {'mass', 'eradius', 'density', 'volume', 'kradius', 'cradius', 'diameter', 'rho', 'cv', 'radius', 'mu_mag'}
# dump-file attribute -> atomman property (standard attributes of "dump custom")
DUMP_PROP = {
    'id': ('atom_id', None), 'mol': ('m_id', None), 'type': ('atype', None), 'mass': ('mass', None),
    'x': ('pos', 0), 'y': ('pos', 1), 'z': ('pos', 2),
    'vx': ('velocity', 0), 'vy': ('velocity', 1), 'vz': ('velocity', 2),
    'fx': ('force', 0), 'fy': ('force', 1), 'fz': ('force', 2), 'q': ('charge', None),
    'mux': ('mu', 0), 'muy': ('mu', 1), 'muz': ('mu', 2), 'mu': ('mu_mag', None),
    'radius': ('radius', None), 'diameter': ('diameter', None),
    'omegax': ('ang_velocity', 0), 'omegay': ('ang_velocity', 1), 'omegaz': ('ang_velocity', 2),
    'angmomx': ('ang_momentum', 0), 'angmomy': ('ang_momentum', 1), 'angmomz': ('ang_momentum', 2),
    'tqx': ('torque', 0), 'tqy': ('torque', 1), 'tqz': ('torque', 2),
}
DUMP_STD_PROPS = {  # atomman property -> shape, for the 'mixed' column variant
    'velocity': (3,), 'force': (3,), 'charge': (), 'mu': (3,), 'mu_mag': (), 'radius': (), 'diameter': (),
    'ang_velocity': (3,), 'ang_momentum': (3,), 'torque': (3,), 'mass': (), 'm_id': (),
}

EPS = 1e-13


# =======================================================================================
# small helpers
# =======================================================================================
class Checks:
    """Collects (ok, clause, key, detail) so that alternative readings of one file can be
    evaluated before anything is recorded."""

    def __init__(self):
        self.items = []

    def add(self, ok, clause, key, **detail):
        self.items.append((bool(ok), clause, key, detail))
        return bool(ok)

    def close(self, got, ulp, exp, rel, clause, key, extra=0.0, **detail):
        got, exp = np.asarray(got, float), np.asarray(exp, float)
        if got.shape != exp.shape:
            return self.add(False, clause, key, why='shape', got_shape=got.shape, exp_shape=exp.shape, **detail)
        tol = 0.5 * np.asarray(ulp, float) * (1 + 1e-9) + rel * np.abs(exp) + extra
        err = np.abs(got - exp)
        bad = ~(err <= tol)
        if bad.any():
            return self.add(False, clause, key, max_err=float(np.nanmax(err[bad])), tol=float(np.max(tol[bad]) if np.ndim(tol) else tol),
                            got=got[bad][:4], expected=exp[bad][:4], n_bad=int(bad.sum()), **detail)
        return self.add(True, clause, key)

    @property
    def nfail(self):
        return sum(1 for it in self.items if not it[0])

    def emit(self, rec, rekey=None):
        for ok, clause, key, detail in self.items:
            rec.check(ok, clause, (rekey or key) if not ok else key, **detail)


def pick_format(i_fmt, min_edge_file_units):
    fmt = FORMATS[i_fmt % 4]
    swapped = False
    kind, p = F.format_shape(fmt)
    if kind == 'f' and min_edge_file_units < 100 * 10.0 ** (-p):
        fmt, swapped = EXP_OF[fmt], True
    return fmt, swapped


def check_token_shapes(chk, tokens, fmt, clause, key):
    want = F.format_shape(fmt)
    bad = [t for t in tokens if F.token_shape(t) != want]
    chk.add(not bad, clause, key, float_format=fmt, offending=bad[:4])


def build_system(am, desc, props, symbols='system'):
    atoms = am.Atoms(atype=np.array(desc['atype']), pos=np.array(desc['pos']))
    for name, val in props.items():
        atoms.view[name] = np.array(val)
    box = am.Box(vects=np.array(desc['vects']), origin=np.array(desc['origin']))
    kw = {}
    if symbols == 'system':
        kw['symbols'] = list(desc['symbols'])
    return am.System(atoms=atoms, box=box, pbc=desc['pbc'], **kw)


def truth_of(system):
    t = dict(V=np.array(system.box.vects, float), o=np.array(system.box.origin, float),
             X=np.array(system.atoms.pos, float), pbc=[bool(b) for b in system.pbc],
             atype=np.array(system.atoms.atype, int), N=int(system.natoms), natypes=int(system.natypes),
             symbols=tuple(system.symbols), props={})
    for k in system.atoms_prop():
        if k not in ('atype', 'pos'):
            t['props'][k] = np.array(system.atoms.view[k])
    return t


def write(tmpdir, tag, mode, call):
    """call(f) -> what dump returned.  -> (result, path): for mode 'string' result is dump's return value,
    otherwise (text read back from the path / file-like object, dump's return value)."""
    if mode == 'string':
        return call(None), None
    if mode == 'path':
        path = os.path.join(tmpdir, f'{tag}.out')
        r = call(path)
        with open(path, encoding='UTF-8') as fh:
            return (fh.read(), r), path
    buf = io.StringIO()
    r = call(buf)
    return (buf.getvalue(), r), None


def boundary_ok(flags, pbc):
    """LAMMPS 'boundary' arguments: one or two letters of p/f/s/m per direction, p only as 'p' (both faces)."""
    if len(flags) != 3:
        return False
    for x, per in zip(flags, pbc):
        if len(x) not in (1, 2) or not set(x) <= set('pfsm') or ('p' in x and x != 'p'):
            return False
        if (x == 'p') != bool(per):
            return False
    return True


def prop_component(truth, pname, comp):
    if pname == 'atype':
        v = truth['atype']
    elif pname == 'pos':
        v = truth['X']
    else:
        v = truth['props'][pname]
    return v if comp is None else v[:, comp]


# =======================================================================================
# LAMMPS data files
# =======================================================================================
def data_classes(i):
    p = i % (len(ATOM_STYLES) * len(UNITS))
    r = i // (len(ATOM_STYLES) * len(UNITS))
    return dict(
        style=ATOM_STYLES[p % len(ATOM_STYLES)], units=UNITS[p // len(ATOM_STYLES)],
        ifmt=(i + r) % 4,
        kind=S.LAMMPS_KINDS[(i // 2 + r) % len(S.LAMMPS_KINDS)],
        origin=cells.ORIGINS[(i // 5 + r) % 3],
        pbc=cells.PBCS[(7 - (i * 3 + i // 8 + r) % 8)],
        posclass=S.POS_CLASSES[(i // 3 + i + r) % 4],
        typeclass=S.TYPE_CLASSES[(i // 7 + r) % 4],
        vel=bool((i + i // 4) % 2),
        outmode=OUTMODES[(i + i // 9) % 3],
        defaults=(i % 23 == 11),                 # call without atom_style/units (documented defaults)
        natypes_extra=(2 if i % 11 == 3 else 0),
        safecopy=bool((i // 2) % 2),
        scale=[1.0, 12.0][(i // 13) % 2],
    )


def style_props(rng, style, n, vel):
    """Per-atom properties (atomman names) a style's columns need."""
    props = {}
    cols = F.atom_style_layouts(style)[-1]            # the legacy layout is the one without x0 y0 z0
    vcols = F.velocity_layout(style)[1:] if vel else []
    for c in list(cols) + list(vcols):
        if c in ('id', 'type', 'x', 'y', 'z', 'x0', 'y0', 'z0'):
            continue
        pname, comp = DATA_PROP[c]
        if pname in props:
            continue
        if c in F.INT_COLUMNS:
            props[pname] = S.gen_values(rng, n, (), 'int')
        else:
            props[pname] = S.gen_values(rng, n, () if comp is None else (3,), 'float', positive=pname in POSITIVE)
    return props


def parse_info(text):
    """LAMMPS input-script snippet -> {command: [args]} and command order."""
    cmds, order = {}, []
    for line in text.split('\n'):
        body = line.split('#', 1)[0].strip()
        if not body:
            continue
        w = body.split()
        cmds.setdefault(w[0], w[1:])
        order.append(w[0])
    return cmds, order


def check_data_file(rec, cls, truth, text, info, path, units, style, fmt, natypes_req):
    """All clauses of the property for one data file.  Returns True when the comparison was complete."""
    K = 'data'
    rekey = None            # (was: hybrid styles with non-metal units re-keyed while defect G1 stood; repaired in /repo 6c4bf16)
    try:
        d = F.parse_lammps_data(text)
    except F.FormatError as e:
        rec.fail('data file is well-formed (header/sections) under the read_data rules', f'{K}:wellformed:{e.code}',
                 error=e, head=text[:400])
        return False
    rec.count('monitor:data:parsed')
    N = truth['N']
    fL = U.factor(units, 'length')
    sL = U.slack(units, 'length')
    # ---- header / counts ---------------------------------------------------------------
    rec.check(d.natoms == N, 'data header: atoms count equals the number of atoms', f'{K}:count:atoms', got=d.natoms, exp=N)
    exp_nt = natypes_req if natypes_req is not None else truth['natypes']
    rec.check(d.natypes == exp_nt, 'data header: atom types equals the (requested) number of types', f'{K}:count:atom-types',
              got=d.natypes, exp=exp_nt)
    rec.check(d.section_order[:1] == ['Atoms'] and set(d.section_order) <= {'Atoms', 'Velocities'},
              'data sections: Atoms first, then Velocities only', f'{K}:sections', got=d.section_order)
    rec.check(d.atom_style == style, 'Atoms section comment names the atom style used', f'{K}:style-comment',
              got=d.atom_style, exp=style)
    rec.check(bool((d.lohi[:, 0] < d.lohi[:, 1]).all()), 'written bounds satisfy lo < hi', f'{K}:lohi', lohi=d.lohi)
    # ---- tilt line iff a tilt != 0 -------------------------------------------------------
    V, o, pbc = truth['V'], truth['o'], truth['pbc']
    tilts = np.array([V[1, 0], V[2, 0], V[2, 1]])
    has = bool((tilts != 0).any())
    rec.check(d.has_tilt == has, 'tilt line present iff a tilt factor is non-zero', f'{K}:tilt-line',
              has_tilt_line=d.has_tilt, system_tilts=tilts)
    if has:
        rec.count('data:triclinic')
        if (tilts == 0).any():
            rec.count('data:triclinic-some-zero-tilts')
    # ---- cell ----------------------------------------------------------------------------
    Vf, of_ = d.vects(), d.origin()                       # file units
    Vu = d.vects_ulp()
    Vw, ow = Vf / fL, of_ / fL                            # back in working units
    chk = Checks()
    rel_true = G.rel(truth['X'], V, o)
    M = np.linalg.inv(V)                                  # rel = (x - o) @ M
    lo_err = (0.5 * d.lohi_ulp[:, 0] / fL + sL * np.abs(ow) + EPS * (np.abs(o) + truth_L(V)))
    m = (ow - o) @ M                                      # lower corner of the written box in system-relative coords
    tol_m = lo_err @ np.abs(M) + 1e-12
    for ax in range(3):
        row_tol = 0.5 * Vu[ax] / fL + sL * np.abs(V[ax]) + EPS * truth_L(V)
        if pbc[ax]:
            chk.close(Vw[ax], 0, V[ax], 0, 'cell vector of a periodic direction equals the system cell vector',
                      f'{K}:cell:periodic', extra=row_tol, axis=ax)
            chk.add(abs(m[ax]) <= tol_m[ax], 'box origin is unchanged along periodic directions', f'{K}:cell:origin',
                    axis=ax, shift=m[ax], tol=tol_m[ax])
        else:
            t = Vw[ax, ax] / V[ax, ax]
            tol_t = (row_tol[ax] / V[ax, ax])
            # t itself is known to tol_t only (it is a ratio of printed numbers): propagate into every component
            chk.close(Vw[ax], 0, t * V[ax], 0, 'cell vector of a non-periodic direction stays parallel to the system vector',
                      f'{K}:cell:nonperiodic:parallel', extra=row_tol * max(1.0, t) + tol_t * np.abs(V[ax]), axis=ax)
            lo_need, hi_need = rel_true[:, ax].min(), rel_true[:, ax].max()
            upper = m[ax] + t
            tol_u = tol_m[ax] + tol_t
            ok_lo = (m[ax] <= tol_m[ax]) and (abs(m[ax]) <= tol_m[ax] or lo_need <= 1e-9)
            ok_hi = (upper >= 1 - tol_u) and (abs(upper - 1) <= tol_u or hi_need >= 1 - 1e-9)
            chk.add(ok_lo and ok_hi, 'non-periodic direction: written box contains the system box and is enlarged only when '
                    'an atom lies outside or on that face', f'{K}:cell:nonperiodic:extent', axis=ax, lower=m[ax], upper=upper,
                    atoms_min=lo_need, atoms_max=hi_need)
            if abs(m[ax]) > tol_m[ax] or abs(upper - 1) > tol_u:
                rec.count('data:nonperiodic-enlarged')
    chk.emit(rec, rekey)
    # ---- Atoms table under each published layout -------------------------------------------
    layouts = F.atom_style_layouts(style)
    best = None
    for li in range(len(layouts)):
        c = Checks()
        try:
            t = d.atoms_table(style, li)
        except F.FormatError as e:
            c.add(False, 'Atoms section is well-formed for its atom style', f'{K}:wellformed:{e.code}', error=e, layout=layouts[li])
            t = None
        if t is not None:
            compare_atoms(c, rec, d, t, truth, units, fmt, Vf, Vu, of_, fL, sL, count=False)
        if best is None or c.nfail < best[0].nfail:
            best = (c, t, li)
    c, t, li = best
    if t is not None:                                    # re-run the winner with counters on
        c = Checks()
        compare_atoms(c, rec, d, t, truth, units, fmt, Vf, Vu, of_, fL, sL, count=True)
    rec.count(f'data:layout:{li}')
    c.emit(rec, rekey)
    complete = t is not None
    # ---- Velocities ----------------------------------------------------------------------
    has_v = 'velocity' in truth['props']
    rec.check(('Velocities' in d.sections) == has_v, 'Velocities section present iff the system has velocities',
              f'{K}:velocities:present', present='Velocities' in d.sections, system_has=has_v)
    if has_v and 'Velocities' in d.sections:
        c = Checks()
        try:
            v = d.velocities_table(style)
        except F.FormatError as e:
            c.add(False, 'Velocities section is well-formed for its atom style', f'{K}:wellformed:velocities:{e.code}', error=e)
            v = None
        if v is not None:
            rec.count('monitor:data:velocities')
            ids = v.ids
            okid = sorted(ids.tolist()) == list(range(1, N + 1))
            c.add(okid, 'Velocities ids are exactly 1..N', f'{K}:velocities:ids', ids=ids[:8])
            if okid:
                order = ids - 1
                compare_columns(c, rec, v, v.columns[1:], order, truth, units, 'data', DATA_PROP, F.COLUMN_QUANTITY, True)
                ftoks = [tok for row in v.tokens for tok, col in zip(row, v.columns) if col != 'id']
                check_token_shapes(c, ftoks, fmt, 'Velocities numbers are printed with the requested float_format',
                                   f'{K}:format:velocities')
        c.emit(rec, rekey)
    # ---- header number format -------------------------------------------------------------
    c = Checks()
    check_token_shapes(c, d.float_tokens, fmt, 'box numbers are printed with the requested float_format', f'{K}:format:box')
    c.emit(rec)
    # ---- info snippet ------------------------------------------------------------------------
    if info is not None:
        rec.count('monitor:data:info')
        cmds, order = parse_info(info)
        rec.check(cmds.get('units') == [units], 'info snippet names the unit style used', f'{K}:info:units',
                  got=cmds.get('units'), exp=units)
        rec.check(cmds.get('atom_style') == style.split(), 'info snippet names the atom style used', f'{K}:info:atom_style',
                  got=cmds.get('atom_style'), exp=style)
        b = cmds.get('boundary') or []
        rec.check(boundary_ok(b, pbc), 'info snippet boundary flags: p for periodic, f/s/m for non-periodic directions', f'{K}:info:boundary',
                  got=b, pbc=pbc)
        if path is not None:
            rec.count('data:info:path')
            rec.check(cmds.get('read_data', [None])[0] == path and order and order[-1] == 'read_data',
                      'info snippet reads the file that was written (read_data <path> after units/atom_style/boundary)',
                      f'{K}:info:read_data', got=cmds.get('read_data'), exp=path, order=order)
    return complete


def truth_L(V):
    return float(np.abs(V).sum(axis=1).max())


def compare_atoms(c, rec, d, t, truth, units, fmt, Vf, Vu, of_, fL, sL, count):
    K = 'data'
    N = truth['N']
    pbc = truth['pbc']
    ids = t.ids
    okid = len(set(ids.tolist())) == len(ids) and sorted(ids.tolist()) == list(range(1, N + 1))
    c.add(okid, 'atom ids are unique and exactly 1..N', f'{K}:ids', ids=ids[:8], N=N)
    if not okid or t.natoms != N:
        return
    order = ids - 1                                       # row r describes atom order[r]
    types = t.types
    c.add(bool((types == truth['atype'][order]).all()), 'atom types equal the system types', f'{K}:types',
          got=types[:8], exp=truth['atype'][order][:8])
    nt = d.natypes if d.natypes is not None else 0
    c.add(bool(((types >= 1) & (types <= nt)).all()), 'every type lies in 1..(atom types of the header)', f'{K}:count:type-range',
          types=types[:8], natypes=nt)
    # --- image flags / inside / reconstruct (all in file units first) ------------------------
    x = t.xyz
    xu = t.colulps(['x', 'y', 'z'])
    img = t.image if t.image is not None else np.zeros((N, 3), int)
    if count:
        rec.count('monitor:data:atoms-table')
        if t.image is not None:
            rec.count('data:with-image-flags')
        if np.abs(img).max(initial=0) >= 2:
            rec.count('data:flags>=2')
    nonp = [ax for ax in range(3) if not pbc[ax]]
    c.add(bool((img[:, nonp] == 0).all()), 'image flags are zero in non-periodic directions', f'{K}:flags-nonperiodic',
          flags=img[:4])
    Mi = np.linalg.inv(Vf)
    rel_f = (x - of_) @ Mi
    err = 0.5 * (xu + d.lohi_ulp[:, 0] + d.lohi_ulp[:, 1] + d.tilt_ulp.sum()) * (1 + np.abs(rel_f).max(initial=0)) \
        + 1e-12 * (np.abs(x).max(initial=0) + np.abs(of_).max())
    tol_rel = err @ np.abs(Mi) + 1e-9 * (1 + np.abs(of_).max() / np.abs(Vf).max())
    inside = (rel_f >= -tol_rel) & (rel_f <= 1 + tol_rel)
    c.add(bool(inside.all()), 'every atom of a data file lies within the written bounds', f'{K}:inside',
          worst_rel=rel_f[~inside.all(axis=1)][:3], tol=tol_rel.max(initial=0), pbc=pbc)
    if count:
        onface = (np.abs(rel_f) <= 1e-6) | (np.abs(rel_f - 1) <= 1e-6)
        rec.count('data:atoms-checked-inside', N)
        rec.count('data:atoms-written-on-a-face', int(onface.any(axis=1).sum()))
    # reconstruct: x + ix*a' + iy*b' + iz*c' with the FILE's vectors, then to working units
    un = t.unwrapped(Vf)
    un_ulp = xu + np.abs(img) @ Vu
    X = truth['X'][order]
    mag = np.abs(X) + np.abs(img) @ np.abs(truth['V'])
    c.close(un / fL, un_ulp / fL, X, 0, 'positions after applying the image flags equal the system positions', f'{K}:reconstruct',
            extra=sL * mag + EPS * (mag + np.abs(truth['o']).max() + truth_L(truth['V'])), flags=img[:3])
    # --- all other columns ------------------------------------------------------------------------
    other = [col for col in t.columns if col not in ('id', 'type', 'x', 'y', 'z')]
    compare_columns(c, rec if count else None, t, other, order, truth, units, 'data', DATA_PROP, F.COLUMN_QUANTITY, count)
    ftoks = []
    for row in t.tokens:
        for tok, col in zip(row, t.columns):
            if col not in F.INT_COLUMNS:
                ftoks.append(tok)
    check_token_shapes(c, ftoks, fmt, 'Atoms numbers are printed with the requested float_format', f'{K}:format:atoms')


def compare_columns(c, rec, table, cols, order, truth, units, K, propmap, quantities, count):
    for col in cols:
        if col not in propmap:
            c.add(False, 'every column of the layout is backed by a system property', f'{K}:column:unmapped', column=col)
            continue
        pname, comp = propmap[col]
        q = quantities.get(col)
        try:
            exp = prop_component(truth, pname, comp)[order]
        except KeyError:
            c.add(False, 'every column of the layout is backed by a system property', f'{K}:column:missing-prop', column=col, prop=pname)
            continue
        if not U.defined(units, q):
            if rec is not None:
                rec.count('skipped:undefined-unit')
            continue
        f = U.factor(units, q)
        sl = U.slack(units, q)
        if np.issubdtype(np.asarray(exp).dtype, np.integer):
            c.add(bool(table.isint[:, table.columns.index(col)].all()) and bool((table.col(col) == exp).all()),
                  'integer columns are printed as integers and equal the system values', f'{K}:value:int:{col}',
                  got=table.col(col)[:6], exp=exp[:6])
        else:
            c.close(table.col(col), table.ulp(col), exp * f, sl,
                    f'column values equal the system values converted to the unit style ({q or "no unit"})',
                    f'{K}:value:{q or "plain"}:{units}', column=col, units=units, factor=f)
        if rec is not None and count:
            rec.count(f'monitor:{K}:column-compared')
            if q is not None and units != 'lj':
                rec.count(f'{K}:converted:{q}')


def run_data(ctx, am, tmpdir, n):
    rec = ctx.rec
    for i in ctx.cases('data', n):
        rng = ctx.rng
        cls = data_classes(i)
        style, units = cls['style'], cls['units']
        if cls['defaults']:
            style, units = 'atomic', 'metal'
        natoms = int(rng.integers(4, 13))
        desc = S.gen_system(rng, cls['kind'], cls['origin'], cls['scale'], cls['pbc'], natoms, cls['posclass'], cls['typeclass'])
        props = style_props(rng, style, natoms, cls['vel'])
        fL = U.factor(units, 'length')
        min_edge = min(desc['vects'][k, k] for k in range(3)) * fL
        fmt, swapped = pick_format(cls['ifmt'], min_edge)
        if swapped:
            rec.count('format-swapped')
        system = build_system(am, desc, props)
        truth = truth_of(system)
        natypes_req = truth['natypes'] + cls['natypes_extra'] if cls['natypes_extra'] else None
        sig = ('data', style, units, fmt, cls['kind'], cls['origin'], 'pbc%d%d%d' % tuple(cls['pbc']), cls['posclass'],
               cls['typeclass'], 'vel' if cls['vel'] else 'novel', cls['outmode'])
        kw = dict(float_format=fmt)
        if not cls['defaults']:
            kw.update(atom_style=style, units=units)
        else:
            rec.count('data:defaults-call')
        if natypes_req is not None:
            kw['natypes'] = natypes_req
        if cls['safecopy']:
            kw['safecopy'] = True
            arg = system
        else:
            arg = copy.deepcopy(system)                      # the writer wraps its argument in place
        allcols = F.atom_style_layouts(style)[-1] + (F.velocity_layout(style) if cls['vel'] else [])
        undefined = any(not U.defined(units, F.COLUMN_QUANTITY[c_]) for c_ in allcols if c_ in F.COLUMN_QUANTITY)
        wkey = 'data:write'
        accept = ()
        if undefined:
            accept = (KeyError,)                             # LAMMPS defines no such unit for this style: refusal accepted
            rec.count('data:undefined-unit-class')
        out, path = None, None
        with ctx.guard('dump(atom_data) writes a file for every supported atom style and unit style', wkey, accept=accept):
            out, path = write(tmpdir, f'data{i}', cls['outmode'], lambda f: am.dump('atom_data', arg, f=f, **kw)
                              if i % 2 else arg.dump('atom_data', f=f, **kw))
        rec.count('data:style:' + ('hybrid' if style.startswith('hybrid') else style))
        rec.count('data:units:' + units)
        rec.count('data:pos:' + cls['posclass'])
        rec.count('data:fmt:' + fmt)
        if out is None:
            rec.case(sig, nontrivial=False)
            continue
        text, info = out                                     # (content, info) in every output mode
        ok = check_data_file(rec, cls, truth, text, info, path, units, style, fmt, natypes_req)
        if cls['safecopy']:
            rec.check(np.array_equal(system.atoms.pos, truth['X']) and np.array_equal(system.box.vects, truth['V']),
                      'safecopy=True leaves the argument unwrapped', 'data:safecopy')
        rec.case(sig, nontrivial=ok, fp=fingerprint(desc['vects'], desc['origin'], desc['pos'], desc['atype'], sig))
        if i < 24:
            rec.sample(dict(kind='atom_data', style=style, units=units, float_format=fmt, pbc=cls['pbc'], posclass=cls['posclass'],
                            file=text[:700]))


# =======================================================================================
# LAMMPS dump files
# =======================================================================================
DUMP_VARIANTS = ['default', 'x', 'xs', 'xu', 'xsu', 'mixed', 'allpos']


def dump_classes(i):
    p = i % (len(DUMP_VARIANTS) * len(UNITS))
    r = i // (len(DUMP_VARIANTS) * len(UNITS))
    return dict(
        variant=DUMP_VARIANTS[p % len(DUMP_VARIANTS)], units=UNITS[p // len(DUMP_VARIANTS)],
        ifmt=(i + r) % 4,
        kind=S.LAMMPS_KINDS[(i // 3 + r) % len(S.LAMMPS_KINDS)],
        origin=cells.ORIGINS[(i // 5 + r) % 3],
        pbc=cells.PBCS[(i * 5 + i // 8 + r) % 8],
        posclass=S.POS_CLASSES[(i // 2 + i + r) % 4],
        typeclass=S.TYPE_CLASSES[(i // 7 + r) % 4],
        carried_ids=bool((i // 2 + i // 14) % 2),
        outmode=OUTMODES[(i + i // 9) % 3],
        scale=[1.0, 12.0][(i // 13) % 2],
        return_prop_info=bool(i % 5 == 2),
    )


def run_dumpfile(ctx, am, tmpdir, n):
    rec = ctx.rec
    for i in ctx.cases('dumpfile', n):
        rng = ctx.rng
        cls = dump_classes(i)
        units, variant = cls['units'], cls['variant']
        natoms = int(rng.integers(4, 13))
        desc = S.gen_system(rng, cls['kind'], cls['origin'], cls['scale'], cls['pbc'], natoms, cls['posclass'], cls['typeclass'])
        props = {}
        if cls['carried_ids']:
            props['atom_id'] = rng.permutation(natoms) * int(rng.integers(1, 4)) + int(rng.integers(1, 50))
        if variant in ('default', 'mixed'):
            names = list(DUMP_STD_PROPS)
            take = [names[(i + j * 5) % len(names)] for j in range(4)]
            for pname in dict.fromkeys(take):
                if pname == 'torque' and not U.defined(units, 'torque'):
                    continue
                shp = DUMP_STD_PROPS[pname]
                props[pname] = S.gen_values(rng, natoms, shp, 'int' if pname == 'm_id' else 'float', positive=pname in POSITIVE)
            if variant == 'default':
                props['stress'] = S.gen_values(rng, natoms, (3, 3))
                props['pe'] = S.gen_values(rng, natoms, ())
                props['grain'] = S.gen_values(rng, natoms, (), 'int')
        fL = U.factor(units, 'length')
        fmt, swapped = pick_format(cls['ifmt'], min(desc['vects'][k, k] for k in range(3)) * fL)
        if swapped:
            rec.count('format-swapped')
        system = build_system(am, desc, props)
        truth = truth_of(system)
        kw = dict(lammps_units=units, float_format=fmt)
        if variant == 'default':
            pass
        elif variant == 'mixed':
            kw['prop_name'] = ['atom_id', 'atype', 'spos'] + [k for k in props if k != 'atom_id']
        elif variant == 'allpos':
            kw['prop_name'] = ['atom_id', 'atype', 'pos', 'spos', 'upos', 'supos']
        else:
            kw['prop_name'] = ['atom_id', 'atype', {'x': 'pos', 'xs': 'spos', 'xu': 'upos', 'xsu': 'supos'}[variant]]
        if cls['return_prop_info']:
            kw['return_prop_info'] = True
        sig = ('dumpfile', variant, units, fmt, cls['kind'], cls['origin'], 'pbc%d%d%d' % tuple(cls['pbc']), cls['posclass'],
               'ids' if cls['carried_ids'] else 'noids', cls['outmode'])
        wkey = 'dumpfile:write:lj' if units == 'lj' else 'dumpfile:write'
        out, path = None, None
        with ctx.guard('dump(atom_dump) writes a file for every unit style', wkey):
            out, path = write(tmpdir, f'dump{i}', cls['outmode'], lambda f: system.dump('atom_dump', f=f, **kw))
        rec.count('dumpfile:units:' + units)
        rec.count('dumpfile:variant:' + variant)
        if out is None:
            rec.case(sig, nontrivial=False)
            continue
        rec.check(np.array_equal(system.atoms.pos, truth['X']), 'dump(atom_dump) does not move the atoms', 'dumpfile:unmoved')
        if cls['outmode'] == 'string':
            text = out[0] if cls['return_prop_info'] else out
        else:
            text = out[0]
        ok = check_dump_file(rec, truth, text, units, fmt, variant)
        rec.case(sig, nontrivial=ok, fp=fingerprint(desc['vects'], desc['origin'], desc['pos'], desc['atype'], sig))
        if i < 24:
            rec.sample(dict(kind='atom_dump', variant=variant, units=units, float_format=fmt, pbc=cls['pbc'], file=text[:700]))


def check_dump_file(rec, truth, text, units, fmt, variant):
    K = 'dumpfile'
    try:
        snaps = F.parse_lammps_dump(text)
    except F.FormatError as e:
        rec.fail('dump file is well-formed (ITEM blocks, counts, boundary flags)', f'{K}:wellformed:{e.code}', error=e, head=text[:400])
        return False
    rec.count('monitor:dumpfile:parsed')
    s = snaps[0]
    N = truth['N']
    V, o, pbc = truth['V'], truth['o'], truth['pbc']
    fL, sL = U.factor(units, 'length'), U.slack(units, 'length')
    rec.check(len(snaps) == 1, 'one snapshot per written system', f'{K}:snapshots', n=len(snaps))
    rec.check(s.natoms == N, 'NUMBER OF ATOMS equals the number of atoms (and of atom lines)', f'{K}:count:atoms', got=s.natoms, exp=N)
    rec.check(s.periodic == pbc and all(b == 'pp' or 'p' not in b for b in s.boundary),
              'boundary flags: pp exactly for the periodic directions', f'{K}:boundary', got=s.boundary, pbc=pbc)
    tilts = np.array([V[1, 0], V[2, 0], V[2, 1]])
    tri = bool((tilts != 0).any())
    rec.check(s.triclinic == tri, '"xy xz yz" bounding-box form iff a tilt factor is non-zero', f'{K}:triclinic-flag',
              triclinic=s.triclinic, system_tilts=tilts)
    if tri:
        rec.count('dumpfile:triclinic')
        if (np.sign(tilts) < 0).any():
            rec.count('dumpfile:negative-tilt')
        if (np.sign(tilts) > 0).any():
            rec.count('dumpfile:positive-tilt')
    rec.check(bool((s.bounds[:, 0] < s.bounds[:, 1]).all()) and bool((s.lohi[:, 0] < s.lohi[:, 1]).all()),
              'bounds satisfy lo < hi (bounding box and recovered box)', f'{K}:lohi', bounds=s.bounds, lohi=s.lohi)
    # bounding box convention, checked directly on the printed numbers
    xy, xz, yz = tilts * fL
    exp_b = np.array([[o[0] * fL + min(0.0, xy, xz, xy + xz), (o[0] + V[0, 0]) * fL + max(0.0, xy, xz, xy + xz)],
                      [o[1] * fL + min(0.0, yz), (o[1] + V[1, 1]) * fL + max(0.0, yz)],
                      [o[2] * fL, (o[2] + V[2, 2]) * fL]])
    c = Checks()
    c.close(s.bounds, s.bounds_ulp, exp_b, sL, 'bounding box = box lo/hi shifted by min/max of the tilt sums', f'{K}:bounding-box',
            extra=sL * (np.abs(o).max() + truth_L(V)) * fL + EPS * fL * (np.abs(o).max() + truth_L(V)))
    if s.triclinic:
        c.close(s.tilt, s.tilt_ulp, tilts * fL, sL, 'tilt factors are written in the order xy, xz, yz', f'{K}:tilt-order')
    Vw, ow = s.vects() / fL, s.origin() / fL
    ex = sL * (np.abs(o).max() + truth_L(V)) + EPS * (np.abs(o).max() + truth_L(V))
    c.close(Vw, s.vects_ulp() / fL, V, 0, 'cell recovered from the bounding box equals the system cell', f'{K}:cell', extra=ex)
    c.close(ow, s.lohi_ulp[:, 0] / fL, o, 0, 'origin recovered from the bounding box equals the system origin', f'{K}:origin', extra=ex)
    check_token_shapes(c, s.box_tokens, fmt, 'box numbers are printed with the requested float_format', f'{K}:format:box')
    c.emit(rec)
    # ---- ids / types ---------------------------------------------------------------------
    if not (s.has('id') and s.has('type')):
        rec.fail('dump file carries id and type columns', f'{K}:columns:id-type', columns=s.columns)
        return False
    ids = s.col('id').astype(int)
    exp_ids = truth['props']['atom_id'] if 'atom_id' in truth['props'] else np.arange(1, N + 1)
    okid = len(set(ids.tolist())) == len(ids) and s.natoms == N and sorted(ids.tolist()) == sorted(np.asarray(exp_ids).tolist())
    rec.check(okid, 'atom ids are unique: 1..N, or the ids the system carries', f'{K}:ids', got=ids[:8], exp=np.asarray(exp_ids)[:8])
    if 'atom_id' in truth['props']:
        rec.count('dumpfile:carried-ids')
    if not okid:
        return False
    lookup = {int(v): k for k, v in enumerate(np.asarray(exp_ids).tolist())}
    order = np.array([lookup[int(v)] for v in ids])
    c = Checks()
    c.add(bool((s.col('type').astype(int) == truth['atype'][order]).all()), 'atom types equal the system types', f'{K}:types')
    # ---- positions in every variant present ----------------------------------------------------
    X = truth['X'][order]
    mag = np.abs(X) + np.abs(o)
    npos = 0
    for names, scaled, label in ((['x', 'y', 'z'], False, 'x'), (['xu', 'yu', 'zu'], False, 'xu'),
                                 (['xs', 'ys', 'zs'], True, 'xs'), (['xsu', 'ysu', 'zsu'], True, 'xsu')):
        if not all(s.has(nm) for nm in names):
            continue
        npos += 1
        vals, ul = s.cols(names), s.colulps(names)
        if scaled:
            got = vals @ V + o                                  # lamda/scaled coordinates -> Cartesian with the SYSTEM cell
            gul = ul @ np.abs(V)
            c.close(got, gul, X, 0, f'positions recovered from the scaled columns {label} equal the system positions',
                    f'{K}:pos:{label}', extra=EPS * (mag + np.abs(vals) @ np.abs(V) + truth_L(V)))
        else:
            c.close(vals / fL, ul / fL, X, 0, f'positions in the {label} columns equal the system positions', f'{K}:pos:{label}',
                    extra=sL * mag + EPS * (mag + truth_L(V)))
        rec.count(f'dumpfile:posvariant:{label}')
    c.add(npos > 0, 'a dump file holds positions in at least one of x|xs|xu|xsu', f'{K}:pos:none', columns=s.columns)
    # ---- other columns -----------------------------------------------------------------------
    skip = {'id', 'type', 'x', 'y', 'z', 'xu', 'yu', 'zu', 'xs', 'ys', 'zs', 'xsu', 'ysu', 'zsu'}
    ftoks = []
    for col in s.columns:
        j = s.columns.index(col)
        if col in skip:
            if col not in ('id', 'type'):
                ftoks += [row[j] for row in s.tokens]
            continue
        base = col.split('[')[0]
        pname = DUMP_PROP[col][0] if col in DUMP_PROP else base
        if pname in truth['props'] and not np.issubdtype(truth['props'][pname].dtype, np.integer):
            ftoks += [row[j] for row in s.tokens]
        if col in DUMP_PROP:
            compare_columns(c, rec, s, [col], order, truth, units, K, DUMP_PROP, F.DUMP_ATTR_QUANTITY, True)
        else:                                                # user property: name, name[i], name[i][j] ; no unit
            base = col.split('[')[0]
            idx = tuple(int(x[:-1]) for x in col.split('[')[1:])
            if base not in truth['props']:
                c.add(False, 'every column is backed by a system property', f'{K}:column:unknown', column=col)
                continue
            exp = truth['props'][base][(order,) + idx] if idx else truth['props'][base][order]
            if np.issubdtype(exp.dtype, np.integer):
                c.add(bool(s.isint[:, j].all() and (s.values[:, j] == exp).all()), 'integer user columns equal the system values',
                      f'{K}:value:int:user', column=col)
            else:
                c.close(s.values[:, j], s.ulps[:, j], exp, 1e-14, 'user-property columns equal the system values (no unit)',
                        f'{K}:value:user', column=col)
            rec.count('dumpfile:user-column')
    check_token_shapes(c, ftoks, fmt, 'atom numbers are printed with the requested float_format', f'{K}:format:atoms')
    c.emit(rec)
    return True


# =======================================================================================
# POSCAR
# =======================================================================================
COORDSTYLES = ['direct', 'cartesian', 'Direct', 'Cartesian', 'D', 'K']
PSCALES = [1.0, 2.5, 0.37]
PSYMBOLS = ['system', 'absent', 'argument']
PFORMATS = ['%.13e', '%.6f', '%.16e', '%.9f']


def poscar_classes(i):
    r = i // 72
    return dict(
        coordstyle=COORDSTYLES[i % 6], scale=PSCALES[(i // 6) % 3], symbols=PSYMBOLS[(i // 2 + i // 18) % 3],
        typeclass=S.TYPE_CLASSES[(i // 3 + r) % 4], kind=S.ALL_KINDS[(i + i // 9 + r) % 9],
        origin=cells.ORIGINS[(i // 4 + r) % 3], fmt=PFORMATS[(i + i // 6 + r) % 4],
        posclass=S.POS_CLASSES[(i // 5 + i) % 4], outmode=OUTMODES[(i + i // 7) % 3],
        header=['', 'generated', 'a b c 1 2 3'][(i // 2) % 3], default_call=(i % 29 == 7),
    )


def run_poscar(ctx, am, tmpdir, n):
    rec = ctx.rec
    for i in ctx.cases('poscar', n):
        rng = ctx.rng
        cls = poscar_classes(i)
        natoms = int(rng.integers(3, 12))
        desc = S.gen_system(rng, cls['kind'], cls['origin'], 1.0, (True, True, True), natoms, cls['posclass'], cls['typeclass'])
        system = build_system(am, desc, {}, symbols='system' if cls['symbols'] == 'system' else 'none')
        truth = truth_of(system)
        kw = dict(coordstyle=cls['coordstyle'], box_scale=cls['scale'], float_format=cls['fmt'], header=cls['header'])
        exp_symbols = list(desc['symbols']) if cls['symbols'] == 'system' else None
        if cls['symbols'] == 'argument':
            exp_symbols = [S.SYMBOL_POOL[(k * 3 + i) % len(S.SYMBOL_POOL)] for k in range(truth['natypes'])]
            kw['symbols'] = list(exp_symbols) if i % 2 else tuple(exp_symbols)
        if cls['default_call']:
            kw = {}
            exp_symbols = list(desc['symbols']) if cls['symbols'] == 'system' else None
            rec.count('poscar:defaults-call')
        sig = ('poscar', cls['coordstyle'], cls['scale'], cls['symbols'], cls['typeclass'], cls['kind'], cls['origin'], cls['fmt'],
               cls['posclass'], cls['outmode'])
        out, path = None, None
        with ctx.guard('dump(poscar) writes a file', 'poscar:write'):
            out, path = write(tmpdir, f'poscar{i}', cls['outmode'], lambda f: system.dump('poscar', f=f, **kw))
        rec.count('poscar:typeclass:' + cls['typeclass'])
        rec.count('poscar:symbols:' + cls['symbols'])
        rec.count('poscar:kind:' + cls['kind'])
        if out is None:
            rec.case(sig, nontrivial=False)
            continue
        text = out if cls['outmode'] == 'string' else out[0]
        ok = check_poscar(rec, truth, text, kw, exp_symbols)
        rec.case(sig, nontrivial=ok, fp=fingerprint(desc['vects'], desc['origin'], desc['pos'], desc['atype'], sig))
        if i < 24:
            rec.sample(dict(kind='poscar', cls={k: v for k, v in cls.items()}, file=text[:600]))


def check_poscar(rec, truth, text, kw, exp_symbols):
    K = 'poscar'
    scale = kw.get('box_scale', 1.0)
    fmt = kw.get('float_format', '%.13e')
    coordstyle = kw.get('coordstyle', 'direct')
    try:
        p = F.parse_poscar(text)
    except F.FormatError as e:
        rec.fail('POSCAR is well-formed under the VASP rules', f'{K}:wellformed:{e.code}', error=e, head=text[:400])
        return False
    rec.count('monitor:poscar:parsed')
    N, V, o = truth['N'], truth['V'], truth['o']
    L = truth_L(V)
    c = Checks()
    c.add(p.comment == kw.get('header', ''), 'first line is the requested comment', f'{K}:comment', got=p.comment)
    c.close(p.scale, p.scale_ulp, scale, 1e-15, 'second line is the requested scale factor', f'{K}:scale')
    lat_tol = 0.5 * p.lattice_ulp * abs(p.factor) + 0.5 * p.scale_ulp * np.abs(p.lattice_raw) + EPS * L
    c.close(p.lattice, 0, V, 0, 'lattice x scale factor equals the system cell', f'{K}:lattice', extra=lat_tol, scale=p.scale)
    c.add(p.symbols == exp_symbols, 'species line: the given symbols, else the system symbols when all are set, else absent',
          f'{K}:symbols', got=p.symbols, exp=exp_symbols)
    per_type = np.bincount(truth['atype'], minlength=truth['natypes'] + 1)[1:]
    counts = np.array(p.counts, int)
    padded = np.zeros(max(len(counts), len(per_type)), int)
    padded[:len(counts)] = counts
    exp_counts = np.zeros_like(padded)
    exp_counts[:len(per_type)] = per_type
    c.add(bool((padded == exp_counts).all()), 'ions-per-species numbers are the per-type atom counts in type order', f'{K}:counts',
          got=counts, exp=per_type)
    c.add(p.natoms == N, 'sum of the counts equals the number of atoms', f'{K}:count:atoms', got=p.natoms, exp=N)
    want_cart = coordstyle[0] in 'cCkK'
    c.add(p.cartesian == want_cart and p.mode_line.strip() == coordstyle, 'coordinate-mode line is the requested mode',
          f'{K}:mode', got=p.mode_line, exp=coordstyle)
    c.add(not p.selective and not p.trailing, 'no selective-dynamics block or trailing sections are written', f'{K}:extras')
    check_token_shapes(c, p.float_tokens, fmt, 'numbers are printed with the requested float_format', f'{K}:format')
    c.emit(rec)
    if p.natoms != N or not bool((padded == exp_counts).all()):
        return False
    # ---- positions, grouped by type ---------------------------------------------------------------
    order = np.argsort(truth['atype'], kind='stable')
    X = truth['X'][order]
    c = Checks()
    if p.cartesian:
        got = p.coords * p.factor
        gul = p.coords_ulp * abs(p.factor) + p.scale_ulp * np.abs(p.coords)
        rec.count('poscar:cartesian')
        if scale != 1.0:
            rec.count('poscar:cartesian-scaled')
        a = Checks()
        a.close(got, gul, X, 0, '', '', extra=EPS * (np.abs(X) + L))
        b = Checks()
        b.close(got, gul, X - o, 0, '', '', extra=EPS * (np.abs(X) + np.abs(o) + L))
        ok = a.nfail == 0 or b.nfail == 0
        if ok:
            rec.count('poscar:cartesian:absolute' if a.nfail == 0 else 'poscar:cartesian:minus-origin')
        if not ok:
            ok = match_within_types(got, gul, X, truth['atype'][order], EPS * (np.abs(X).max() + L))
        c.add(ok, 'Cartesian coordinates x scale factor equal the system positions (grouped by type)', f'{K}:pos:cartesian',
              got=got[:3], exp=X[:3], scale=p.scale)
    else:
        rec.count('poscar:direct')
        got = p.coords @ V + o
        gul = p.coords_ulp @ np.abs(V)
        ex = EPS * (np.abs(X) + np.abs(o) + np.abs(p.coords) @ np.abs(V))
        a = Checks()
        a.close(got, gul, X, 0, '', '', extra=ex)
        ok = a.nfail == 0
        if not ok:
            ok = match_within_types(got, gul, X, truth['atype'][order], ex.max())
        c.add(ok, 'direct coordinates . cell (+ origin) equal the system positions (grouped by type)', f'{K}:pos:direct',
              got=got[:3], exp=X[:3])
    c.emit(rec)
    rec.count('monitor:poscar:positions')
    return True


def match_within_types(got, gul, X, types, extra):
    """Order-free fallback: inside every type block each written atom matches a distinct system atom."""
    for t in np.unique(types):
        idx = np.where(types == t)[0]
        free = list(idx)
        for r in idx:
            hit = None
            for k in free:
                if (np.abs(got[r] - X[k]) <= 0.5 * gul[r] * (1 + 1e-9) + extra).all():
                    hit = k
                    break
            if hit is None:
                return False
            free.remove(hit)
    return True


# =======================================================================================
# whitespace tables (the engine of the data-file writer)
# =======================================================================================
TABLE_UNITS = [  # (property, quantity, atomman unit string, SI value of that unit)
    ('pos', 'length', 'nm', 1e-9), ('pos', 'length', 'm', 1.0), ('velocity', 'velocity', 'm/s', 1.0),
    ('charge', 'charge', 'C', 1.0), ('mass', 'mass', 'kg', 1.0), ('mass', 'mass', 'g/mol', U.GRAM_PER_MOL),
    ('pos', None, 'scaled', None), ('velocity', 'velocity', 'angstrom/ps', 100.0),
]


def check_table(rec, truth, out, names, pname, q, ustr, usi, header):
    """One whitespace table against the system: ``names`` = requested properties in column order, of which
    ``pname`` is written in unit ``ustr`` (quantity ``q``, SI value ``usi``; 'scaled' = box-relative)."""
    natoms = truth['N']
    try:
        t = F.parse_table(out, header=header)
    except F.FormatError as e:
        rec.fail('table is well-formed', f'table:wellformed:{e.code}', error=e, head=out[:300])
        return False
    rec.count('monitor:table:parsed')
    c = Checks()
    c.add(t.values.shape[0] == natoms, 'one row per atom', 'table:rows')
    col = 0
    for nm in names:
        if nm in ('atype', 'tag'):
            exp = truth['atype'] if nm == 'atype' else truth['props']['tag']
            c.add(bool(t.isint[:, col].all() and (t.values[:, col] == exp).all()), 'integer columns equal the system values',
                  'table:value:int')
            if header:
                c.add(t.names[col] == nm, 'header names the columns', 'table:header', got=t.names)
            col += 1
            continue
        val = truth['X'] if nm == 'pos' else truth['props'][nm]
        val = val.reshape(natoms, -1)
        w = val.shape[1]
        got, ul = t.values[:, col:col + w], t.ulps[:, col:col + w]
        if nm != pname:                                       # written without a unit: the numbers as held
            c.close(got, ul, val, 1e-14, 'columns without a unit equal the system values', 'table:value:plain')
        elif ustr == 'scaled':
            back = got @ truth['V'] + truth['o']
            c.close(back, ul @ np.abs(truth['V']), truth['X'], 0, 'scaled columns are box-relative coordinates', 'table:value:scaled',
                    extra=EPS * (np.abs(truth['X']) + np.abs(truth['o']) + np.abs(got) @ np.abs(truth['V'])))
        else:
            f = U.working_si(q) / usi
            c.close(got, ul, val * f, U.SLACK, 'columns equal the system values converted to the requested unit', f'table:value:{ustr}')
        col += w
    c.add(col == t.values.shape[1], 'table has exactly the requested columns', 'table:ncols', got=t.values.shape[1], exp=col)
    c.emit(rec)
    return True


def run_table(ctx, am, tmpdir, n):
    rec = ctx.rec
    for i in ctx.cases('table', n):
        rng = ctx.rng
        natoms = int(rng.integers(3, 10))
        kind = S.LAMMPS_KINDS[i % 8]
        desc = S.gen_system(rng, kind, cells.ORIGINS[(i // 2) % 3], 1.0, (True, True, True), natoms, S.POS_CLASSES[i % 4], 'dense')
        props = dict(velocity=S.gen_values(rng, natoms, (3,)), charge=S.gen_values(rng, natoms, ()),
                     mass=S.gen_values(rng, natoms, (), positive=True), tag=S.gen_values(rng, natoms, (), 'int'))
        system = build_system(am, desc, props)
        truth = truth_of(system)
        pname, q, ustr, usi = TABLE_UNITS[i % len(TABLE_UNITS)]
        header = bool((i // 2) % 2)
        fmt = ['%.13f', '%.8e', '%.6f'][i % 3]
        names = ['atype', pname, 'tag'] if i % 2 else ['tag', 'atype', pname]
        units = [None if nm != pname else ustr for nm in names]
        sig = ('table', pname, ustr, header, fmt)
        out = None
        with ctx.guard('dump(table) writes a table', 'table:write'):
            if (i // 4) % 2:                                     # the same request in its structured prop_info form
                rec.count('table:prop_info-form')
                pinfo = [dict(prop_name=nm, **({'unit': u_} if u_ is not None else {})) for nm, u_ in zip(names, units)]
                for d_ in pinfo:
                    if d_['prop_name'] in ('pos', 'velocity'):
                        d_['shape'] = (3,)
                out = system.dump('table', prop_info=pinfo, header=header, float_format=fmt)
            else:
                out = system.dump('table', prop_name=names, unit=units, header=header, float_format=fmt)
        if out is None:
            rec.case(sig, nontrivial=False)
            continue
        if not check_table(rec, truth, out, names, pname, q, ustr, usi, header):
            rec.case(sig, nontrivial=False)
            continue
        rec.case(sig, nontrivial=True, fp=fingerprint(desc['pos'], sig))
        if i < 4:
            rec.sample(dict(kind='table', names=names, unit=units, file=out[:300]))


# =======================================================================================
# call histories: 2-4 writer calls in one process, consecutive calls differing in one aspect
# =======================================================================================
VEL_FAMILY = ('velocity', 'eradial_velocity', 'ang_momentum', 'ang_velocity')
SEQ_DUMP_VARIANTS = ['x', 'xs', 'xu', 'xsu', 'default', 'allpos']
SEQ_TABLE_UNITS = {   # property -> three (quantity, unit string, SI value) choices
    'pos': [('length', 'nm', 1e-9), (None, 'scaled', None), ('length', 'm', 1.0)],
    'velocity': [('velocity', 'm/s', 1.0), ('velocity', 'angstrom/ps', 100.0), ('velocity', 'nm/ps', 1000.0)],
    'mass': [('mass', 'kg', 1.0), ('mass', 'g/mol', U.GRAM_PER_MOL), ('mass', 'g', 1e-3)],
    'charge': [('charge', 'C', 1.0), ('charge', 'e', U.E_CHARGE), ('charge', 'C', 1.0)],
}


def seq_desc(rng, i, k, lammps=True, pbc=None, natoms=None):
    """k-th system of sequence case i (classes rotate with i and k; r = round, so that the rotation is not
    locked to the class i mod NC)."""
    j = i + 3 * k
    r = i // Q.NC
    kinds = S.LAMMPS_KINDS if lammps else S.ALL_KINDS
    natoms = natoms or int(rng.integers(4, 11))
    return S.gen_system(rng, kinds[(j // 2 + j) % len(kinds)], cells.ORIGINS[(j // 5 + j + r) % 3], 1.0,
                        pbc if pbc is not None else cells.PBCS[(7 - (j * 3 + j // 8)) % 8], natoms,
                        S.POS_CLASSES[(j // 3 + j) % 4], S.TYPE_CLASSES[(j // 7 + j + r) % 4])


def units_defined(styles, vel):
    """Unit styles in which every column of every given atom style has a unit in the LAMMPS manual."""
    out = []
    for u in UNITS:
        ok = True
        for st in styles:
            cols = F.atom_style_layouts(st)[-1] + (F.velocity_layout(st) if vel else [])
            ok = ok and all(U.defined(u, F.COLUMN_QUANTITY[c_]) for c_ in cols if c_ in F.COLUMN_QUANTITY)
        if ok:
            out.append(u)
    return out


def seq_format(rec, ifmt, descs, unit_styles):
    fL = min(U.factor(u, 'length') for u in unit_styles)
    edge = min(d['vects'][k, k] for d in descs for k in range(3))
    fmt, swapped = pick_format(ifmt, edge * fL)
    if swapped:
        rec.count('format-swapped')
    return fmt


class SeqSystems:
    """System descriptions of one sequence, built into atomman Systems on demand; with ``share`` one object
    per description is handed to every call that uses it."""

    def __init__(self, am, share):
        self.am, self.share = am, share
        self.spec, self.obj = {}, {}

    def add(self, key, desc, props, symbols='system'):
        self.spec[key] = (desc, props, symbols)

    def get(self, key):
        if self.share:
            if key not in self.obj:
                self.obj[key] = build_system(self.am, *self.spec[key])
            return self.obj[key]
        return build_system(self.am, *self.spec[key])


def same_system(system, truth):
    if not (np.array_equal(system.atoms.pos, truth['X']) and np.array_equal(system.box.vects, truth['V'])
            and np.array_equal(system.box.origin, truth['o']) and np.array_equal(system.atoms.atype, truth['atype'])
            and [bool(b) for b in system.pbc] == truth['pbc'] and tuple(system.symbols) == truth['symbols']):
        return False
    names = [k for k in system.atoms_prop() if k not in ('atype', 'pos')]
    if sorted(names) != sorted(truth['props']):
        return False
    return all(np.array_equal(system.atoms.view[k], truth['props'][k]) for k in names)


# ---- element builders: plan -> ({letter: element}, systems) ------------------------------------------
def seq_build_data(ctx, am, i, pl):
    rng, rec = ctx.rng, ctx.rec
    aspect, r = pl['aspect'], pl['round']
    sys_ = SeqSystems(am, pl['share'] or aspect == 'object-reuse')
    vel = pl['vel']
    if aspect.endswith('-vel') or aspect == 'velocities':
        vel = True
    style_aspect = aspect.startswith(('hybrid', 'plain'))
    if style_aspect:
        styles = list(Q.style_triple(aspect, r))
    elif aspect == 'velocities':
        styles = [Q.VEL_STYLES[r % len(Q.VEL_STYLES)]] * 3
    else:
        styles = [Q.BASE_STYLES[(r + i // 5) % len(Q.BASE_STYLES)]] * 3
    ok_units = units_defined(styles, vel)
    ndesc = 3 if aspect == 'system' else 1
    descs = [seq_desc(rng, i, k) for k in range(ndesc)]
    if aspect == 'units':
        unit_styles = [ok_units[(r + 3 * k) % len(ok_units)] for k in range(3)]
        if len(set(unit_styles)) < 3:
            unit_styles = ok_units[:3]
    else:
        unit_styles = [ok_units[(i // 7) % len(ok_units)]] * 3
    if aspect == 'float_format':
        fmts = [seq_format(rec, (r + k) % 4, descs, unit_styles) for k in range(3)]
        if len(set(fmts)) < 3:
            fmts = ['%.16e', '%.5e', '%.9e']
    else:
        fmts = [seq_format(rec, i + 2 * r + r // 4, descs, unit_styles)] * 3
    outmodes = [OUTMODES[(i + i // 9 + r) % 3]] * 3
    if aspect == 'outmode':
        outmodes = [OUTMODES[(r + k) % 3] for k in range(3)]
    elems, pools = {}, {}
    for k, letter in enumerate('ABC'):
        kd = k if ndesc == 3 else 0
        d = descs[kd]
        with_vel = vel and not (aspect == 'velocities' and k == 1)
        key = ('sys', kd, 'vel' if with_vel else 'novel')
        if key not in sys_.spec:
            if kd not in pools:                                 # union of what all three styles need (velocities included)
                pools[kd] = {}
                for st in dict.fromkeys(styles):
                    for name, val in style_props(rng, st, len(d['atype']), True).items():
                        pools[kd].setdefault(name, val)
            sys_.add(key, d, {n_: v for n_, v in pools[kd].items() if with_vel or n_ not in VEL_FAMILY})
        elems[letter] = dict(sys=key, style=styles[k], units=unit_styles[k], fmt=fmts[k], outmode=outmodes[k],
                             safecopy=True if pl['share'] else bool((i + k) % 2), via_module=bool((i + k) % 3 == 0))
    if aspect == 'object-reuse':
        elems['A']['safecopy'] = True
        elems['B'] = dict(elems['A'], safecopy=False)
        elems['D'] = dict(elems['B'])
    if aspect == 'velocities':
        elems['C'] = elems['A']
    return elems, sys_


def seq_dump_props(rng, i, natoms, unit_styles, carried):
    props = {}
    if carried:
        props['atom_id'] = rng.permutation(natoms) * int(rng.integers(1, 4)) + int(rng.integers(1, 50))
    names = list(DUMP_STD_PROPS)
    for pname in dict.fromkeys(names[(i + j * 5) % len(names)] for j in range(4)):
        if pname == 'torque' and not all(U.defined(u, 'torque') for u in unit_styles):
            continue
        props[pname] = S.gen_values(rng, natoms, DUMP_STD_PROPS[pname], 'int' if pname == 'm_id' else 'float', positive=pname in POSITIVE)
    return props


def seq_build_dumpfile(ctx, am, i, pl):
    rng, rec = ctx.rng, ctx.rec
    aspect, r = pl['aspect'], pl['round']
    sys_ = SeqSystems(am, pl['share'])
    unit_styles = [UNITS[(i // 7) % 8]] * 3
    if aspect == 'units':
        unit_styles = [UNITS[(r + 3 * k) % 8] for k in range(3)]
    ndesc = 3 if aspect == 'system' else 1
    descs = [seq_desc(rng, i, k) for k in range(ndesc)]
    for k, d in enumerate(descs):
        props = seq_dump_props(rng, i, len(d['atype']), unit_styles, carried=bool((i // 2 + k) % 2))
        if k == 0 or aspect == 'system':
            props['grain'] = S.gen_values(rng, len(d['atype']), (), 'int')
            props['stress'] = S.gen_values(rng, len(d['atype']), (3, 3))
        sys_.add(('sys', k), d, props)
    fmts = [seq_format(rec, i + 2 * r + r // 4, descs, unit_styles)] * 3
    if aspect in ('float_format', 'prop_info-reuse'):
        fmts = [seq_format(rec, (r + k) % 4, descs, unit_styles) for k in range(3)]
        if len(set(fmts)) < 3:
            fmts = ['%.16e', '%.5e', '%.9e']
    std = [k for k in sys_.spec[('sys', 0)][1] if k not in ('atom_id', 'grain', 'stress')]
    full = ['atom_id', 'atype', 'pos'] + std + ['grain']
    variants = [SEQ_DUMP_VARIANTS[(i // 5) % 6]] * 3
    lists = [None] * 3
    if aspect == 'variant':
        variants = [SEQ_DUMP_VARIANTS[(r + 2 * k + k // 2) % 6] for k in range(3)]
    elif aspect == 'prop-perm':
        variants = ['list'] * 3
        lists = [full, full[::-1], full[2:] + full[:2]]
    elif aspect == 'prop-subset':
        variants = ['list'] * 3
        lists = [full, ['atom_id', 'atype', 'spos'] + std[:1], ['atype', 'atom_id', 'upos', 'grain'] + std[1:]]
    elif aspect == 'prop_info-reuse':
        variants = ['prop_info'] * 3
        pinfo = [dict(prop_name='atom_id', table_name='id'), dict(prop_name='atype', table_name='type'),
                 dict(prop_name='spos', table_name=['xs', 'ys', 'zs'], unit='scaled'), dict(prop_name='grain'),
                 dict(prop_name='stress', shape=(3, 3))]
        lists = [pinfo] * 3                                     # the same list object for every call
    elems = {}
    for k, letter in enumerate('ABC'):
        elems[letter] = dict(sys=('sys', k if ndesc == 3 else 0), units=unit_styles[k], fmt=fmts[k], variant=variants[k],
                             names=lists[k], outmode=OUTMODES[(i + i // 9 + r) % 3], return_prop_info=bool((i + k) % 5 == 2))
    return elems, sys_


def seq_build_poscar(ctx, am, i, pl):
    rng = ctx.rng
    aspect, r = pl['aspect'], pl['round']
    sys_ = SeqSystems(am, pl['share'])
    ndesc = 3 if aspect == 'system' else 1
    symmode = 'system' if aspect == 'symbols' else PSYMBOLS[(i // 2 + r) % 3]
    for k in range(ndesc):
        d = seq_desc(rng, i, k, lammps=False, pbc=(True, True, True))
        sys_.add(('sys', k), d, {}, 'system' if symmode == 'system' else 'none')
    elems = {}
    for k, letter in enumerate('ABC'):
        key = ('sys', k if ndesc == 3 else 0)
        d = sys_.spec[key][0]
        v = lambda name, table, base: table[(base + (k if aspect == name else 0)) % len(table)]   # noqa: E731
        kw = dict(coordstyle=v('coordstyle', COORDSTYLES, r + i // 4), box_scale=v('box_scale', PSCALES, r + i // 5),
                  float_format=v('float_format', PFORMATS, r + i // 6), header=v('header', ['', 'generated', 'a b c 1 2 3'], r))
        exp_symbols = list(d['symbols']) if symmode == 'system' else None
        if symmode == 'argument' or (aspect == 'symbols' and k > 0):
            ntypes = d['ntypes'] if symmode == 'system' else int(np.max(d['atype']))   # a System without symbols has max(atype) types
            exp_symbols = [S.SYMBOL_POOL[(j * 3 + i + 2 * k) % len(S.SYMBOL_POOL)] for j in range(ntypes)]
            kw['symbols'] = list(exp_symbols) if (i + k) % 2 else tuple(exp_symbols)
        elems[letter] = dict(sys=key, kw=kw, exp_symbols=exp_symbols, outmode=OUTMODES[(i + i // 7) % 3])
    if aspect == 'header':
        elems['C'] = elems['A']
    return elems, sys_


def seq_build_table(ctx, am, i, pl):
    rng = ctx.rng
    aspect, r = pl['aspect'], pl['round']
    sys_ = SeqSystems(am, pl['share'])
    ndesc = 3 if aspect == 'system' else 1
    for k in range(ndesc):
        d = seq_desc(rng, i, k, pbc=(True, True, True))
        n = len(d['atype'])
        sys_.add(('sys', k), d, dict(velocity=S.gen_values(rng, n, (3,)), charge=S.gen_values(rng, n, ()),
                                     mass=S.gen_values(rng, n, (), positive=True), tag=S.gen_values(rng, n, (), 'int')))
    pname = ['pos', 'velocity', 'mass', 'charge'][(r + i // 3) % 4]
    other = ['velocity', 'mass', 'charge', 'pos'][(r + i // 3) % 4]          # written without a unit
    base = ['atype', pname, 'tag', other]
    elems = {}
    for k, letter in enumerate('ABC'):
        v = lambda name, table, b: table[(b + (k if aspect == name else 0)) % len(table)]   # noqa: E731
        q, ustr, usi = v('unit', SEQ_TABLE_UNITS[pname], r)
        names = base
        if aspect == 'prop-perm':
            names = [base, base[::-1], base[1:] + base[:1]][k]
        elif aspect == 'prop-subset':
            names = [base, base[:2], [pname, 'tag']][k]
        fmt = v('float_format', ['%.13f', '%.8e', '%.6f'], 2 * r + i)
        if aspect == 'prop_info-reuse':
            fmt = ['%.13f', '%.8e', '%.6f'][(r + i + k) % 3]
        elems[letter] = dict(sys=('sys', k if ndesc == 3 else 0), names=names, pname=pname, q=q, ustr=ustr, usi=usi,
                             header=v('header', [False, True], r + i // 2), fmt=fmt,
                             form='prop_info' if aspect == 'prop_info-reuse' or (i // 4) % 2 else 'lists')
    if aspect == 'prop_info-reuse':                             # the same list object for every call
        e = elems['A']
        pinfo = [dict(prop_name=nm, **({'unit': e['ustr']} if nm == e['pname'] else {})) for nm in e['names']]
        for d_ in pinfo:
            if d_['prop_name'] in ('pos', 'velocity'):
                d_['shape'] = (3,)
        for e in elems.values():
            e['pinfo'] = pinfo
    if aspect == 'header':
        elems['C'] = elems['A']
    return elems, sys_


# ---- one call of a sequence: write, judge with the independent parser, return what was written --------
def seq_call_data(ctx, am, tmpdir, tag, el, system, truth):
    rec = ctx.rec
    kw = dict(atom_style=el['style'], units=el['units'], float_format=el['fmt'])
    if el['safecopy']:
        kw['safecopy'] = True
    out = None
    with ctx.guard('dump(atom_data) writes a file for every supported atom style and unit style', 'data:write'):
        out, path = write(tmpdir, tag, el['outmode'], lambda f: am.dump('atom_data', system, f=f, **kw) if el['via_module']
                          else system.dump('atom_data', f=f, **kw))
    if out is None:
        return None
    text, info = out
    ok = check_data_file(rec, None, truth, text, info, path, el['units'], el['style'], el['fmt'], None)
    return dict(text=text, extra=info, complete=ok, style='atom_data', kwargs=kw)


def seq_call_dumpfile(ctx, am, tmpdir, tag, el, system, truth):
    rec = ctx.rec
    kw = dict(lammps_units=el['units'], float_format=el['fmt'])
    variant = el['variant']
    if variant == 'prop_info':
        kw['prop_info'] = el['names']
    elif variant == 'list':
        kw['prop_name'] = list(el['names'])
    elif variant == 'allpos':
        kw['prop_name'] = ['atom_id', 'atype', 'pos', 'spos', 'upos', 'supos']
    elif variant != 'default':
        kw['prop_name'] = ['atom_id', 'atype', {'x': 'pos', 'xs': 'spos', 'xu': 'upos', 'xsu': 'supos'}[variant]]
    if el['return_prop_info']:
        kw['return_prop_info'] = True
    out = None
    with ctx.guard('dump(atom_dump) writes a file for every unit style', 'dumpfile:write:lj' if el['units'] == 'lj' else 'dumpfile:write'):
        out, path = write(tmpdir, tag, el['outmode'], lambda f: system.dump('atom_dump', f=f, **kw))
    if out is None:
        return None
    if el['outmode'] == 'string':
        text = out[0] if el['return_prop_info'] else out
    else:
        text = out[0]
    ok = check_dump_file(rec, truth, text, el['units'], el['fmt'], variant)
    return dict(text=text, extra=None, complete=ok, style='atom_dump', kwargs=kw)


def seq_call_poscar(ctx, am, tmpdir, tag, el, system, truth):
    out = None
    with ctx.guard('dump(poscar) writes a file', 'poscar:write'):
        out, path = write(tmpdir, tag, el['outmode'], lambda f: system.dump('poscar', f=f, **el['kw']))
    if out is None:
        return None
    text = out if el['outmode'] == 'string' else out[0]
    ok = check_poscar(ctx.rec, truth, text, el['kw'], el['exp_symbols'])
    return dict(text=text, extra=None, complete=ok, style='poscar', kwargs=dict(el['kw']))


def seq_call_table(ctx, am, tmpdir, tag, el, system, truth):
    if el['form'] == 'prop_info':
        pinfo = el.get('pinfo')
        if pinfo is None:
            pinfo = [dict(prop_name=nm, **({'unit': el['ustr']} if nm == el['pname'] else {})) for nm in el['names']]
            for d_ in pinfo:
                if d_['prop_name'] in ('pos', 'velocity'):
                    d_['shape'] = (3,)
        kw = dict(prop_info=pinfo, header=el['header'], float_format=el['fmt'])
    else:
        kw = dict(prop_name=list(el['names']), unit=[el['ustr'] if nm == el['pname'] else None for nm in el['names']],
                  header=el['header'], float_format=el['fmt'])
    out = None
    with ctx.guard('dump(table) writes a table', 'table:write'):
        out = system.dump('table', **kw)
    if out is None:
        return None
    ok = check_table(ctx.rec, truth, out, el['names'], el['pname'], el['q'], el['ustr'], el['usi'], el['header'])
    return dict(text=out, extra=None, complete=ok, style='table', kwargs=kw)


SEQ_BUILD = dict(data=seq_build_data, dumpfile=seq_build_dumpfile, poscar=seq_build_poscar, table=seq_build_table)
SEQ_CALL = dict(data=seq_call_data, dumpfile=seq_call_dumpfile, poscar=seq_call_poscar, table=seq_call_table)
FRESH_CODE = 'from vf.props.c07 import fresh_child; fresh_child()'


def fresh_child():
    """Entry point of the reference process: ONE writer call as the first thing a new interpreter does."""
    import pickle
    import sys
    with open(sys.argv[1], 'rb') as fh:
        spec = pickle.load(fh)
    import atomman as am
    system = build_system(am, spec['desc'], spec['props'], spec['symbols'])
    try:
        out = ('ok', system.dump(spec['style'], **spec['kwargs']))
    except Exception as e:                                    # reported to the parent, which decides
        out = ('exception', f'{type(e).__name__}: {e}')
    with open(sys.argv[2], 'wb') as fh:
        pickle.dump(dict(file=am.__file__, out=out), fh)


def fresh_text(am, tmpdir, tag, spec):
    """Text the same request yields in a brand-new process (None when the helper process could not be run)."""
    import pickle
    import subprocess
    import sys
    fin, fout = os.path.join(tmpdir, tag + '.req'), os.path.join(tmpdir, tag + '.ans')
    with open(fin, 'wb') as fh:
        pickle.dump(spec, fh)
    env = dict(os.environ, PYTHONPATH=os.pathsep.join(p for p in sys.path if p))
    # the workers run with PYTHONDONTWRITEBYTECODE; let the helper processes share compiled modules (speed only)
    env.pop('PYTHONDONTWRITEBYTECODE', None)
    env['PYTHONPYCACHEPREFIX'] = os.path.join(os.environ.get('VF_SHADOW') or tmpdir, '.vf-c07-pyc')
    try:
        r = subprocess.run([sys.executable, '-W', 'ignore', '-c', FRESH_CODE, fin, fout], env=env, capture_output=True, timeout=300)
        with open(fout, 'rb') as fh:
            ans = pickle.load(fh)
    except Exception:
        return None
    if r.returncode != 0 or os.path.realpath(ans['file']) != os.path.realpath(am.__file__):
        return None
    kind, out = ans['out']
    if kind != 'ok':
        return ('exception', out)
    return ('ok', out[0] if isinstance(out, tuple) else out)


def run_seq(ctx, am, tmpdir, n):
    rec = ctx.rec
    for i in ctx.cases('seq', n):
        pl = Q.plan(i)
        fmt, aspect, pattern = pl['format'], pl['aspect'], pl['pattern']
        rec.count(f'seq:class:{fmt}:{aspect}')
        rec.count('seq:pattern:' + pattern)
        elems, systems = SEQ_BUILD[fmt](ctx, am, i, pl)
        if systems.share:
            rec.count('seq:shared-object')
        sig = ('seq', fmt, aspect, pattern, 'shared' if systems.share else 'rebuilt')
        first, last, complete, fps = {}, None, True, []
        prev = None
        for pos_, letter in enumerate(pattern):
            el = elems[letter]
            system = systems.get(el['sys'])
            truth = truth_of(system)                           # the state of the object at the moment of the call
            if prev is not None and fmt == 'data':
                a, b = prev.get('style', ''), el.get('style', '')
                if a != b and a.startswith('hybrid') and b.startswith('hybrid') and prev['units'] == el['units']:
                    rec.count('seq:data:consecutive-different-hybrids-same-units')
                    if sorted(a.split()) == sorted(b.split()):
                        rec.count('seq:data:consecutive-hybrid-permutations')
            prev = el
            res = SEQ_CALL[fmt](ctx, am, tmpdir, f'seq{i}{letter}', el, system, truth)
            rec.count('seq:calls')
            if res is None:
                complete = False
                continue
            rec.count('monitor:seq:files-judged')
            complete = complete and res['complete']
            inplace = fmt == 'data' and not el['safecopy']
            if systems.share and not inplace:
                rec.check(same_system(system, truth), 'a writer call leaves the System it was given unchanged '
                          '(data files: with safecopy=True)', f'seq:{fmt}:argument-modified', aspect=aspect, call=pos_)
                rec.count('monitor:seq:argument-unchanged')
            last = (el, res, truth)
            fps.append(fingerprint(res['text']))
            if letter in first:
                ref = first[letter]
                same = res['text'] == ref['text'] and res['extra'] == ref['extra']
                rec.check(same, 'the same request made again after other requests yields the identical file '
                          '(a file depends on the system and the options only, not on what was written before)',
                          f'seq:{fmt}:repeat-differs', aspect=aspect, pattern=pattern, call=pos_,
                          first=ref['text'][:600], again=res['text'][:600])
                rec.count('monitor:seq:repeat-compared')
                rec.count(f'monitor:seq:repeat-compared:{fmt}')
            else:
                first[letter] = res
        if aspect == 'object-reuse' and 'A' in first and 'B' in first:
            strip = lambda info: [ln for ln in (info or '').split('\n') if not ln.startswith('read_data')]   # noqa: E731
            rec.check(first['A']['text'] == first['B']['text'] and strip(first['A']['extra']) == strip(first['B']['extra']),
                      'safecopy=True writes the same file as writing in place (the read_data line names each file)',
                      'seq:data:safecopy-differs', a=first['A']['text'][:400], b=first['B']['text'][:400])
            rec.count('monitor:seq:object-reuse')
        if pl['fresh'] and last is not None:
            el, res, truth = last
            desc, props, symbols = systems.spec[el['sys']]
            if aspect == 'object-reuse':                        # the last call saw the wrapped object: describe that state
                desc = dict(desc, vects=truth['V'], origin=truth['o'], pos=truth['X'])
            kwargs = {k: v for k, v in res['kwargs'].items()}
            ans = fresh_text(am, tmpdir, f'seq{i}', dict(desc={k: desc[k] for k in ('atype', 'pos', 'vects', 'origin', 'pbc', 'symbols')},
                                                         props=props, symbols=symbols, style=res['style'], kwargs=kwargs))
            if ans is None:
                rec.count('seq:fresh:helper-unavailable')
            else:
                rec.check(ans == ('ok', res['text']), 'a request made after other requests yields the file the same request '
                          'yields as the first call of a new process', f'seq:{fmt}:differs-from-fresh-process', aspect=aspect,
                          pattern=pattern, fresh=str(ans[1])[:600], here=res['text'][:600])
                rec.count('monitor:seq:fresh-compared')
        rec.case(sig, nontrivial=complete and len(fps) == len(pattern), fp=fingerprint(fps, sig))
        if i < 2 * Q.NC and i % 9 == 0 and last is not None:
            rec.sample(dict(kind='sequence', format=fmt, aspect=aspect, pattern=pattern,
                            calls=[{k: v for k, v in elems[c_].items() if k not in ('sys', 'pinfo')} for c_ in pattern],
                            last_file=last[1]['text'][:400]))


# =======================================================================================
def run(ctx):
    import atomman as am
    import atomman.unitconvert as uc
    rec = ctx.rec
    # the stated assumption: default working units
    rec.check(all(abs(uc.unit[k] - 1.0) < 1e-12 for k in ('angstrom', 'amu', 'eV', 'e')),
              'working units are the documented defaults (angstrom, amu, eV, e)', 'setup:working-units')
    COVER = ['atomman/dump/atom_data/dump.py', 'atomman/dump/atom_dump/dump.py', 'atomman/dump/poscar/dump.py',
             'atomman/dump/table/dump.py', 'atomman/dump/atom_data/atoms_prop_info.py',
             'atomman/dump/atom_data/velocities_prop_info.py', 'atomman/lammps/style.py',
             'atomman/dump/atom_dump/process_prop_info.py']
    cover.start(COVER)
    tmpdir = tempfile.mkdtemp(prefix='vf-c07-')
    try:
        run_data(ctx, am, tmpdir, ctx.pick(1008, 9072))
        run_dumpfile(ctx, am, tmpdir, ctx.pick(448, 4032))
        run_poscar(ctx, am, tmpdir, ctx.pick(432, 3888))
        run_table(ctx, am, tmpdir, ctx.pick(96, 768))
        run_seq(ctx, am, tmpdir, ctx.pick(8 * Q.NC, 72 * Q.NC))
    finally:
        shutil.rmtree(tmpdir, ignore_errors=True)
    for f in COVER:
        rec.count('reach:' + f.split('atomman/')[1], len(cover.lines(f)))

    # ---- floors: the monitors and the hostile classes were reached -------------------------------
    rec.floor('monitor:data:parsed', 300)
    rec.floor('monitor:data:atoms-table', 300)
    rec.floor('monitor:data:velocities', 100)
    rec.floor('monitor:data:info', 300)
    rec.floor('monitor:data:column-compared', 300)
    rec.floor('data:with-image-flags', 100)
    rec.floor('data:flags>=2', 20)
    rec.floor('data:nonperiodic-enlarged', 50)
    rec.floor('data:triclinic', 100)
    rec.floor('data:triclinic-some-zero-tilts', 20)
    rec.floor('data:atoms-written-on-a-face', 20)
    rec.floor('data:info:path', 50)
    rec.floor('data:defaults-call', 10)
    for q in ('charge', 'velocity', 'density', 'dipole', 'mass', 'ang-mom', 'ang-vel'):
        rec.floor('data:converted:' + q, 10)
    for u in UNITS:
        rec.floor('data:units:' + u, 60)
        rec.floor('dumpfile:units:' + u, 20)
    for s_ in PLAIN_STYLES:
        rec.floor('data:style:' + s_, 20)
    rec.floor('data:style:hybrid', 60)
    rec.floor('monitor:dumpfile:parsed', 150)
    rec.floor('monitor:dumpfile:column-compared', 100)
    for v in ('x', 'xs', 'xu', 'xsu'):
        rec.floor('dumpfile:posvariant:' + v, 40)
    rec.floor('dumpfile:triclinic', 50)
    rec.floor('dumpfile:negative-tilt', 20)
    rec.floor('dumpfile:positive-tilt', 20)
    rec.floor('dumpfile:carried-ids', 50)
    rec.floor('dumpfile:user-column', 50)
    rec.floor('monitor:poscar:parsed', 200)
    rec.floor('monitor:poscar:positions', 200)
    rec.floor('poscar:cartesian-scaled', 50)
    rec.floor('poscar:direct', 80)
    for tc in S.TYPE_CLASSES:
        rec.floor('poscar:typeclass:' + tc, 40)
    for sy in PSYMBOLS:
        rec.floor('poscar:symbols:' + sy, 40)
    rec.floor('poscar:kind:rotated', 20)
    rec.floor('monitor:table:parsed', 50)
    rec.floor('table:prop_info-form', 20)
    # ---- call histories -----------------------------------------------------------------------------
    for fmt_, aspect_ in Q.SEQ_CLASSES:
        rec.floor(f'seq:class:{fmt_}:{aspect_}', 8)
    for pat in Q.PATTERNS:
        rec.floor('seq:pattern:' + pat, 40)
    rec.floor('seq:pattern:AABD', 8)
    rec.floor('monitor:seq:files-judged', 600)
    rec.floor('monitor:seq:repeat-compared', 200)
    for fmt_, m_ in (('data', 80), ('dumpfile', 35), ('poscar', 30), ('table', 35)):
        rec.floor('monitor:seq:repeat-compared:' + fmt_, m_)
    rec.floor('seq:data:consecutive-different-hybrids-same-units', 80)
    rec.floor('seq:data:consecutive-hybrid-permutations', 24)
    rec.floor('seq:shared-object', 100)
    rec.floor('monitor:seq:argument-unchanged', 200)
    rec.floor('monitor:seq:object-reuse', 6)
    rec.floor('monitor:seq:fresh-compared', 9)
    rec.floor('reach:dump/atom_data/dump.py', 30)
    rec.floor('reach:dump/atom_dump/dump.py', 40)
    rec.floor('reach:dump/poscar/dump.py', 20)
