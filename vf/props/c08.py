"""C08 - loading what was dumped returns the system (LAMMPS data / dump, table, POSCAR)."""
from __future__ import annotations

import io
import os
import shutil
import signal
import tempfile

import numpy as np

from ..core import fingerprint
from ..gen import cells
from ..gen import c08_styles as ST
from ..gen import c08_systems as GS
from ..gen import c08_text as TX
from ..oracle import c08_compare as CMP
from ..oracle import c08_units as U
from .. import cover

RULE = ('six case groups (atom_data, atom_dump, table, poscar, scale, shapes).  Classes are round-robin functions of the case index: '
        'atom_data = 21 atom styles (incl. 3 hybrids) x 8 unit styles (mixed radix, every pair within 168 cases) with cell kind '
        '(7 families + strongly tilted) / origin class / 8 pbc settings / position class (inside, mixed inside-outside-on-face-'
        'near-face, all on faces, several cells away) / type class (single, contiguous, gaps, type 1 unused) / float format / '
        'velocities on-off on co-prime strides; atom_dump = 8 unit styles x 6 variants (default, pos column variants '
        'x|xs|xu|xsu, carried atom ids, scaled + returned prop_info, standard LAMMPS columns with units, all-properties); '
        'table = 6 variants (all-default, unit lists, id column, scaled, header line, custom column names); poscar = 8 '
        'coordinate keywords x 3 scale factors x 3 symbol modes x 4 type classes x 9 cell kinds (incl. rotated) x 3 origins.  '
        'Every text is loaded from a string, a path and an open binary stream (text stream: documented refusal), again after '
        'shuffling atom lines (formats with ids) and after inserting the comments / blank lines the format manual allows; '
        'truncated data files must raise FileFormatError.  scale = cells of physical size (edges 3..30 angstrom, i.e. 1e-10 in a si '
        'file, 1e-8 in cgs) in 8 unit styles x 4 tilt classes (orthogonal, all tilt factors > 1.3 angstrom, all < 1 angstrom, all '
        '1e-5..1e-2 angstrom) x 7 patterns of non-zero tilt factors, per-atom values O(1) in working or in file units, written '
        'with exponent formats as data file and as dump file; shapes = per-atom properties of shape (), (1,), (2,), (3,), (1,1), '
        '(1,3), (3,1), (3,3), (1,1,1), (2,2) each as float and as integer plus one bool, natoms 1/2/3/more, 4 ways of naming them '
        'to the writer, through table and atom_dump with the returned conversion table (as given and spelled as parallel lists).  '
        'Ground truth = the generated numpy arrays (never re-read from atomman). '
        'A case is non-trivial when it has a tilted or shifted cell, an atom outside the cell or on a face, more than one '
        'atom type, or a unit style whose length unit is not the angstrom; distinct = distinct fingerprint of '
        '(cell, origin, positions, types, class signature).')
ASSUMPTIONS = [
    'cells are right-handed, LAMMPS-oriented for the LAMMPS formats (POSCAR also arbitrarily rotated), volume >= 10 % of abc',
    'groups atom_data/atom_dump/table/poscar: numbers are O(1..1e3) in the units of the file, so fixed-point formats keep at least 6 '
    'significant digits; groups scale/shapes: cells are 3..30 angstrom whatever the file unit and only exponent formats (>= 8 '
    'digits; >= 13 for tilt factors below 0.01 angstrom) are used, whose precision is relative at any scale',
    'tilt factors are either exactly zero or at least 1e-5 angstrom (1e-6 of the cell): the cell constructor itself zeroes '
    'components below 1e-9 of the largest one',
    'comparison bound = half a unit in the last printed place (times 1+3*|image flags| for data files, propagated through the '
    'cell for scaled/direct coordinates) plus 1e-12 relative floating-point slack',
    'data files: positions are compared after the reader re-applied the image flags; along non-periodic directions the cell may '
    'grow by at most 1 % beyond the outermost atom and must be unchanged when every atom is at least 1e-6 inside',
    'POSCAR has no origin: direct mode keeps the place in the cell (pos - origin), Cartesian mode the absolute place; atoms come '
    'back grouped by type in input order; element symbols are stored only when every type has one',
    'files with carried atom ids come back in id order (compared per id)',
    'integer dtypes are one kind (signed/unsigned not distinguished: Atoms stores atype as uint64)',
    'density-carrying atom styles (ellipsoid, line, tri, sphere, peri) under electron units are refused by the writer with '
    'KeyError (LAMMPS defines no density unit for that style, the unit table has no entry): counted as refusals',
    'dump files and POSCAR allow no comments or blank lines between records, so only the atom-line order (dump), the free '
    'comment line and trailing blank lines (POSCAR) are varied there',
    'the magnitude of one file unit (for input scaling and the precision bound only) is taken from atomman\'s unit table where '
    'it has the entry, cross-checked against the oracle table (disagreements are counted, they belong to C07/C09)',
]
CONFIG = {'quick': {'timeout': 600}, 'thorough': {'timeout': 2400}}

UNITS = U.STYLES                                      # metal real si cgs electron micro nano lj
FMT_LAMMPS = ['%.13f', '%.16e', '%.6f', '%.5e', '%.10f']
FMT_POSCAR = ['%.13e', '%.16e', '%.13f', '%.6e']
EXTRA_DUMP = [('stress', 'f', (3, 3)), ('disp', 'f', (3,)), ('cna', 'i', ()), ('flag', 'b', ()), ('pe', 'f', ()),
              ('burgers', 'i', (3,))]
TABLE_UNITS = [('nm', 'length'), ('m', 'length'), ('aBohr', 'length'), ('angstrom', 'length'), ('um', 'length'), ('cm', 'length')]
TABLE_VUNITS = ['nm/ns', 'm/s', 'angstrom/ps', 'angstrom/fs', 'cm/s']


# ------------------------------------------------------------------------------------------------ helpers
class Env:
    pass


CPU_LIMIT = 10.0      # CPU seconds one load may take (they take milliseconds); a runaway load becomes a recorded violation


class LoadTimeout(Exception):
    pass


class cpu_limit:
    """Raise LoadTimeout inside the block after ``seconds`` of CPU time (ITIMER_VIRTUAL: immune to machine load)."""

    def __init__(self, seconds):
        self.seconds = seconds

    def _handler(self, signum, frame):
        raise LoadTimeout(f'no result after {self.seconds} CPU seconds')

    def __enter__(self):
        self.old = signal.signal(signal.SIGVTALRM, self._handler)
        signal.setitimer(signal.ITIMER_VIRTUAL, self.seconds)

    def __exit__(self, *exc):
        signal.setitimer(signal.ITIMER_VIRTUAL, 0)
        signal.signal(signal.SIGVTALRM, self.old)
        return False


def unit_factor(env, style, quantity):
    """Magnitude (working units) of the file unit of ``quantity`` in LAMMPS unit ``style``; see ASSUMPTIONS."""
    if quantity is None or style == 'lj':
        return 1.0
    key = (style, quantity)
    if key in env.fcache:
        return env.fcache[key]
    tab = env.am.lammps.style.unit(style)
    mine = U.factor(style, quantity) if U.has(style, quantity) else None
    theirs = None
    if quantity in tab and tab[quantity] is not None:
        theirs = float(env.uc.set_in_units(1.0, tab[quantity]))
    if mine is not None and theirs is not None:
        env.rec.count('unit-factor:agree' if abs(theirs / mine - 1) < 1e-3 else f'unit-factor:disagree:{style}:{quantity}')
    f = theirs if theirs is not None else mine
    env.fcache[key] = f
    return f


def style_available(env, style, quantities):
    tab = env.am.lammps.style.unit(style)
    return all(q in tab for q in quantities)


def build(env, truth, props, symbols='truth'):
    am = env.am
    v = truth['vects'].copy()
    box = am.Box(avect=v[0], bvect=v[1], cvect=v[2], origin=truth['origin'].copy())
    kw = {k: np.array(a, copy=True) for k, a in props.items()}
    atoms = am.Atoms(atype=truth['atype'].copy(), pos=truth['pos'].copy(), **kw)
    sym = truth['symbols'] if symbols == 'truth' else symbols
    return am.System(atoms=atoms, box=box, pbc=truth['pbc'], symbols=(list(sym) if sym is not None else None))


def observe(system):
    props = {}
    for k in system.atoms_prop():
        props[k] = np.array(system.atoms.view[k], copy=True)
    return dict(vects=np.array(system.box.vects, float), origin=np.array(system.box.origin, float),
                pbc=tuple(bool(x) for x in system.pbc), symbols=tuple(system.symbols), natoms=int(system.natoms), props=props)


def load_and_compare(env, fmt, via, variant, data, e, loadkw, keyprefix=None):
    """One load through the real code + all clauses.  Returns True when the load returned a system."""
    rec, am = env.rec, env.am
    key = keyprefix or f'{fmt}:{via}:{variant}'
    what = fmt
    system = None
    with env.ctx.guard(f'{fmt}: load does not raise on a well-formed file', key + ':exception'):
        with cpu_limit(CPU_LIMIT):
            system = am.load(fmt, data, **loadkw)
    if system is None:
        return False
    if isinstance(system, tuple):
        system = system[0]
    CMP.compare(rec, key, observe(system), e, what)
    rec.count(f'loads:{fmt}:{via}:{variant}')
    rec.count(f'loads:{fmt}')
    return True


def three_ways(env, fmt, text, path, e, loadkw, variant='plain', stream_kind=0):
    """string, path, open binary stream, and the documented refusal of a text-mode stream."""
    rec = env.rec
    load_and_compare(env, fmt, 'string', variant, text, e, loadkw)
    load_and_compare(env, fmt, 'path', variant, path, e, loadkw)
    if stream_kind % 2 == 0:
        with open(path, 'rb') as f:
            load_and_compare(env, fmt, 'stream', variant, f, e, loadkw)
    else:
        load_and_compare(env, fmt, 'stream', variant, io.BytesIO(text.encode()), e, loadkw)
    try:
        s = env.am.load(fmt, io.StringIO(text), **loadkw)
    except ValueError:
        rec.refusal(f'{fmt}: text-mode stream refused (ValueError)')
        rec.count(f'textstream-refused:{fmt}')
    except Exception as ex:
        rec.fail(f'{fmt}: a text-mode stream is refused with ValueError', f'{fmt}:textstream:exception', exception=ex)
    else:
        if isinstance(s, tuple):
            s = s[0]
        CMP.compare(rec, f'{fmt}:textstream:{variant}', observe(s), e, fmt)


def write_path(env, name, text_from_string, dumper):
    """Let the writer itself write to a path (f=path); the file must then hold what the string form holds."""
    path = os.path.join(env.tmp, name)
    with env.ctx.guard('dump to a file path', 'dump:path:exception'):
        dumper(path)
    ok = False
    if os.path.exists(path):
        with open(path, 'r', encoding='UTF-8') as f:
            ok = f.read() == text_from_string
    if not ok:                                     # keep going with an equivalent file; the difference is C07's business
        env.rec.count('dump:path-differs-from-string')
        with open(path, 'w', encoding='UTF-8') as f:
            f.write(text_from_string)
    return path


def common_axes(i, kinds):
    """Deterministic, mutually decorrelated class choices for case index i."""
    nk = len(kinds)
    kind = kinds[i % nk]
    pbc = cells.PBCS[7] if (i + i // nk) % 2 == 0 else cells.PBCS[(i // 2 + i // 16) % 8]      # every other case fully periodic
    posclass = GS.POSCLASSES[(1 + i + i // 8) % 4]
    typeclass = GS.TYPECLASSES[(1 + i // 2 + i // 16) % 4]
    origin = cells.ORIGINS[(1 + i + i // 3) % 3]
    symclass = GS.SYMCLASSES[(i + i // 4) % 3]
    return kind, origin, pbc, posclass, typeclass, symclass


def natoms_for(ctx, rng, i):
    if i % 11 == 0:
        return 1
    if i % 11 == 1:
        return 2
    return int(rng.integers(5, ctx.pick(10, 28)))


def nontrivial(truth, units='metal'):
    v, o = truth['vects'], truth['origin']
    tilted = abs(v[1, 0]) + abs(v[2, 0]) + abs(v[2, 1]) + abs(v[0, 1]) + abs(v[0, 2]) + abs(v[1, 2]) > 0
    r = truth['rel']
    outside = bool(((r <= 0) | (r >= 1)).any())
    return bool(tilted or np.any(o != 0) or outside or len(set(truth['atype'].tolist())) > 1 or units in U.NON_ANGSTROM)


def count_truth(rec, fmt, truth):
    r = truth['rel']
    rec.count(f'class:{fmt}:pos:{truth["posclass"]}')
    rec.count(f'class:{fmt}:types:{truth["typeclass"]}')
    rec.count(f'class:{fmt}:cell:{truth["kind"]}')
    if np.any(truth['origin'] != 0):
        rec.count(f'class:{fmt}:origin-nonzero')
    if ((r < 0) | (r > 1)).any():
        rec.count(f'class:{fmt}:atoms-outside')
    if ((r == 0) | (r == 1)).any():
        rec.count(f'class:{fmt}:atoms-on-face')
    used = set(truth['atype'].tolist())
    if used != set(range(1, max(used) + 1)):
        rec.count(f'class:{fmt}:type-gaps')
    if truth['symbols'] is not None:
        rec.count(f'class:{fmt}:symbols-present')
    else:
        rec.count(f'class:{fmt}:symbols-absent')


# ------------------------------------------------------------------------------------------------ atom_data
def group_data(env):
    ctx, rec, am = env.ctx, env.rec, env.am
    from atomman.load import FileFormatError
    nst, nun = len(ST.STYLES), len(UNITS)
    n = ctx.pick(nst * nun, nst * nun * 6)
    for i in ctx.cases('atom_data', n):
        rng = ctx.rng
        style = ST.STYLES[i % nst]
        units = UNITS[(i // nst) % nun]
        kind, origin, pbc, posclass, typeclass, symclass = common_axes(i + i // (nst * nun), GS.LAMMPS_KINDS)
        fmt = GS.pick(i, 1, FMT_LAMMPS, i // nst)
        withvel = (i + i // nst) % 2 == 0
        explicit_style = (i // 2) % 2 == 0
        natoms = natoms_for(ctx, rng, i)
        quantities = ST.quantities(style, withvel)
        sig = ('atom_data', style, units, fmt, 'vel' if withvel else 'novel')
        if not style_available(env, units, quantities):
            # documented by the unit table itself: no such unit in this style -> the writer cannot build its column table
            truth = GS.gen_truth(rng, kind, origin, pbc, posclass, typeclass, symclass, natoms, 1.0)
            props = gen_style_props(env, rng, truth, style, 'lj', withvel)
            system = build(env, truth, props)
            out = None
            with ctx.guard('atom_data dump of a style/unit pair without unit entry', f'atom_data:dump:{style}:exception', accept=(KeyError,)):
                out = system.dump('atom_data', atom_style=style, units=units, return_info=False)
            rec.count('atom_data:unit-entry-missing')
            if out is not None:
                rec.count('atom_data:unit-entry-missing:dump-succeeded')
            rec.case(sig + ('refused',), nontrivial=False)
            continue
        F = lambda q: unit_factor(env, units, q)          # noqa: E731
        Flen = F('length')
        truth = GS.gen_truth(rng, kind, origin, pbc, posclass, typeclass, symclass, natoms, Flen)
        props = gen_style_props(env, rng, truth, style, units, withvel)
        rec.case(sig + (kind, origin, posclass, typeclass), nontrivial=nontrivial(truth, units),
                 fp=fingerprint(truth['vects'], truth['origin'], truth['pos'], truth['atype'], sig))
        count_truth(rec, 'atom_data', truth)
        rec.count(f'class:atom_data:style:{style}')
        rec.count(f'class:atom_data:units:{units}')
        rec.count(f'class:atom_data:pbc:{"".join("1" if p else "0" for p in pbc)}')
        if i < 3 * nst:
            rec.sample(dict(style=style, units=units, float_format=fmt, cell=kind, origin=truth['origin'], pbc=pbc,
                            natoms=natoms, atype=truth['atype'], posclass=posclass, props=sorted(props)))
        # what the file carries
        items = {}
        for name, knd, shape, q in ST.atoms_columns(style) + (ST.velocity_columns(style) if withvel else []):
            items[name] = (props[name], knd, F(q))
        e = CMP.expect_data(truth, fmt, Flen, items)
        dkw = dict(atom_style=style, units=units, float_format=fmt)
        text = None
        with ctx.guard('atom_data dump to a string', 'atom_data:dump:exception'):
            out = build(env, truth, props).dump('atom_data', safecopy=bool(i % 2), return_info=bool(i % 3 == 0), **dkw)
            text = out[0] if isinstance(out, tuple) else out
        if not isinstance(text, str):
            continue
        if '\nVelocities' in text:
            rec.count('class:atom_data:velocities-section')
        sec = TX.data_section(text.split('\n'), 'Atoms')
        ncol = len(text.split('\n')[sec[1]].split())
        flags_written = ncol == 5 + sum(int(np.prod(s or (1,))) for _, _, s, _ in ST.atoms_columns(style)) + 3
        if flags_written:
            rec.count('class:atom_data:image-flags-written')
        path = write_path(env, f'data_{i}.dat', text,
                          lambda p: build(env, truth, props).dump('atom_data', f=p, return_info=False, safecopy=True, **dkw))
        lkw = dict(pbc=truth['pbc'], units=units)
        if explicit_style:
            lkw['atom_style'] = style
        three_ways(env, 'atom_data', text, path, e, lkw, stream_kind=i)
        # order of atom lines / comments and blank lines
        sh = TX.data_shuffle(text, rng)
        # (a file that carries image flags gets its own mechanism key: flags and atoms are matched by id)
        fk = 'atom_data:shuffled:image-flags' if flags_written else None
        rec.count('class:atom_data:shuffled:' + ('image-flags' if flags_written else 'no-image-flags'))
        load_and_compare(env, 'atom_data', 'string', 'shuffled', sh, e, lkw, keyprefix=fk)
        drop = (i % 4 == 1)
        dec = TX.data_decorate(text, rng, drop_style_comment=drop)
        lkw2 = dict(lkw)
        if drop:
            lkw2['atom_style'] = style
        load_and_compare(env, 'atom_data', 'string', 'decorated', dec, e, lkw2)
        both = TX.data_decorate(sh, rng, drop_style_comment=drop)
        bp = os.path.join(env.tmp, f'data_{i}_dec.dat')
        with open(bp, 'w') as f:
            f.write(both)
        load_and_compare(env, 'atom_data', 'path' if i % 2 else 'stream', 'shuffled+decorated',
                         bp if i % 2 else io.BytesIO(both.encode()), e, lkw2, keyprefix=fk)
        # a required part is missing -> the format error, never a system
        for what in ('atoms', ('xbox', 'ybox', 'zbox')[i % 3], 'Atoms'):
            bad = TX.data_truncate(dec if i % 2 else text, what)
            src = bad if (i // 3) % 3 == 0 else io.BytesIO(bad.encode())
            if (i // 3) % 3 == 2:
                tp = os.path.join(env.tmp, f'data_{i}_trunc.dat')
                with open(tp, 'w') as f:
                    f.write(bad)
                src = tp
            kw = dict(lkw2 if i % 2 else lkw)
            try:
                got = am.load('atom_data', src, **kw)
            except FileFormatError:
                rec.count(f'reject:{what if what == "atoms" or what == "Atoms" else "box"}')
                rec.count('clause:truncated data file raises FileFormatError')
            except Exception as ex:
                rec.count('clause:truncated data file raises FileFormatError')
                rec.fail('truncated data file raises FileFormatError', f'atom_data:truncated:{what}:wrong-exception', exception=ex)
            else:
                rec.count('clause:truncated data file raises FileFormatError')
                rec.fail('truncated data file raises FileFormatError', f'atom_data:truncated:{what}:loaded',
                         natoms=getattr(got, 'natoms', None))
        for p in (path, bp):
            try:
                os.remove(p)
            except OSError:
                pass


def gen_style_props(env, rng, truth, style, units, withvel):
    n = len(truth['atype'])
    props = {}
    cols = ST.atoms_columns(style) + (ST.velocity_columns(style) if withvel else [])
    for name, knd, shape, q in cols:
        F = unit_factor(env, units, q) if (q is None or units == 'lj' or style_available(env, units, [q]) or U.has(units, q)) else 1.0
        F = F or 1.0
        if knd == 'i':
            props[name] = rng.integers(0, 6, (n,) + shape).astype(np.int64) if name.endswith('flag') else rng.integers(1, 30, (n,) + shape).astype(np.int64)
        else:
            x = GS.gen_prop(rng, n, 'f', shape, F)
            if name in ('mass', 'density', 'diameter', 'eradius', 'volume', 'kradius', 'cradius', 'rho', 'cv'):
                x = GS.positive(x, F)
            props[name] = x
    return props


# ------------------------------------------------------------------------------------------------ atom_dump
DUMP_VARIANTS = ['default', 'posvariant', 'carried-id', 'scaled-retinfo', 'standard', 'everything']
POSVARIANTS = [['pos'], ['spos'], ['upos'], ['supos'], ['pos', 'spos'], ['upos', 'supos']]
STANDARD = [('velocity', 'f', (3,), 'velocity'), ('force', 'f', (3,), 'force'), ('charge', 'f', (), 'charge'),
            ('mass', 'f', (), 'mass'), ('mu', 'f', (3,), 'dipole'), ('diameter', 'f', (), 'length'), ('m_id', 'i', (), None),
            ('ang_velocity', 'f', (3,), 'ang-vel'), ('ang_momentum', 'f', (3,), 'ang-mom')]


def group_dump(env):
    ctx, rec, am = env.ctx, env.rec, env.am
    nv, nun = len(DUMP_VARIANTS), len(UNITS)
    n = ctx.pick(nv * nun * 3, nv * nun * 24)
    for i in ctx.cases('atom_dump', n):
        rng = ctx.rng
        variant = DUMP_VARIANTS[i % nv]
        units = UNITS[(i // nv) % nun]
        rnd = i // (nv * nun)
        kind, origin, pbc, posclass, typeclass, symclass = common_axes(i + rnd, GS.LAMMPS_KINDS)
        fmt = GS.pick(i, 1, FMT_LAMMPS, rnd + i // nv)
        natoms = natoms_for(ctx, rng, i + 3)
        F = lambda q: unit_factor(env, units, q)          # noqa: E731
        Flen = F('length')
        truth = GS.gen_truth(rng, kind, origin, pbc, posclass, typeclass, symclass, natoms, Flen)
        props, items = {}, {}
        dkw = dict(lammps_units=units, float_format=fmt)
        scaled = False
        order = None
        if variant in ('default', 'everything', 'carried-id'):
            extra = EXTRA_DUMP if variant != 'carried-id' else EXTRA_DUMP[1:3]
            if variant == 'everything' or i % 2:
                props['velocity'] = GS.gen_prop(rng, natoms, 'f', (3,), F('velocity'))
                items['velocity'] = (props['velocity'], 'f', F('velocity'))
            for name, knd, shape in extra:
                props[name] = GS.gen_prop(rng, natoms, knd, shape)
                items[name] = (props[name], knd, 1.0)
            if variant == 'everything':
                for name, knd, shape, q in STANDARD[1:]:
                    if U.has(units, q) or q is None:
                        props[name] = GS.gen_prop(rng, natoms, knd, shape, F(q))
                        items[name] = (props[name], knd, F(q))
            if variant == 'carried-id':
                ids = (rng.permutation(natoms) * 3 + 5).astype(np.int64)
                props['atom_id'] = ids
                order = np.argsort(ids)
        elif variant == 'posvariant' or variant == 'scaled-retinfo':
            pv = POSVARIANTS[rnd % len(POSVARIANTS)] if variant == 'posvariant' else [['spos'], ['supos'], ['spos', 'upos']][rnd % 3]
            scaled = any(p in ('spos', 'supos') for p in pv)
            props['velocity'] = GS.gen_prop(rng, natoms, 'f', (3,), F('velocity'))
            props['disp'] = GS.gen_prop(rng, natoms, 'f', (3,))
            items['velocity'] = (props['velocity'], 'f', F('velocity'))
            items['disp'] = (props['disp'], 'f', 1.0)
            dkw['prop_name'] = ['atom_id', 'atype'] + pv + ['velocity', 'disp']
        elif variant == 'standard':
            for name, knd, shape, q in STANDARD:
                if U.has(units, q) or q is None:
                    props[name] = GS.gen_prop(rng, natoms, knd, shape, F(q))
                    items[name] = (props[name], knd, F(q))
        sig = ('atom_dump', variant, units, fmt)
        rec.case(sig + (kind, origin, posclass, typeclass), nontrivial=nontrivial(truth, units),
                 fp=fingerprint(truth['vects'], truth['origin'], truth['pos'], truth['atype'], sig))
        count_truth(rec, 'atom_dump', truth)
        rec.count(f'class:atom_dump:variant:{variant}')
        rec.count(f'class:atom_dump:units:{units}')
        rec.count(f'class:atom_dump:pbc:{"".join("1" if p else "0" for p in pbc)}')
        if i < 2 * nv:
            rec.sample(dict(variant=variant, units=units, float_format=fmt, cell=kind, pbc=pbc, natoms=natoms,
                            props=sorted(props), prop_name=dkw.get('prop_name')))
        text = pinfo = None
        with ctx.guard('atom_dump dump to a string', 'atom_dump:dump:exception'):
            text, pinfo = build(env, truth, props).dump('atom_dump', return_prop_info=True, **dkw)
        if not isinstance(text, str):
            continue
        path = write_path(env, f'dump_{i}.dump', text, lambda p: build(env, truth, props).dump('atom_dump', f=p, **dkw))
        lkw = dict(lammps_units=units)
        # (1) the file alone: standard LAMMPS column names are recognised, other columns come back one by one
        auto_items = {}
        for name, (arr, knd, Fq) in items.items():
            if arr.ndim == 1 or name in [s[0] for s in STANDARD]:
                auto_items[name] = (arr, knd, Fq)
            else:
                for idx in np.ndindex(*arr.shape[1:]):
                    auto_items[name + ''.join(f'[{j}]' for j in idx)] = (arr[(slice(None),) + idx], knd, Fq)
        ids = props.get('atom_id', np.arange(1, natoms + 1))
        auto_items['atom_id'] = (ids, 'i', 1.0)
        e_auto = CMP.expect_dump(truth, fmt, Flen, auto_items, scaled_pos=scaled, order=order)
        three_ways(env, 'atom_dump', text, path, e_auto, lkw, stream_kind=i)
        sh = TX.dump_shuffle(text, rng)
        load_and_compare(env, 'atom_dump', 'string', 'shuffled', sh, e_auto, lkw)
        # (2) with the writer's returned column table: shapes restored
        full_items = dict(items)
        full_items['atom_id'] = (ids, 'i', 1.0)
        e_full = CMP.expect_dump(truth, fmt, Flen, full_items, scaled_pos=scaled, order=order)
        if scaled:
            # the table the caller asked for (with 'scaled') restores the system ...
            mine = []
            for p in pinfo:
                q = dict(p)
                if q['prop_name'] in ('spos', 'supos'):
                    q['unit'] = 'scaled'
                mine.append(q)
            load_and_compare(env, 'atom_dump', 'string', 'own-prop_info-scaled', sh if i % 2 else text, e_full, dict(lkw, prop_info=mine))
            # ... and so must the one the writer returned "for 1:1 load/dump conversions"
            rec.count('atom_dump:returned-prop_info:scaled:evaluated')
            load_and_compare(env, 'atom_dump', 'string', 'returned-prop_info-scaled', text, e_full, dict(lkw, prop_info=pinfo),
                             keyprefix='atom_dump:returned-prop_info:scaled')
        else:
            load_and_compare(env, 'atom_dump', 'string' if i % 2 else 'path', 'returned-prop_info', sh if i % 2 else path,
                             e_full, dict(lkw, prop_info=pinfo))
        try:
            os.remove(path)
        except OSError:
            pass


# ------------------------------------------------------------------------------------------------ table
TABLE_VARIANTS = ['all-default', 'unit-lists', 'id-column', 'scaled', 'header', 'names']


def group_table(env):
    ctx, rec, am, uc = env.ctx, env.rec, env.am, env.uc
    nv = len(TABLE_VARIANTS)
    n = ctx.pick(nv * 16, nv * 160)
    for i in ctx.cases('table', n):
        rng = ctx.rng
        variant = TABLE_VARIANTS[i % nv]
        rnd = i // nv
        kind, origin, pbc, posclass, typeclass, symclass = common_axes(i + rnd, GS.LAMMPS_KINDS + ['rotated'])
        fmt = GS.pick(i, 1, FMT_LAMMPS, rnd)
        natoms = natoms_for(ctx, rng, i + 5)
        lunit, _ = TABLE_UNITS[rnd % len(TABLE_UNITS)]
        vunit = TABLE_VUNITS[(rnd // 2) % len(TABLE_VUNITS)]
        use_units = variant in ('unit-lists', 'id-column', 'names')
        Flen = float(uc.set_in_units(1.0, lunit)) if use_units else 1.0
        Fv = float(uc.set_in_units(1.0, vunit)) if use_units else 1.0
        truth = GS.gen_truth(rng, kind, origin, pbc, posclass, typeclass, symclass, natoms, Flen)
        props = {'velocity': GS.gen_prop(rng, natoms, 'f', (3,), Fv), 'stress': GS.gen_prop(rng, natoms, 'f', (3, 3)),
                 'cna': GS.gen_prop(rng, natoms, 'i', ()), 'flag': GS.gen_prop(rng, natoms, 'b', ())}
        items = {'velocity': (props['velocity'], 'f', Fv), 'stress': (props['stress'], 'f', 1.0),
                 'cna': (props['cna'], 'i', 1.0), 'flag': (props['flag'], 'b', 1.0)}
        dkw = dict(float_format=fmt)
        scaled = variant == 'scaled'
        has_id = False
        header_lines = 0
        lkw_extra = {}
        if variant == 'all-default':
            pass
        elif variant == 'unit-lists':
            dkw.update(prop_name=['atype', 'pos', 'velocity', 'stress', 'cna', 'flag'], unit=[None, lunit, vunit, None, None, None])
        elif variant == 'id-column':
            dkw.update(prop_info=[dict(prop_name='a_id', table_name='id'), dict(prop_name='atype', table_name='type'),
                                  dict(prop_name='pos', table_name=['x', 'y', 'z'], unit=lunit),
                                  dict(prop_name='velocity', shape=(3,), unit=vunit), dict(prop_name='stress', shape=(3, 3)),
                                  dict(prop_name='cna'), dict(prop_name='flag', dtype=None)])
            has_id = True
        elif variant == 'scaled':
            if rnd % 2:
                dkw.update(prop_name=['atype', 'pos', 'velocity', 'stress', 'cna', 'flag'], unit=[None, 'scaled', None, None, None, None])
            else:
                dkw.update(prop_info=[dict(prop_name='a_id', table_name='id'), dict(prop_name='atype'),
                                      dict(prop_name='pos', shape=(3,), unit='scaled'), dict(prop_name='velocity', shape=(3,)),
                                      dict(prop_name='stress', shape=(3, 3)), dict(prop_name='cna'), dict(prop_name='flag')])
                has_id = True
        elif variant == 'header':
            dkw.update(header=True)
            header_lines = 1
            lkw_extra = dict(header=0)
        elif variant == 'names':
            dkw.update(prop_name=['atype', 'pos', 'velocity', 'stress', 'cna', 'flag'],
                       table_name=['t', ['px', 'py', 'pz'], ['v1', 'v2', 'v3'], ['s%d' % k for k in range(9)], 'c', 'f'],
                       shape=[(), (3,), (3,), (3, 3), (), ()],
                       unit=[None, lunit, vunit, None, None, None])
        sig = ('table', variant, fmt, lunit if use_units else '-')
        rec.case(sig + (kind, origin, posclass, typeclass), nontrivial=nontrivial(truth, 'si' if use_units and lunit != 'angstrom' else 'metal'),
                 fp=fingerprint(truth['vects'], truth['origin'], truth['pos'], truth['atype'], sig))
        count_truth(rec, 'table', truth)
        rec.count(f'class:table:variant:{variant}')
        if use_units:
            rec.count(f'class:table:unit:{lunit}')
        if i < 2 * nv:
            rec.sample(dict(variant=variant, float_format=fmt, cell=kind, natoms=natoms, dump_kwargs={k: v for k, v in dkw.items()}))
        text = pinfo = None
        with ctx.guard('table dump to a string', 'table:dump:exception'):
            text, pinfo = build(env, truth, props).dump('table', return_prop_info=True, **dkw)
        if not isinstance(text, str):
            continue
        path = write_path(env, f'table_{i}.txt', text, lambda p: build(env, truth, props).dump('table', f=p, **dkw))
        v = truth['vects']
        mkbox = lambda: am.Box(avect=v[0].copy(), bvect=v[1].copy(), cvect=v[2].copy(), origin=truth['origin'].copy())   # noqa: E731
        e = CMP.expect_table(truth, fmt, items, pos_F=Flen, scaled_pos=scaled)
        if scaled:
            # the conversion table the caller asked for restores the system ...
            if 'prop_info' in dkw:
                mine = dkw['prop_info']
            else:
                mine = [dict(p) for p in pinfo]
                for p in mine:
                    if p['prop_name'] == 'pos':
                        p['unit'] = 'scaled'
            three_ways_table(env, text, path, e, mkbox, dict(prop_info=mine, **lkw_extra), 'own-prop_info-scaled', i)
            rec.count('table:returned-prop_info:scaled:evaluated')
            load_and_compare(env, 'table', 'string', 'returned-prop_info-scaled', text, e, dict(box=mkbox(), prop_info=pinfo),
                             keyprefix='table:returned-prop_info:scaled')
            lk = dict(prop_info=mine)
        else:
            three_ways_table(env, text, path, e, mkbox, dict(prop_info=pinfo, **lkw_extra), 'returned-prop_info', i)
            lk = dict(prop_info=pinfo, **lkw_extra)
        if has_id:
            sh = TX.table_shuffle(text, rng, header_lines)
            load_and_compare(env, 'table', 'string', 'shuffled', sh, e, dict(box=mkbox(), **lk))
            dec = TX.table_decorate(sh, rng, header_lines)
            load_and_compare(env, 'table', 'string', 'shuffled+decorated', dec, e, dict(box=mkbox(), comment='#', **lk))
        else:
            dec = TX.table_decorate(text, rng, header_lines)
            load_and_compare(env, 'table', 'string', 'decorated', dec, e, dict(box=mkbox(), comment='#', **lk))
        try:
            os.remove(path)
        except OSError:
            pass


def three_ways_table(env, text, path, e, mkbox, lkw, variant, i):
    load_and_compare(env, 'table', 'string', variant, text, e, dict(box=mkbox(), **lkw))
    load_and_compare(env, 'table', 'path', variant, path, e, dict(box=mkbox(), **lkw))
    if i % 2:
        with open(path, 'rb') as f:
            load_and_compare(env, 'table', 'stream', variant, f, e, dict(box=mkbox(), **lkw))
    else:
        load_and_compare(env, 'table', 'stream', variant, io.BytesIO(text.encode()), e, dict(box=mkbox(), **lkw))
    rec = env.rec
    try:
        s = env.am.load('table', io.StringIO(text), box=mkbox(), **lkw)
    except ValueError:
        rec.refusal('table: text-mode stream refused (ValueError)')
        rec.count('textstream-refused:table')
    except Exception as ex:
        rec.fail('table: a text-mode stream is refused with ValueError', 'table:textstream:exception', exception=ex)
    else:
        CMP.compare(rec, f'table:textstream:{variant}', observe(s), e, 'table')


# ------------------------------------------------------------------------------------------------ POSCAR
COORDSTYLES = ['direct', 'cartesian', 'Direct', 'Cartesian', 'd', 'c', 'kartesian', 'K']
SCALES = [1.0, 2.5, 0.37]
SYMMODES = ['system', 'param', 'none']


def group_poscar(env):
    ctx, rec, am = env.ctx, env.rec, env.am
    n = ctx.pick(len(COORDSTYLES) * len(SCALES) * 6, len(COORDSTYLES) * len(SCALES) * 72)
    for i in ctx.cases('poscar', n):
        rng = ctx.rng
        cs = COORDSTYLES[i % len(COORDSTYLES)]
        scale = SCALES[(i // len(COORDSTYLES)) % len(SCALES)]
        rnd = i // (len(COORDSTYLES) * len(SCALES))
        symmode = SYMMODES[(i + rnd) % 3]
        kind = GS.pick(i + rnd, 1, GS.POSCAR_KINDS)
        origin = GS.pick(i, 5, cells.ORIGINS, 1 + rnd)
        posclass = GS.pick(i + rnd, 1, GS.POSCLASSES, 1)
        typeclass = GS.pick(i + rnd // 3, 3, GS.TYPECLASSES, 2)
        symclass = {'system': 'all', 'param': GS.pick(i, 1, ['none', 'partial', 'all']), 'none': GS.pick(i, 1, ['none', 'partial'])}[symmode]
        fmt = GS.pick(i, 1, FMT_POSCAR, rnd)
        natoms = natoms_for(ctx, rng, i + 7)
        truth = GS.gen_truth(rng, kind, origin, (True, True, True), posclass, typeclass, symclass, natoms, 1.0)
        if (i + rnd) % 4 == 3:
            # declared atom types beyond the highest one in use (the species list is longer than the types present)
            k = 1 + i % 2
            base = list(truth['symbols']) if truth['symbols'] is not None else [None] * truth['natypes']
            pool = [x for x in GS.ELEMENTS if x not in base]
            extra = pool[:k] if (symmode == 'system' or i % 3 == 0) else [None] * k
            truth['symbols'] = base + extra
            truth['natypes'] = len(truth['symbols'])
            rec.count('class:poscar:trailing-unused-types')
            if None in truth['symbols'] and symmode != 'param':
                rec.count('class:poscar:trailing-unused-types:no-symbols-line')
        cart = cs[0] in 'CcKk'
        dkw = dict(coordstyle=cs, box_scale=scale, float_format=fmt)
        if i % 5 == 0:
            dkw['header'] = 'a comment 1 2 3'
        written = None
        if symmode == 'param':
            written = [str(x) for x in rng.permutation(GS.ELEMENTS)[:truth['natypes']]]
            dkw['symbols'] = written
        elif truth['symbols'] is not None and None not in truth['symbols']:
            written = list(truth['symbols'])          # the writer stores the system's symbols when every type has one
        sig = ('poscar', cs, scale, symmode, fmt)
        rec.case(sig + (kind, origin, posclass, typeclass), nontrivial=nontrivial(truth) or scale != 1.0,
                 fp=fingerprint(truth['vects'], truth['origin'], truth['pos'], truth['atype'], sig))
        count_truth(rec, 'poscar', truth)
        rec.count(f'class:poscar:{"cartesian" if cart else "direct"}')
        rec.count(f'class:poscar:scale:{scale}')
        rec.count(f'class:poscar:symbols-{"written" if written else "not-written"}')
        if cart and scale != 1.0:
            rec.count('class:poscar:cartesian-scaled')
        if i < 12:
            rec.sample(dict(coordstyle=cs, box_scale=scale, symbols=written, float_format=fmt, cell=kind, origin=truth['origin'],
                            atype=truth['atype'], posclass=posclass))
        e = CMP.expect_poscar(truth, fmt, scale, cart, written)
        text = None
        with ctx.guard('poscar dump to a string', 'poscar:dump:exception'):
            text = build(env, truth, {}).dump('poscar', **dkw)
        if not isinstance(text, str):
            continue
        path = write_path(env, f'POSCAR_{i}', text, lambda p: build(env, truth, {}).dump('poscar', f=p, **dkw))
        three_ways(env, 'poscar', text, path, e, {}, stream_kind=i)
        dec = TX.poscar_decorate(text, rng)
        load_and_compare(env, 'poscar', 'string' if i % 2 else 'stream', 'decorated', dec if i % 2 else io.BytesIO(dec.encode()), e, {})
        # a POSCAR of the same system written by the harness under the VASP rules (scale applies to lattice AND Cartesian)
        order = CMP.poscar_order(truth['atype'])
        counts = [int((truth['atype'] == k).sum()) for k in range(1, truth['natypes'] + 1)]
        coords = (truth['pos'] if cart else truth['rel'])[order]
        own = TX.poscar_write(truth['vects'], [coords], counts, written, cs, scale, fmt='%.16e')
        e2 = CMP.expect_poscar(truth, '%.16e', scale, cart, written)
        load_and_compare(env, 'poscar', 'string', 'independent-writer', own, e2, {}, keyprefix='poscar:independent-writer')
        try:
            os.remove(path)
        except OSError:
            pass


# ------------------------------------------------------------------------------------------------ physical length scale
# Every other group gives the system a size of O(1..10) *file units* (so that fixed-point formats keep their digits): a cell
# written in si units is then metres wide.  Here the cell is 3..30 angstrom whatever the unit style, i.e. 1e-10..1e-9 in a
# si file, 1e-8..1e-7 in cgs, 1e-4..1e-3 in micro ...; exponent formats only, whose precision is relative at any scale.
SCALE_FMT = ['%.13e', '%.16e', '%.10e', '%.8e']
SCALE_STYLES = ['atomic', 'charge', 'full', 'dipole', 'sphere', 'hybrid charge molecular', 'electron']
MASKNAMES = {(1, 1, 1): 'xy+xz+yz', (0, 0, 1): 'yz', (1, 0, 0): 'xy', (0, 1, 0): 'xz', (1, 1, 0): 'xy+xz', (1, 0, 1): 'xy+yz',
             (0, 1, 1): 'xz+yz'}


def auto_split(items):
    """What a dump file gives back without a conversion table: standard LAMMPS names are recognised, any other
    multi-column property comes back as one scalar property per column, named as in the file."""
    out = {}
    for name, (arr, knd, Fq) in items.items():
        if arr.ndim == 1 or name in [s[0] for s in STANDARD]:
            out[name] = (arr, knd, Fq)
        else:
            for idx in np.ndindex(*arr.shape[1:]):
                out[name + ''.join(f'[{j}]' for j in idx)] = (arr[(slice(None),) + idx], knd, Fq)
    return out


def group_scale(env):
    ctx, rec, am = env.ctx, env.rec, env.am
    ntc, nun = len(GS.TILTCLASSES), len(UNITS)
    block = ntc * nun
    n = ctx.pick(block * 3, block * 21)
    for i in ctx.cases('scale', n):
        rng = ctx.rng
        units = UNITS[i % nun]
        tiltclass = GS.TILTCLASSES[(i // nun) % ntc]
        rnd = i // block
        mask = GS.TILTMASKS[(i + rnd) % len(GS.TILTMASKS)]         # 7 masks against 8 unit styles: every mask in every tilt class
        origin = ('zero', 'near')[(i // 2 + rnd) % 2]
        pbc = cells.PBCS[7] if (i + i // nun) % 3 else cells.PBCS[(i // 3 + rnd) % 8]
        posclass = ('inside', 'mixed', 'far')[(i + i // nun + rnd) % 3]
        typeclass = GS.TYPECLASSES[(i // 4 + rnd) % 4]
        fmt = SCALE_FMT[(i + i // nun + rnd) % (2 if tiltclass == 'tilt-tiny' else 4)]
        style = SCALE_STYLES[(i + i // nun + 2 * rnd) % len(SCALE_STYLES)]
        withvel = (i // nun + rnd) % 2 == 0
        magclass = ('physical', 'file')[(i // (2 * nun) + rnd) % 2]  # per-atom values O(1) working units / O(1) file units
        natoms = natoms_for(ctx, rng, i + 2)
        if not style_available(env, units, ST.quantities(style, withvel)):
            rec.count('scale:style-without-unit-entry->atomic')
            style = 'atomic'
        F = lambda q: unit_factor(env, units, q)          # noqa: E731
        Flen = F('length')
        cell = GS.gen_tilt_cell(rng, tiltclass, mask, origin)
        truth = GS.gen_truth(rng, None, origin, pbc, posclass, typeclass, 'none', natoms, cell=cell)
        mname = MASKNAMES[mask] if tiltclass != 'orthogonal' else 'none'
        sig = ('scale', units, tiltclass, mname, fmt, style, magclass)
        rec.case(sig + (origin, posclass, typeclass), nontrivial=True,
                 fp=fingerprint(truth['vects'], truth['origin'], truth['pos'], truth['atype'], sig))
        count_truth(rec, 'scale', truth)
        rec.count(f'class:scale:{units}:{tiltclass}')
        rec.count(f'class:scale:tilts:{mname}')
        rec.count(f'class:scale:values:{magclass}')
        rec.count(f'class:scale:pbc:{"".join("1" if p else "0" for p in pbc)}')
        if i < block and i % 5 == 0:
            rec.sample(dict(group='scale', units=units, tiltclass=tiltclass, tilts_angstrom=cell['tilts'], cell=truth['vects'],
                            one_file_length_unit_in_angstrom=Flen, float_format=fmt, atom_style=style, pbc=pbc, natoms=natoms))
        # ---- data file
        props = gen_style_props(env, rng, truth, style, units if magclass == 'file' else 'lj', withvel)
        items = {}
        for name, knd, shape, q in ST.atoms_columns(style) + (ST.velocity_columns(style) if withvel else []):
            items[name] = (props[name], knd, F(q))
        e = CMP.expect_data(truth, fmt, Flen, items)
        dkw = dict(atom_style=style, units=units, float_format=fmt)
        text = None
        with ctx.guard('atom_data dump to a string', 'atom_data:dump:exception'):
            text = build(env, truth, props).dump('atom_data', safecopy=bool(i % 2), return_info=False, **dkw)
        if isinstance(text, str):
            lkw = dict(pbc=truth['pbc'], units=units)
            if (i // 2) % 2 == 0:
                lkw['atom_style'] = style
            load_and_compare(env, 'atom_data', 'string', 'physical-scale', text, e, lkw)
            if i % 2:
                path = os.path.join(env.tmp, f'scale_{i}.dat')
                with open(path, 'w', encoding='UTF-8') as f:
                    f.write(text)
                load_and_compare(env, 'atom_data', 'path', 'physical-scale', path, e, lkw)
                os.remove(path)
            else:
                load_and_compare(env, 'atom_data', 'stream', 'physical-scale', io.BytesIO(text.encode()), e, lkw)
            sh = TX.data_decorate(TX.data_shuffle(text, rng), rng, drop_style_comment=False)
            load_and_compare(env, 'atom_data', 'string', 'physical-scale:shuffled+decorated', sh, e, lkw)
            rec.count(f'loads:scale:atom_data:{units}:{tiltclass}')
        # ---- dump file of the same system
        Fv = F('velocity')
        dprops = {'velocity': GS.gen_prop(rng, natoms, 'f', (3,), Fv if magclass == 'file' else 1.0),
                  'disp': GS.gen_prop(rng, natoms, 'f', (3,)), 'cna': GS.gen_prop(rng, natoms, 'i', ())}
        ditems = {'velocity': (dprops['velocity'], 'f', Fv), 'disp': (dprops['disp'], 'f', 1.0), 'cna': (dprops['cna'], 'i', 1.0)}
        ditems['atom_id'] = (np.arange(1, natoms + 1), 'i', 1.0)
        dkw = dict(lammps_units=units, float_format=fmt)
        text = pinfo = None
        with ctx.guard('atom_dump dump to a string', 'atom_dump:dump:exception'):
            text, pinfo = build(env, truth, dprops).dump('atom_dump', return_prop_info=True, **dkw)
        if isinstance(text, str):
            lkw = dict(lammps_units=units)
            e_auto = CMP.expect_dump(truth, fmt, Flen, auto_split(ditems))
            e_full = CMP.expect_dump(truth, fmt, Flen, ditems)
            load_and_compare(env, 'atom_dump', 'string', 'physical-scale', text, e_auto, lkw)
            sh = TX.dump_shuffle(text, rng)
            load_and_compare(env, 'atom_dump', 'stream' if i % 2 else 'string', 'physical-scale:returned-prop_info',
                             io.BytesIO(sh.encode()) if i % 2 else sh, e_full, dict(lkw, prop_info=pinfo))
            rec.count(f'loads:scale:atom_dump:{units}:{tiltclass}')


# ------------------------------------------------------------------------------------------------ per-atom property shapes
SHAPE_VARIANTS = ['all-default', 'names', 'shape-lists', 'prop_info']
BOOL_SHAPES = [(1,), (), (1, 1), (3,)]


def lists_from(pinfo):
    """The returned conversion table spelled as the loader's parallel-list parameters (same information)."""
    return dict(prop_name=[p['prop_name'] for p in pinfo], table_name=[list(p['table_name']) for p in pinfo],
                shape=[tuple(p['shape']) for p in pinfo], unit=[p['unit'] for p in pinfo], dtype=[p['dtype'] for p in pinfo])


def group_shapes(env):
    """Every per-atom shape in GS.SHAPES, as float and as integer property (plus one bool), through table and atom_dump
    with the conversion table the writer returned; cells of physical size, positions in the unit of the file."""
    ctx, rec, am, uc = env.ctx, env.rec, env.am, env.uc
    nv = len(SHAPE_VARIANTS)
    n = ctx.pick(nv * 12, nv * 120)
    for i in ctx.cases('shapes', n):
        rng = ctx.rng
        variant = SHAPE_VARIANTS[i % nv]
        rnd = i // nv
        units = UNITS[(i + rnd) % len(UNITS)]
        lunit = TABLE_UNITS[(i // 2 + rnd) % len(TABLE_UNITS)][0]
        natoms = (1, 2, 3, None)[(i + rnd) % 4]
        if natoms is None:
            natoms = int(rng.integers(4, 10))
        tiltclass = GS.TILTCLASSES[(i // 2 + rnd) % len(GS.TILTCLASSES)]
        mask = GS.TILTMASKS[i % len(GS.TILTMASKS)]
        origin = ('zero', 'near')[(i + rnd // 2) % 2]
        posclass = ('inside', 'mixed')[(i // 2) % 2]
        typeclass = GS.TYPECLASSES[(i + rnd) % 4]
        fmt = SCALE_FMT[(i + rnd) % 3]
        pbc = cells.PBCS[7] if i % 3 else cells.PBCS[(i // 3) % 8]
        cell = GS.gen_tilt_cell(rng, tiltclass, mask, origin)
        truth = GS.gen_truth(rng, None, origin, pbc, posclass, typeclass, 'none', natoms, cell=cell)
        # the properties, in an order that differs from case to case
        spec = [(GS.shape_name(k, sh), k, sh) for sh in GS.SHAPES for k in ('f', 'i')]
        bshape = BOOL_SHAPES[rnd % len(BOOL_SHAPES)]
        spec.append((GS.shape_name('b', bshape), 'b', bshape))
        spec = [spec[j] for j in rng.permutation(len(spec))]
        props, items = {}, {}
        for name, knd, shape in spec:
            props[name] = GS.gen_prop(rng, natoms, knd, shape)
            items[name] = (props[name], knd, 1.0)
            rec.count(f'class:shapes:{knd}:{shape}')
        names = [s[0] for s in spec]
        sig = ('shapes', variant, natoms if natoms < 4 else 'n', fmt)
        rec.case(sig + (tiltclass, origin, posclass, typeclass, units, lunit), nontrivial=True,
                 fp=fingerprint(truth['vects'], truth['origin'], truth['pos'], truth['atype'], sig))
        count_truth(rec, 'shapes', truth)
        rec.count(f'class:shapes:variant:{variant}')
        rec.count(f'class:shapes:natoms:{natoms if natoms < 4 else "more"}')
        if i < 2 * nv:
            rec.sample(dict(group='shapes', variant=variant, natoms=natoms, float_format=fmt,
                            properties={nm: dict(kind=k, per_atom_shape=sh) for nm, k, sh in spec}))
        # ---- table
        tkw = dict(float_format=fmt)
        Flen = 1.0
        if variant == 'names':
            tkw.update(prop_name=['atype', 'pos'] + names)
        elif variant == 'shape-lists':
            Flen = float(uc.set_in_units(1.0, lunit))
            tkw.update(prop_name=['atype', 'pos'] + names, shape=[(), (3,)] + [s[2] for s in spec],
                       unit=[None, lunit] + [None] * len(spec))
        elif variant == 'prop_info':
            Flen = float(uc.set_in_units(1.0, lunit))
            tkw.update(prop_info=[dict(prop_name='a_id', table_name='id'), dict(prop_name='atype'),
                                  dict(prop_name='pos', shape=(3,), unit=lunit)]
                       + [dict(prop_name=nm, shape=sh) for nm, k, sh in spec])
        text = pinfo = None
        with ctx.guard('table dump to a string', 'table:dump:exception'):
            text, pinfo = build(env, truth, props).dump('table', return_prop_info=True, **tkw)
        if isinstance(text, str):
            path = write_path(env, f'shapes_{i}.txt', text, lambda p: build(env, truth, props).dump('table', f=p, **tkw))
            v = truth['vects']
            mkbox = lambda: am.Box(avect=v[0].copy(), bvect=v[1].copy(), cvect=v[2].copy(), origin=truth['origin'].copy())   # noqa: E731
            e = CMP.expect_table(truth, fmt, items, pos_F=Flen)
            three_ways_table(env, text, path, e, mkbox, dict(prop_info=pinfo), 'shapes:returned-prop_info', i)
            load_and_compare(env, 'table', 'string', 'shapes:returned-as-lists', text, e, dict(box=mkbox(), **lists_from(pinfo)))
            if variant == 'prop_info':
                sh = TX.table_decorate(TX.table_shuffle(text, rng, 0), rng, 0)
                load_and_compare(env, 'table', 'string', 'shapes:shuffled+decorated', sh, e,
                                 dict(box=mkbox(), comment='#', prop_info=pinfo))
            rec.count('shapes:table:evaluated')
            try:
                os.remove(path)
            except OSError:
                pass
        # ---- dump file
        F = unit_factor(env, units, 'length')
        dkw = dict(lammps_units=units, float_format=fmt)
        ditems = dict(items)
        ditems['atom_id'] = (np.arange(1, natoms + 1), 'i', 1.0)
        if variant == 'names':
            dkw.update(prop_name=['atom_id', 'atype', 'pos'] + names)
        elif variant == 'shape-lists':
            dkw.update(prop_name=['atom_id', 'atype', 'pos'] + names, shape=[(), (), (3,)] + [s[2] for s in spec])
        elif variant == 'prop_info':
            # (no unit entry for pos: the positions are then written as they are, the cell in file units)
            dkw.update(prop_info=[dict(prop_name='atom_id', table_name='id'), dict(prop_name='atype', table_name='type'),
                                  dict(prop_name='pos', shape=(3,))] + [dict(prop_name=nm, shape=sh) for nm, k, sh in spec])
        text = pinfo = None
        with ctx.guard('atom_dump dump to a string', 'atom_dump:dump:exception'):
            text, pinfo = build(env, truth, props).dump('atom_dump', return_prop_info=True, **dkw)
        if isinstance(text, str):
            lkw = dict(lammps_units=units)
            e_full = CMP.expect_dump(truth, fmt, F, ditems)
            load_and_compare(env, 'atom_dump', 'string', 'shapes:returned-prop_info', text, e_full, dict(lkw, prop_info=pinfo))
            sh = TX.dump_shuffle(text, rng)
            if i % 2:
                path = os.path.join(env.tmp, f'shapes_{i}.dump')
                with open(path, 'w', encoding='UTF-8') as f:
                    f.write(sh)
                load_and_compare(env, 'atom_dump', 'path', 'shapes:returned-prop_info', path, e_full, dict(lkw, prop_info=pinfo))
                os.remove(path)
            else:
                load_and_compare(env, 'atom_dump', 'stream', 'shapes:returned-prop_info', io.BytesIO(sh.encode()), e_full,
                                 dict(lkw, prop_info=pinfo))
            load_and_compare(env, 'atom_dump', 'string', 'shapes:returned-as-lists', sh, e_full, dict(lkw, **lists_from(pinfo)))
            if variant != 'prop_info':
                e_auto = CMP.expect_dump(truth, fmt, F, auto_split(ditems))
                load_and_compare(env, 'atom_dump', 'string', 'shapes:file-alone', text, e_auto, lkw)
            rec.count('shapes:atom_dump:evaluated')


# ------------------------------------------------------------------------------------------------ run
REACH = [('atomman/load/atom_data/load.py', 304, 315, 'data:image-flags-reapplied', 4),
         ('atomman/load/atom_data/load.py', 231, 244, 'data:format-errors', 3),
         ('atomman/load/atom_dump/load.py', 138, 147, 'dump:tilt-bounds-to-lohi', 5),
         ('atomman/load/table/load.py', 122, 126, 'table:unit-and-scaled-conversion', 3),
         ('atomman/load/poscar/load.py', 49, 60, 'poscar:symbols-line-branches', 6)]


def run(ctx):
    import atomman as am
    import atomman.unitconvert as uc
    env = Env()
    env.ctx, env.rec, env.am, env.uc, env.fcache = ctx, ctx.rec, am, uc, {}
    env.tmp = tempfile.mkdtemp(prefix='vfC08_')
    rec = ctx.rec
    cover.start([r[0] for r in REACH])
    try:
        group_data(env)
        group_dump(env)
        group_table(env)
        group_poscar(env)
        group_scale(env)
        group_shapes(env)
    finally:
        shutil.rmtree(env.tmp, ignore_errors=True)
    for f, lo, hi, name, _ in REACH:
        rec.count('reach:' + name, cover.hits(f, lo, hi))

    for f, lo, hi, name, m in REACH:
        rec.floor('reach:' + name, m)
    for fmt in ('atom_data', 'atom_dump', 'poscar'):
        for via in ('string', 'path', 'stream'):
            rec.floor(f'loads:{fmt}:{via}:plain', 20)
        rec.floor(f'textstream-refused:{fmt}', 20)
        rec.floor(f'class:{fmt}:atoms-outside', 10)
        rec.floor(f'class:{fmt}:atoms-on-face', 10)
        rec.floor(f'class:{fmt}:origin-nonzero', 10)
        rec.floor(f'class:{fmt}:type-gaps', 10)
        rec.floor(f'class:{fmt}:cell:tilted', 3)
    for via in ('string', 'path', 'stream'):
        rec.floor(f'loads:table:{via}:returned-prop_info', 20)
    rec.floor('textstream-refused:table', 20)
    rec.floor('loads:atom_data:string:shuffled', 50)
    rec.floor('loads:atom_data:string:decorated', 50)
    rec.floor('loads:atom_dump:string:shuffled', 50)
    rec.floor('loads:table:string:shuffled', 10)
    rec.floor('loads:table:string:decorated', 10)
    rec.floor('loads:poscar:string:decorated', 10)
    rec.floor('loads:poscar:string:independent-writer', 50)
    for k in ('atoms', 'box', 'Atoms'):
        rec.floor('reject:' + k, 30)
    for u in U.NON_ANGSTROM:
        rec.floor(f'class:atom_data:units:{u}', 5)
        rec.floor(f'class:atom_dump:units:{u}', 5)
    for s in ST.STYLES:
        rec.floor(f'class:atom_data:style:{s}', 2)
    rec.floor('class:atom_data:image-flags-written', 20)
    rec.floor('class:atom_data:velocities-section', 20)
    for p in ('000', '111', '101', '010'):
        rec.floor(f'class:atom_data:pbc:{p}', 3)
    rec.floor('class:atom_dump:pbc:010', 2)
    rec.floor('atom_dump:returned-prop_info:scaled:evaluated', 5)
    rec.floor('table:returned-prop_info:scaled:evaluated', 5)
    rec.floor('loads:atom_dump:string:own-prop_info-scaled', 5)
    rec.floor('class:poscar:cartesian-scaled', 10)
    rec.floor('class:poscar:symbols-written', 10)
    rec.floor('class:poscar:symbols-not-written', 10)
    rec.floor('class:poscar:cell:rotated', 3)
    rec.floor('class:poscar:trailing-unused-types', 10)
    rec.floor('class:poscar:trailing-unused-types:no-symbols-line', 3)
    # physical length scale: every unit style x tilt class, every non-zero pattern of the tilt factors, both LAMMPS formats
    for u in UNITS:
        for tc in GS.TILTCLASSES:
            rec.floor(f'class:scale:{u}:{tc}', 3)
            rec.floor(f'loads:scale:atom_data:{u}:{tc}', 3)
            rec.floor(f'loads:scale:atom_dump:{u}:{tc}', 3)
    for m in MASKNAMES.values():
        rec.floor(f'class:scale:tilts:{m}', 6)
    for mc in ('physical', 'file'):
        rec.floor(f'class:scale:values:{mc}', 30)
    rec.floor('class:scale:atoms-outside', 20)
    rec.floor('class:scale:origin-nonzero', 20)
    for via in ('string', 'path', 'stream'):
        rec.floor(f'loads:atom_data:{via}:physical-scale', 20)
    rec.floor('loads:atom_data:string:physical-scale:shuffled+decorated', 60)
    rec.floor('loads:atom_dump:string:physical-scale', 60)
    rec.floor('loads:atom_dump:string:physical-scale:returned-prop_info', 20)
    rec.floor('loads:atom_dump:stream:physical-scale:returned-prop_info', 20)
    # per-atom property shapes: every shape as float and as integer, through both formats, every natoms class
    for sh in GS.SHAPES:
        for k in ('f', 'i'):
            rec.floor(f'class:shapes:{k}:{sh}', 40)
    for sh in BOOL_SHAPES:
        rec.floor(f'class:shapes:b:{sh}', 4)
    for v in SHAPE_VARIANTS:
        rec.floor(f'class:shapes:variant:{v}', 10)
    for k in ('1', '2', '3', 'more'):
        rec.floor(f'class:shapes:natoms:{k}', 8)
    rec.floor('shapes:table:evaluated', 40)
    rec.floor('shapes:atom_dump:evaluated', 40)
    for via in ('string', 'path', 'stream'):
        rec.floor(f'loads:table:{via}:shapes:returned-prop_info', 40)
    rec.floor('loads:table:string:shapes:returned-as-lists', 40)
    rec.floor('loads:table:string:shapes:shuffled+decorated', 10)
    rec.floor('loads:atom_dump:string:shapes:returned-prop_info', 40)
    rec.floor('loads:atom_dump:path:shapes:returned-prop_info', 15)
    rec.floor('loads:atom_dump:stream:shapes:returned-prop_info', 15)
    rec.floor('loads:atom_dump:string:shapes:returned-as-lists', 40)
    rec.floor('loads:atom_dump:string:shapes:file-alone', 30)
