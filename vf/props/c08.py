"""C08 - loading what was dumped returns the system (LAMMPS data / dump, table, POSCAR)."""
from __future__ import annotations

import copy
import io
import os
import shutil
import signal
import tempfile

import numpy as np

from ..core import fingerprint
from ..gen import cells
from ..gen import c08_styles as ST
from ..gen import c08_systems as GS
from ..gen import c08_text as TX
from ..oracle import c08_compare as CMP
from ..oracle import c08_units as U
from .. import cover

RULE = ('eight case groups (atom_data, atom_dump, table, poscar, scale, shapes, pscale, history).  Classes are round-robin functions of the case index: '
        'atom_data = 21 atom styles (incl. 3 hybrids) x 8 unit styles (mixed radix, every pair within 168 cases) with cell kind '
        '(7 families + strongly tilted) / origin class / 8 pbc settings / position class (inside, mixed inside-outside-on-face-'
        'near-face, all on faces, several cells away) / type class (single, contiguous, gaps, type 1 unused) / float format / '
        'velocities on-off on co-prime strides; atom_dump = 8 unit styles x 6 variants (default, pos column variants '
        'x|xs|xu|xsu, carried atom ids, scaled + returned prop_info, standard LAMMPS columns with units, all-properties); '
        'table = 6 variants (all-default, unit lists, id column, scaled, header line, custom column names); poscar = 8 '
        'coordinate keywords x 3 scale factors x 3 symbol modes x 4 type classes x 9 cell kinds (incl. rotated) x 3 origins.  '
        'Every text is loaded from a string, a path and an open binary stream (text stream: documented refusal), again after '
        'shuffling atom lines (formats with ids) and after inserting the comments / blank lines the format manual allows; '
        'truncated data files must raise FileFormatError.  scale = cells of physical size (edges 3..30 angstrom, i.e. 1e-10 in a si '
        'file, 1e-8 in cgs) in 8 unit styles x 4 tilt classes (orthogonal, all tilt factors > 1.3 angstrom, all < 1 angstrom, all '
        '1e-5..1e-2 angstrom) x 7 patterns of non-zero tilt factors, per-atom values O(1) in working or in file units, written '
        'with exponent formats as data file and as dump file; shapes = per-atom properties of shape (), (1,), (2,), (3,), (1,1), '
        '(1,3), (3,1), (3,3), (1,1,1), (2,2) each as float and as integer plus one bool, natoms 1/2/3/more, 4 ways of naming them '
        'to the writer, through table and atom_dump with the returned conversion table (as given and spelled as parallel lists).  '
        'pscale = POSCAR box_scale over 12 classes of numbers (1, short decimals above / below one, irrational constants, '
        'random full-mantissa factors, the length of a cell vector, short decimals perturbed in the 8th..12th digit, factors 1e-3..1e-2 '
        'and 1e2..1e3, int, numpy float32 / float64 scalars) x 8 coordinate keywords x 4 float formats, read back from string, path and '
        'stream, plus harness-written files whose scale line is spelled in 7 ways (exponent, shortest repr, 17 digits, padded, upper-case E, '
        'plus sign, long fixed-point).  history = 4 formats x 5 kinds of call history (A-B-A: write/read A, write/read B with the '
        'same argument objects and - for data files - another atom style of the same unit style, incl. hybrid styles in both orders, '
        'then A\'s kept result, the arguments, a repeated read and a repeated write are re-judged; reset: one System object re-set in '
        'place to another cell / positions / properties and back; gen2: a loaded System and a deep copy written again; forms: Systems '
        'built from integer arrays (integer and float cell), nested lists, float32 arrays, strided / Fortran-ordered arrays, narrow '
        'integer dtypes; handles: open text handle / StringIO for writing, open binary handle / BytesIO / text passed by keyword for '
        'reading) x rotating options (9 atom-style pairs, 4 column-table variants for dump files and tables incl. caller-written '
        'tables and box-relative positions, 8 POSCAR keywords with and without scale).  '
        'Ground truth = the generated numpy arrays (never re-read from atomman). '
        'A case is non-trivial when it has a tilted or shifted cell, an atom outside the cell or on a face, more than one '
        'atom type, or a unit style whose length unit is not the angstrom; distinct = distinct fingerprint of '
        '(cell, origin, positions, types, class signature).')
ASSUMPTIONS = [
    'cells are right-handed, LAMMPS-oriented for the LAMMPS formats (POSCAR also arbitrarily rotated), volume >= 10 % of abc',
    'groups atom_data/atom_dump/table/poscar: numbers are O(1..1e3) in the units of the file, so fixed-point formats keep at least 6 '
    'significant digits; groups scale/shapes: cells are 3..30 angstrom whatever the file unit and only exponent formats (>= 8 '
    'digits; >= 13 for tilt factors below 0.01 angstrom) are used, whose precision is relative at any scale',
    'tilt factors are either exactly zero or at least 1e-5 angstrom (1e-6 of the cell): the cell constructor itself zeroes '
    'components below 1e-9 of the largest one',
    'comparison bound = half a unit in the last printed place (times 1+3*|image flags| for data files, propagated through the '
    'cell for scaled/direct coordinates) plus 1e-12 relative floating-point slack',
    'data files: positions are compared after the reader re-applied the image flags; along non-periodic directions the cell may '
    'grow by at most 1 % beyond the outermost atom and must be unchanged when every atom is at least 1e-6 inside',
    'POSCAR has no origin: direct mode keeps the place in the cell (pos - origin), Cartesian mode the absolute place; atoms come '
    'back grouped by type in input order; element symbols are stored only when every type has one',
    'files with carried atom ids come back in id order (compared per id)',
    'integer dtypes are one kind (signed/unsigned not distinguished: Atoms stores atype as uint64)',
    'density-carrying atom styles (ellipsoid, line, tri, sphere, peri) under electron units are refused by the writer with '
    'KeyError (LAMMPS defines no density unit for that style, the unit table has no entry): counted as refusals',
    'dump files and POSCAR allow no comments or blank lines between records, so only the atom-line order (dump), the free '
    'comment line and trailing blank lines (POSCAR) are varied there',
    'POSCAR box_scale is a positive finite number (VASP\'s negative "cell volume" convention is not part of atomman\'s writer); the '
    'bound on the loaded cell includes half a unit in the last place of the scale line as printed with float_format',
    'history group: results of one call are compared bit for bit with results of an equal call (same text, same arguments) and a kept '
    'result with itself later on; a second write/read generation is allowed twice the bound (fully periodic data files only: the '
    'enlargement of non-periodic directions is not idempotent); float32 per-atom values that go through a unit conversion are '
    'converted in float32 by numpy and get 4 float32 epsilons on top; float32 positions are not generated (Atoms keeps them '
    'float32, every later change is then float32 arithmetic)',
    'a loaded System whose integer columns are read-only arrays (pandas >= 3 hands out read-only buffers) is counted, not judged',
    'the magnitude of one file unit (for input scaling and the precision bound only) is taken from atomman\'s unit table where '
    'it has the entry, cross-checked against the oracle table (disagreements are counted, they belong to C07/C09)',
]
CONFIG = {'quick': {'timeout': 600}, 'thorough': {'timeout': 2400}}

UNITS = U.STYLES                                      # metal real si cgs electron micro nano lj
FMT_LAMMPS = ['%.13f', '%.16e', '%.6f', '%.5e', '%.10f']
FMT_POSCAR = ['%.13e', '%.16e', '%.13f', '%.6e']
EXTRA_DUMP = [('stress', 'f', (3, 3)), ('disp', 'f', (3,)), ('cna', 'i', ()), ('flag', 'b', ()), ('pe', 'f', ()),
              ('burgers', 'i', (3,))]
TABLE_UNITS = [('nm', 'length'), ('m', 'length'), ('aBohr', 'length'), ('angstrom', 'length'), ('um', 'length'), ('cm', 'length')]
TABLE_VUNITS = ['nm/ns', 'm/s', 'angstrom/ps', 'angstrom/fs', 'cm/s']


# ------------------------------------------------------------------------------------------------ helpers
class Env:
    pass


CPU_LIMIT = 10.0      # CPU seconds one load may take (they take milliseconds); a runaway load becomes a recorded violation


class LoadTimeout(Exception):
    pass


class cpu_limit:
    """Raise LoadTimeout inside the block after ``seconds`` of CPU time (ITIMER_VIRTUAL: immune to machine load)."""

    def __init__(self, seconds):
        self.seconds = seconds

    def _handler(self, signum, frame):
        raise LoadTimeout(f'no result after {self.seconds} CPU seconds')

    def __enter__(self):
        self.old = signal.signal(signal.SIGVTALRM, self._handler)
        signal.setitimer(signal.ITIMER_VIRTUAL, self.seconds)

    def __exit__(self, *exc):
        signal.setitimer(signal.ITIMER_VIRTUAL, 0)
        signal.signal(signal.SIGVTALRM, self.old)
        return False


def unit_factor(env, style, quantity):
    """Magnitude (working units) of the file unit of ``quantity`` in LAMMPS unit ``style``; see ASSUMPTIONS."""
    if quantity is None or style == 'lj':
        return 1.0
    key = (style, quantity)
    if key in env.fcache:
        return env.fcache[key]
    tab = env.am.lammps.style.unit(style)
    mine = U.factor(style, quantity) if U.has(style, quantity) else None
    theirs = None
    if quantity in tab and tab[quantity] is not None:
        theirs = float(env.uc.set_in_units(1.0, tab[quantity]))
    if mine is not None and theirs is not None:
        env.rec.count('unit-factor:agree' if abs(theirs / mine - 1) < 1e-3 else f'unit-factor:disagree:{style}:{quantity}')
    f = theirs if theirs is not None else mine
    env.fcache[key] = f
    return f


def style_available(env, style, quantities):
    tab = env.am.lammps.style.unit(style)
    return all(q in tab for q in quantities)


def build(env, truth, props, symbols='truth'):
    am = env.am
    v = truth['vects'].copy()
    box = am.Box(avect=v[0], bvect=v[1], cvect=v[2], origin=truth['origin'].copy())
    kw = {k: np.array(a, copy=True) for k, a in props.items()}
    atoms = am.Atoms(atype=truth['atype'].copy(), pos=truth['pos'].copy(), **kw)
    sym = truth['symbols'] if symbols == 'truth' else symbols
    return am.System(atoms=atoms, box=box, pbc=truth['pbc'], symbols=(list(sym) if sym is not None else None))


def observe(system):
    props = {}
    for k in system.atoms_prop():
        props[k] = np.array(system.atoms.view[k], copy=True)
    return dict(vects=np.array(system.box.vects, float), origin=np.array(system.box.origin, float),
                pbc=tuple(bool(x) for x in system.pbc), symbols=tuple(system.symbols), natoms=int(system.natoms), props=props)


def load_and_compare(env, fmt, via, variant, data, e, loadkw, keyprefix=None):
    """One load through the real code + all clauses.  Returns True when the load returned a system."""
    rec, am = env.rec, env.am
    key = keyprefix or f'{fmt}:{via}:{variant}'
    what = fmt
    system = None
    with env.ctx.guard(f'{fmt}: load does not raise on a well-formed file', key + ':exception'):
        with cpu_limit(CPU_LIMIT):
            system = am.load(fmt, data, **loadkw)
    if system is None:
        return False
    if isinstance(system, tuple):
        system = system[0]
    CMP.compare(rec, key, observe(system), e, what)
    rec.count(f'loads:{fmt}:{via}:{variant}')
    rec.count(f'loads:{fmt}')
    return True


def three_ways(env, fmt, text, path, e, loadkw, variant='plain', stream_kind=0):
    """string, path, open binary stream, and the documented refusal of a text-mode stream."""
    rec = env.rec
    load_and_compare(env, fmt, 'string', variant, text, e, loadkw)
    load_and_compare(env, fmt, 'path', variant, path, e, loadkw)
    if stream_kind % 2 == 0:
        with open(path, 'rb') as f:
            load_and_compare(env, fmt, 'stream', variant, f, e, loadkw)
    else:
        load_and_compare(env, fmt, 'stream', variant, io.BytesIO(text.encode()), e, loadkw)
    try:
        s = env.am.load(fmt, io.StringIO(text), **loadkw)
    except ValueError:
        rec.refusal(f'{fmt}: text-mode stream refused (ValueError)')
        rec.count(f'textstream-refused:{fmt}')
    except Exception as ex:
        rec.fail(f'{fmt}: a text-mode stream is refused with ValueError', f'{fmt}:textstream:exception', exception=ex)
    else:
        if isinstance(s, tuple):
            s = s[0]
        CMP.compare(rec, f'{fmt}:textstream:{variant}', observe(s), e, fmt)


def write_path(env, name, text_from_string, dumper):
    """Let the writer itself write to a path (f=path); the file must then hold what the string form holds."""
    path = os.path.join(env.tmp, name)
    with env.ctx.guard('dump to a file path', 'dump:path:exception'):
        dumper(path)
    ok = False
    if os.path.exists(path):
        with open(path, 'r', encoding='UTF-8') as f:
            ok = f.read() == text_from_string
    if not ok:                                     # keep going with an equivalent file; the difference is C07's business
        env.rec.count('dump:path-differs-from-string')
        with open(path, 'w', encoding='UTF-8') as f:
            f.write(text_from_string)
    return path


def common_axes(i, kinds):
    """Deterministic, mutually decorrelated class choices for case index i."""
    nk = len(kinds)
    kind = kinds[i % nk]
    pbc = cells.PBCS[7] if (i + i // nk) % 2 == 0 else cells.PBCS[(i // 2 + i // 16) % 8]      # every other case fully periodic
    posclass = GS.POSCLASSES[(1 + i + i // 8) % 4]
    typeclass = GS.TYPECLASSES[(1 + i // 2 + i // 16) % 4]
    origin = cells.ORIGINS[(1 + i + i // 3) % 3]
    symclass = GS.SYMCLASSES[(i + i // 4) % 3]
    return kind, origin, pbc, posclass, typeclass, symclass


def natoms_for(ctx, rng, i):
    if i % 11 == 0:
        return 1
    if i % 11 == 1:
        return 2
    return int(rng.integers(5, ctx.pick(10, 28)))


def nontrivial(truth, units='metal'):
    v, o = truth['vects'], truth['origin']
    tilted = abs(v[1, 0]) + abs(v[2, 0]) + abs(v[2, 1]) + abs(v[0, 1]) + abs(v[0, 2]) + abs(v[1, 2]) > 0
    r = truth['rel']
    outside = bool(((r <= 0) | (r >= 1)).any())
    return bool(tilted or np.any(o != 0) or outside or len(set(truth['atype'].tolist())) > 1 or units in U.NON_ANGSTROM)


def count_truth(rec, fmt, truth):
    r = truth['rel']
    rec.count(f'class:{fmt}:pos:{truth["posclass"]}')
    rec.count(f'class:{fmt}:types:{truth["typeclass"]}')
    rec.count(f'class:{fmt}:cell:{truth["kind"]}')
    if np.any(truth['origin'] != 0):
        rec.count(f'class:{fmt}:origin-nonzero')
    if ((r < 0) | (r > 1)).any():
        rec.count(f'class:{fmt}:atoms-outside')
    if ((r == 0) | (r == 1)).any():
        rec.count(f'class:{fmt}:atoms-on-face')
    used = set(truth['atype'].tolist())
    if used != set(range(1, max(used) + 1)):
        rec.count(f'class:{fmt}:type-gaps')
    if truth['symbols'] is not None:
        rec.count(f'class:{fmt}:symbols-present')
    else:
        rec.count(f'class:{fmt}:symbols-absent')


# ------------------------------------------------------------------------------------------------ atom_data
def group_data(env):
    ctx, rec, am = env.ctx, env.rec, env.am
    from atomman.load import FileFormatError
    nst, nun = len(ST.STYLES), len(UNITS)
    n = ctx.pick(nst * nun, nst * nun * 6)
    for i in ctx.cases('atom_data', n):
        rng = ctx.rng
        style = ST.STYLES[i % nst]
        units = UNITS[(i // nst) % nun]
        kind, origin, pbc, posclass, typeclass, symclass = common_axes(i + i // (nst * nun), GS.LAMMPS_KINDS)
        fmt = GS.pick(i, 1, FMT_LAMMPS, i // nst)
        withvel = (i + i // nst) % 2 == 0
        explicit_style = (i // 2) % 2 == 0
        natoms = natoms_for(ctx, rng, i)
        quantities = ST.quantities(style, withvel)
        sig = ('atom_data', style, units, fmt, 'vel' if withvel else 'novel')
        if not style_available(env, units, quantities):
            # documented by the unit table itself: no such unit in this style -> the writer cannot build its column table
            truth = GS.gen_truth(rng, kind, origin, pbc, posclass, typeclass, symclass, natoms, 1.0)
            props = gen_style_props(env, rng, truth, style, 'lj', withvel)
            system = build(env, truth, props)
            out = None
            with ctx.guard('atom_data dump of a style/unit pair without unit entry', f'atom_data:dump:{style}:exception', accept=(KeyError,)):
                out = system.dump('atom_data', atom_style=style, units=units, return_info=False)
            rec.count('atom_data:unit-entry-missing')
            if out is not None:
                rec.count('atom_data:unit-entry-missing:dump-succeeded')
            rec.case(sig + ('refused',), nontrivial=False)
            continue
        F = lambda q: unit_factor(env, units, q)          # noqa: E731
        Flen = F('length')
        truth = GS.gen_truth(rng, kind, origin, pbc, posclass, typeclass, symclass, natoms, Flen)
        props = gen_style_props(env, rng, truth, style, units, withvel)
        rec.case(sig + (kind, origin, posclass, typeclass), nontrivial=nontrivial(truth, units),
                 fp=fingerprint(truth['vects'], truth['origin'], truth['pos'], truth['atype'], sig))
        count_truth(rec, 'atom_data', truth)
        rec.count(f'class:atom_data:style:{style}')
        rec.count(f'class:atom_data:units:{units}')
        rec.count(f'class:atom_data:pbc:{"".join("1" if p else "0" for p in pbc)}')
        if i < 3 * nst:
            rec.sample(dict(style=style, units=units, float_format=fmt, cell=kind, origin=truth['origin'], pbc=pbc,
                            natoms=natoms, atype=truth['atype'], posclass=posclass, props=sorted(props)))
        # what the file carries
        items = {}
        for name, knd, shape, q in ST.atoms_columns(style) + (ST.velocity_columns(style) if withvel else []):
            items[name] = (props[name], knd, F(q))
        e = CMP.expect_data(truth, fmt, Flen, items)
        dkw = dict(atom_style=style, units=units, float_format=fmt)
        text = None
        with ctx.guard('atom_data dump to a string', 'atom_data:dump:exception'):
            out = build(env, truth, props).dump('atom_data', safecopy=bool(i % 2), return_info=bool(i % 3 == 0), **dkw)
            text = out[0] if isinstance(out, tuple) else out
        if not isinstance(text, str):
            continue
        if '\nVelocities' in text:
            rec.count('class:atom_data:velocities-section')
        sec = TX.data_section(text.split('\n'), 'Atoms')
        ncol = len(text.split('\n')[sec[1]].split())
        flags_written = ncol == 5 + sum(int(np.prod(s or (1,))) for _, _, s, _ in ST.atoms_columns(style)) + 3
        if flags_written:
            rec.count('class:atom_data:image-flags-written')
        path = write_path(env, f'data_{i}.dat', text,
                          lambda p: build(env, truth, props).dump('atom_data', f=p, return_info=False, safecopy=True, **dkw))
        lkw = dict(pbc=truth['pbc'], units=units)
        if explicit_style:
            lkw['atom_style'] = style
        three_ways(env, 'atom_data', text, path, e, lkw, stream_kind=i)
        # order of atom lines / comments and blank lines
        sh = TX.data_shuffle(text, rng)
        # (a file that carries image flags gets its own mechanism key: flags and atoms are matched by id)
        fk = 'atom_data:shuffled:image-flags' if flags_written else None
        rec.count('class:atom_data:shuffled:' + ('image-flags' if flags_written else 'no-image-flags'))
        load_and_compare(env, 'atom_data', 'string', 'shuffled', sh, e, lkw, keyprefix=fk)
        drop = (i % 4 == 1)
        dec = TX.data_decorate(text, rng, drop_style_comment=drop)
        lkw2 = dict(lkw)
        if drop:
            lkw2['atom_style'] = style
        load_and_compare(env, 'atom_data', 'string', 'decorated', dec, e, lkw2)
        both = TX.data_decorate(sh, rng, drop_style_comment=drop)
        bp = os.path.join(env.tmp, f'data_{i}_dec.dat')
        with open(bp, 'w') as f:
            f.write(both)
        load_and_compare(env, 'atom_data', 'path' if i % 2 else 'stream', 'shuffled+decorated',
                         bp if i % 2 else io.BytesIO(both.encode()), e, lkw2, keyprefix=fk)
        # a required part is missing -> the format error, never a system
        for what in ('atoms', ('xbox', 'ybox', 'zbox')[i % 3], 'Atoms'):
            bad = TX.data_truncate(dec if i % 2 else text, what)
            src = bad if (i // 3) % 3 == 0 else io.BytesIO(bad.encode())
            if (i // 3) % 3 == 2:
                tp = os.path.join(env.tmp, f'data_{i}_trunc.dat')
                with open(tp, 'w') as f:
                    f.write(bad)
                src = tp
            kw = dict(lkw2 if i % 2 else lkw)
            try:
                got = am.load('atom_data', src, **kw)
            except FileFormatError:
                rec.count(f'reject:{what if what == "atoms" or what == "Atoms" else "box"}')
                rec.count('clause:truncated data file raises FileFormatError')
            except Exception as ex:
                rec.count('clause:truncated data file raises FileFormatError')
                rec.fail('truncated data file raises FileFormatError', f'atom_data:truncated:{what}:wrong-exception', exception=ex)
            else:
                rec.count('clause:truncated data file raises FileFormatError')
                rec.fail('truncated data file raises FileFormatError', f'atom_data:truncated:{what}:loaded',
                         natoms=getattr(got, 'natoms', None))
        for p in (path, bp):
            try:
                os.remove(p)
            except OSError:
                pass


def gen_style_props(env, rng, truth, style, units, withvel):
    n = len(truth['atype'])
    props = {}
    cols = ST.atoms_columns(style) + (ST.velocity_columns(style) if withvel else [])
    for name, knd, shape, q in cols:
        F = unit_factor(env, units, q) if (q is None or units == 'lj' or style_available(env, units, [q]) or U.has(units, q)) else 1.0
        F = F or 1.0
        if knd == 'i':
            props[name] = rng.integers(0, 6, (n,) + shape).astype(np.int64) if name.endswith('flag') else rng.integers(1, 30, (n,) + shape).astype(np.int64)
        else:
            x = GS.gen_prop(rng, n, 'f', shape, F)
            if name in ('mass', 'density', 'diameter', 'eradius', 'volume', 'kradius', 'cradius', 'rho', 'cv'):
                x = GS.positive(x, F)
            props[name] = x
    return props


# ------------------------------------------------------------------------------------------------ atom_dump
DUMP_VARIANTS = ['default', 'posvariant', 'carried-id', 'scaled-retinfo', 'standard', 'everything']
POSVARIANTS = [['pos'], ['spos'], ['upos'], ['supos'], ['pos', 'spos'], ['upos', 'supos']]
STANDARD = [('velocity', 'f', (3,), 'velocity'), ('force', 'f', (3,), 'force'), ('charge', 'f', (), 'charge'),
            ('mass', 'f', (), 'mass'), ('mu', 'f', (3,), 'dipole'), ('diameter', 'f', (), 'length'), ('m_id', 'i', (), None),
            ('ang_velocity', 'f', (3,), 'ang-vel'), ('ang_momentum', 'f', (3,), 'ang-mom')]


def group_dump(env):
    ctx, rec, am = env.ctx, env.rec, env.am
    nv, nun = len(DUMP_VARIANTS), len(UNITS)
    n = ctx.pick(nv * nun * 3, nv * nun * 24)
    for i in ctx.cases('atom_dump', n):
        rng = ctx.rng
        variant = DUMP_VARIANTS[i % nv]
        units = UNITS[(i // nv) % nun]
        rnd = i // (nv * nun)
        kind, origin, pbc, posclass, typeclass, symclass = common_axes(i + rnd, GS.LAMMPS_KINDS)
        fmt = GS.pick(i, 1, FMT_LAMMPS, rnd + i // nv)
        natoms = natoms_for(ctx, rng, i + 3)
        F = lambda q: unit_factor(env, units, q)          # noqa: E731
        Flen = F('length')
        truth = GS.gen_truth(rng, kind, origin, pbc, posclass, typeclass, symclass, natoms, Flen)
        props, items = {}, {}
        dkw = dict(lammps_units=units, float_format=fmt)
        scaled = False
        order = None
        if variant in ('default', 'everything', 'carried-id'):
            extra = EXTRA_DUMP if variant != 'carried-id' else EXTRA_DUMP[1:3]
            if variant == 'everything' or i % 2:
                props['velocity'] = GS.gen_prop(rng, natoms, 'f', (3,), F('velocity'))
                items['velocity'] = (props['velocity'], 'f', F('velocity'))
            for name, knd, shape in extra:
                props[name] = GS.gen_prop(rng, natoms, knd, shape)
                items[name] = (props[name], knd, 1.0)
            if variant == 'everything':
                for name, knd, shape, q in STANDARD[1:]:
                    if U.has(units, q) or q is None:
                        props[name] = GS.gen_prop(rng, natoms, knd, shape, F(q))
                        items[name] = (props[name], knd, F(q))
            if variant == 'carried-id':
                ids = (rng.permutation(natoms) * 3 + 5).astype(np.int64)
                props['atom_id'] = ids
                order = np.argsort(ids)
        elif variant == 'posvariant' or variant == 'scaled-retinfo':
            pv = POSVARIANTS[rnd % len(POSVARIANTS)] if variant == 'posvariant' else [['spos'], ['supos'], ['spos', 'upos']][rnd % 3]
            scaled = any(p in ('spos', 'supos') for p in pv)
            props['velocity'] = GS.gen_prop(rng, natoms, 'f', (3,), F('velocity'))
            props['disp'] = GS.gen_prop(rng, natoms, 'f', (3,))
            items['velocity'] = (props['velocity'], 'f', F('velocity'))
            items['disp'] = (props['disp'], 'f', 1.0)
            dkw['prop_name'] = ['atom_id', 'atype'] + pv + ['velocity', 'disp']
        elif variant == 'standard':
            for name, knd, shape, q in STANDARD:
                if U.has(units, q) or q is None:
                    props[name] = GS.gen_prop(rng, natoms, knd, shape, F(q))
                    items[name] = (props[name], knd, F(q))
        sig = ('atom_dump', variant, units, fmt)
        rec.case(sig + (kind, origin, posclass, typeclass), nontrivial=nontrivial(truth, units),
                 fp=fingerprint(truth['vects'], truth['origin'], truth['pos'], truth['atype'], sig))
        count_truth(rec, 'atom_dump', truth)
        rec.count(f'class:atom_dump:variant:{variant}')
        rec.count(f'class:atom_dump:units:{units}')
        rec.count(f'class:atom_dump:pbc:{"".join("1" if p else "0" for p in pbc)}')
        if i < 2 * nv:
            rec.sample(dict(variant=variant, units=units, float_format=fmt, cell=kind, pbc=pbc, natoms=natoms,
                            props=sorted(props), prop_name=dkw.get('prop_name')))
        text = pinfo = None
        with ctx.guard('atom_dump dump to a string', 'atom_dump:dump:exception'):
            text, pinfo = build(env, truth, props).dump('atom_dump', return_prop_info=True, **dkw)
        if not isinstance(text, str):
            continue
        path = write_path(env, f'dump_{i}.dump', text, lambda p: build(env, truth, props).dump('atom_dump', f=p, **dkw))
        lkw = dict(lammps_units=units)
        # (1) the file alone: standard LAMMPS column names are recognised, other columns come back one by one
        auto_items = {}
        for name, (arr, knd, Fq) in items.items():
            if arr.ndim == 1 or name in [s[0] for s in STANDARD]:
                auto_items[name] = (arr, knd, Fq)
            else:
                for idx in np.ndindex(*arr.shape[1:]):
                    auto_items[name + ''.join(f'[{j}]' for j in idx)] = (arr[(slice(None),) + idx], knd, Fq)
        ids = props.get('atom_id', np.arange(1, natoms + 1))
        auto_items['atom_id'] = (ids, 'i', 1.0)
        e_auto = CMP.expect_dump(truth, fmt, Flen, auto_items, scaled_pos=scaled, order=order)
        three_ways(env, 'atom_dump', text, path, e_auto, lkw, stream_kind=i)
        sh = TX.dump_shuffle(text, rng)
        load_and_compare(env, 'atom_dump', 'string', 'shuffled', sh, e_auto, lkw)
        # (2) with the writer's returned column table: shapes restored
        full_items = dict(items)
        full_items['atom_id'] = (ids, 'i', 1.0)
        e_full = CMP.expect_dump(truth, fmt, Flen, full_items, scaled_pos=scaled, order=order)
        if scaled:
            # the table the caller asked for (with 'scaled') restores the system ...
            mine = []
            for p in pinfo:
                q = dict(p)
                if q['prop_name'] in ('spos', 'supos'):
                    q['unit'] = 'scaled'
                mine.append(q)
            load_and_compare(env, 'atom_dump', 'string', 'own-prop_info-scaled', sh if i % 2 else text, e_full, dict(lkw, prop_info=mine))
            # ... and so must the one the writer returned "for 1:1 load/dump conversions"
            rec.count('atom_dump:returned-prop_info:scaled:evaluated')
            load_and_compare(env, 'atom_dump', 'string', 'returned-prop_info-scaled', text, e_full, dict(lkw, prop_info=pinfo),
                             keyprefix='atom_dump:returned-prop_info:scaled')
        else:
            load_and_compare(env, 'atom_dump', 'string' if i % 2 else 'path', 'returned-prop_info', sh if i % 2 else path,
                             e_full, dict(lkw, prop_info=pinfo))
        try:
            os.remove(path)
        except OSError:
            pass


# ------------------------------------------------------------------------------------------------ table
TABLE_VARIANTS = ['all-default', 'unit-lists', 'id-column', 'scaled', 'header', 'names']


def group_table(env):
    ctx, rec, am, uc = env.ctx, env.rec, env.am, env.uc
    nv = len(TABLE_VARIANTS)
    n = ctx.pick(nv * 16, nv * 160)
    for i in ctx.cases('table', n):
        rng = ctx.rng
        variant = TABLE_VARIANTS[i % nv]
        rnd = i // nv
        kind, origin, pbc, posclass, typeclass, symclass = common_axes(i + rnd, GS.LAMMPS_KINDS + ['rotated'])
        fmt = GS.pick(i, 1, FMT_LAMMPS, rnd)
        natoms = natoms_for(ctx, rng, i + 5)
        lunit, _ = TABLE_UNITS[rnd % len(TABLE_UNITS)]
        vunit = TABLE_VUNITS[(rnd // 2) % len(TABLE_VUNITS)]
        use_units = variant in ('unit-lists', 'id-column', 'names')
        Flen = float(uc.set_in_units(1.0, lunit)) if use_units else 1.0
        Fv = float(uc.set_in_units(1.0, vunit)) if use_units else 1.0
        truth = GS.gen_truth(rng, kind, origin, pbc, posclass, typeclass, symclass, natoms, Flen)
        props = {'velocity': GS.gen_prop(rng, natoms, 'f', (3,), Fv), 'stress': GS.gen_prop(rng, natoms, 'f', (3, 3)),
                 'cna': GS.gen_prop(rng, natoms, 'i', ()), 'flag': GS.gen_prop(rng, natoms, 'b', ())}
        items = {'velocity': (props['velocity'], 'f', Fv), 'stress': (props['stress'], 'f', 1.0),
                 'cna': (props['cna'], 'i', 1.0), 'flag': (props['flag'], 'b', 1.0)}
        dkw = dict(float_format=fmt)
        scaled = variant == 'scaled'
        has_id = False
        header_lines = 0
        lkw_extra = {}
        if variant == 'all-default':
            pass
        elif variant == 'unit-lists':
            dkw.update(prop_name=['atype', 'pos', 'velocity', 'stress', 'cna', 'flag'], unit=[None, lunit, vunit, None, None, None])
        elif variant == 'id-column':
            dkw.update(prop_info=[dict(prop_name='a_id', table_name='id'), dict(prop_name='atype', table_name='type'),
                                  dict(prop_name='pos', table_name=['x', 'y', 'z'], unit=lunit),
                                  dict(prop_name='velocity', shape=(3,), unit=vunit), dict(prop_name='stress', shape=(3, 3)),
                                  dict(prop_name='cna'), dict(prop_name='flag', dtype=None)])
            has_id = True
        elif variant == 'scaled':
            if rnd % 2:
                dkw.update(prop_name=['atype', 'pos', 'velocity', 'stress', 'cna', 'flag'], unit=[None, 'scaled', None, None, None, None])
            else:
                dkw.update(prop_info=[dict(prop_name='a_id', table_name='id'), dict(prop_name='atype'),
                                      dict(prop_name='pos', shape=(3,), unit='scaled'), dict(prop_name='velocity', shape=(3,)),
                                      dict(prop_name='stress', shape=(3, 3)), dict(prop_name='cna'), dict(prop_name='flag')])
                has_id = True
        elif variant == 'header':
            dkw.update(header=True)
            header_lines = 1
            lkw_extra = dict(header=0)
        elif variant == 'names':
            dkw.update(prop_name=['atype', 'pos', 'velocity', 'stress', 'cna', 'flag'],
                       table_name=['t', ['px', 'py', 'pz'], ['v1', 'v2', 'v3'], ['s%d' % k for k in range(9)], 'c', 'f'],
                       shape=[(), (3,), (3,), (3, 3), (), ()],
                       unit=[None, lunit, vunit, None, None, None])
        sig = ('table', variant, fmt, lunit if use_units else '-')
        rec.case(sig + (kind, origin, posclass, typeclass), nontrivial=nontrivial(truth, 'si' if use_units and lunit != 'angstrom' else 'metal'),
                 fp=fingerprint(truth['vects'], truth['origin'], truth['pos'], truth['atype'], sig))
        count_truth(rec, 'table', truth)
        rec.count(f'class:table:variant:{variant}')
        if use_units:
            rec.count(f'class:table:unit:{lunit}')
        if i < 2 * nv:
            rec.sample(dict(variant=variant, float_format=fmt, cell=kind, natoms=natoms, dump_kwargs={k: v for k, v in dkw.items()}))
        text = pinfo = None
        with ctx.guard('table dump to a string', 'table:dump:exception'):
            text, pinfo = build(env, truth, props).dump('table', return_prop_info=True, **dkw)
        if not isinstance(text, str):
            continue
        path = write_path(env, f'table_{i}.txt', text, lambda p: build(env, truth, props).dump('table', f=p, **dkw))
        v = truth['vects']
        mkbox = lambda: am.Box(avect=v[0].copy(), bvect=v[1].copy(), cvect=v[2].copy(), origin=truth['origin'].copy())   # noqa: E731
        e = CMP.expect_table(truth, fmt, items, pos_F=Flen, scaled_pos=scaled)
        if scaled:
            # the conversion table the caller asked for restores the system ...
            if 'prop_info' in dkw:
                mine = dkw['prop_info']
            else:
                mine = [dict(p) for p in pinfo]
                for p in mine:
                    if p['prop_name'] == 'pos':
                        p['unit'] = 'scaled'
            three_ways_table(env, text, path, e, mkbox, dict(prop_info=mine, **lkw_extra), 'own-prop_info-scaled', i)
            rec.count('table:returned-prop_info:scaled:evaluated')
            load_and_compare(env, 'table', 'string', 'returned-prop_info-scaled', text, e, dict(box=mkbox(), prop_info=pinfo),
                             keyprefix='table:returned-prop_info:scaled')
            lk = dict(prop_info=mine)
        else:
            three_ways_table(env, text, path, e, mkbox, dict(prop_info=pinfo, **lkw_extra), 'returned-prop_info', i)
            lk = dict(prop_info=pinfo, **lkw_extra)
        if has_id:
            sh = TX.table_shuffle(text, rng, header_lines)
            load_and_compare(env, 'table', 'string', 'shuffled', sh, e, dict(box=mkbox(), **lk))
            dec = TX.table_decorate(sh, rng, header_lines)
            load_and_compare(env, 'table', 'string', 'shuffled+decorated', dec, e, dict(box=mkbox(), comment='#', **lk))
        else:
            dec = TX.table_decorate(text, rng, header_lines)
            load_and_compare(env, 'table', 'string', 'decorated', dec, e, dict(box=mkbox(), comment='#', **lk))
        try:
            os.remove(path)
        except OSError:
            pass


def three_ways_table(env, text, path, e, mkbox, lkw, variant, i):
    load_and_compare(env, 'table', 'string', variant, text, e, dict(box=mkbox(), **lkw))
    load_and_compare(env, 'table', 'path', variant, path, e, dict(box=mkbox(), **lkw))
    if i % 2:
        with open(path, 'rb') as f:
            load_and_compare(env, 'table', 'stream', variant, f, e, dict(box=mkbox(), **lkw))
    else:
        load_and_compare(env, 'table', 'stream', variant, io.BytesIO(text.encode()), e, dict(box=mkbox(), **lkw))
    rec = env.rec
    try:
        s = env.am.load('table', io.StringIO(text), box=mkbox(), **lkw)
    except ValueError:
        rec.refusal('table: text-mode stream refused (ValueError)')
        rec.count('textstream-refused:table')
    except Exception as ex:
        rec.fail('table: a text-mode stream is refused with ValueError', 'table:textstream:exception', exception=ex)
    else:
        CMP.compare(rec, f'table:textstream:{variant}', observe(s), e, 'table')


# ------------------------------------------------------------------------------------------------ POSCAR
COORDSTYLES = ['direct', 'cartesian', 'Direct', 'Cartesian', 'd', 'c', 'kartesian', 'K']
SCALES = [1.0, 2.5, 0.37]
SYMMODES = ['system', 'param', 'none']


def group_poscar(env):
    ctx, rec, am = env.ctx, env.rec, env.am
    n = ctx.pick(len(COORDSTYLES) * len(SCALES) * 6, len(COORDSTYLES) * len(SCALES) * 72)
    for i in ctx.cases('poscar', n):
        rng = ctx.rng
        cs = COORDSTYLES[i % len(COORDSTYLES)]
        scale = SCALES[(i // len(COORDSTYLES)) % len(SCALES)]
        rnd = i // (len(COORDSTYLES) * len(SCALES))
        symmode = SYMMODES[(i + rnd) % 3]
        kind = GS.pick(i + rnd, 1, GS.POSCAR_KINDS)
        origin = GS.pick(i, 5, cells.ORIGINS, 1 + rnd)
        posclass = GS.pick(i + rnd, 1, GS.POSCLASSES, 1)
        typeclass = GS.pick(i + rnd // 3, 3, GS.TYPECLASSES, 2)
        symclass = {'system': 'all', 'param': GS.pick(i, 1, ['none', 'partial', 'all']), 'none': GS.pick(i, 1, ['none', 'partial'])}[symmode]
        fmt = GS.pick(i, 1, FMT_POSCAR, rnd)
        natoms = natoms_for(ctx, rng, i + 7)
        truth = GS.gen_truth(rng, kind, origin, (True, True, True), posclass, typeclass, symclass, natoms, 1.0)
        if (i + rnd) % 4 == 3:
            # declared atom types beyond the highest one in use (the species list is longer than the types present)
            k = 1 + i % 2
            base = list(truth['symbols']) if truth['symbols'] is not None else [None] * truth['natypes']
            pool = [x for x in GS.ELEMENTS if x not in base]
            extra = pool[:k] if (symmode == 'system' or i % 3 == 0) else [None] * k
            truth['symbols'] = base + extra
            truth['natypes'] = len(truth['symbols'])
            rec.count('class:poscar:trailing-unused-types')
            if None in truth['symbols'] and symmode != 'param':
                rec.count('class:poscar:trailing-unused-types:no-symbols-line')
        cart = cs[0] in 'CcKk'
        dkw = dict(coordstyle=cs, box_scale=scale, float_format=fmt)
        if i % 5 == 0:
            dkw['header'] = 'a comment 1 2 3'
        written = None
        if symmode == 'param':
            written = [str(x) for x in rng.permutation(GS.ELEMENTS)[:truth['natypes']]]
            dkw['symbols'] = written
        elif truth['symbols'] is not None and None not in truth['symbols']:
            written = list(truth['symbols'])          # the writer stores the system's symbols when every type has one
        sig = ('poscar', cs, scale, symmode, fmt)
        rec.case(sig + (kind, origin, posclass, typeclass), nontrivial=nontrivial(truth) or scale != 1.0,
                 fp=fingerprint(truth['vects'], truth['origin'], truth['pos'], truth['atype'], sig))
        count_truth(rec, 'poscar', truth)
        rec.count(f'class:poscar:{"cartesian" if cart else "direct"}')
        rec.count(f'class:poscar:scale:{scale}')
        rec.count(f'class:poscar:symbols-{"written" if written else "not-written"}')
        if cart and scale != 1.0:
            rec.count('class:poscar:cartesian-scaled')
        if i < 12:
            rec.sample(dict(coordstyle=cs, box_scale=scale, symbols=written, float_format=fmt, cell=kind, origin=truth['origin'],
                            atype=truth['atype'], posclass=posclass))
        e = CMP.expect_poscar(truth, fmt, scale, cart, written)
        text = None
        with ctx.guard('poscar dump to a string', 'poscar:dump:exception'):
            text = build(env, truth, {}).dump('poscar', **dkw)
        if not isinstance(text, str):
            continue
        path = write_path(env, f'POSCAR_{i}', text, lambda p: build(env, truth, {}).dump('poscar', f=p, **dkw))
        three_ways(env, 'poscar', text, path, e, {}, stream_kind=i)
        dec = TX.poscar_decorate(text, rng)
        load_and_compare(env, 'poscar', 'string' if i % 2 else 'stream', 'decorated', dec if i % 2 else io.BytesIO(dec.encode()), e, {})
        # a POSCAR of the same system written by the harness under the VASP rules (scale applies to lattice AND Cartesian)
        order = CMP.poscar_order(truth['atype'])
        counts = [int((truth['atype'] == k).sum()) for k in range(1, truth['natypes'] + 1)]
        coords = (truth['pos'] if cart else truth['rel'])[order]
        own = TX.poscar_write(truth['vects'], [coords], counts, written, cs, scale, fmt='%.16e')
        e2 = CMP.expect_poscar(truth, '%.16e', scale, cart, written)
        load_and_compare(env, 'poscar', 'string', 'independent-writer', own, e2, {}, keyprefix='poscar:independent-writer')
        try:
            os.remove(path)
        except OSError:
            pass


# ------------------------------------------------------------------------------------------------ POSCAR scale-factor classes
# group_poscar hands the writer typed-in factors only (1.0, 2.5, 0.37): numbers that any number format prints exactly.
# Here box_scale runs over the classes of GS.SCALECLASSES (computed factors with a full mantissa, factors decades away
# from one, other number types) x coordinate keyword x float format; the reader is also given harness-written files
# whose scale line is spelled in the ways list-directed input allows.
def group_pscale(env):
    ctx, rec, am = env.ctx, env.rec, env.am
    ncl, ncs = len(GS.SCALECLASSES), len(COORDSTYLES)
    n = ctx.pick(ncl * ncs, ncl * ncs * 10)
    for i in ctx.cases('pscale', n):
        rng = ctx.rng
        cls = GS.SCALECLASSES[i % ncl]
        rnd = i // ncl
        cs = COORDSTYLES[rnd % ncs]
        blk = i // (ncl * ncs)
        fmt = FMT_POSCAR[(i + rnd) % len(FMT_POSCAR)]
        kind = GS.pick(i + rnd + blk, 1, GS.POSCAR_KINDS)
        origin = cells.ORIGINS[(i // 2 + rnd + blk) % 3]
        posclass = GS.POSCLASSES[(i + rnd // 2 + blk) % 4]
        typeclass = GS.TYPECLASSES[(i // 3 + rnd + blk) % 4]
        symclass = ('all', 'none', 'partial')[(i + rnd + blk) % 3]
        natoms = natoms_for(ctx, rng, i + 4 + blk)
        truth = GS.gen_truth(rng, kind, origin, (True, True, True), posclass, typeclass, symclass, natoms, 1.0)
        sobj, scale = GS.gen_box_scale(rng, cls, rnd + blk, truth['vects'])
        cart = cs[0] in 'CcKk'
        mode = 'cartesian' if cart else 'direct'
        written = list(truth['symbols']) if truth['symbols'] is not None and None not in truth['symbols'] else None
        nd = GS.significant_digits_needed(scale)
        sig = ('pscale', cls, cs, fmt)
        rec.case(sig + (kind, origin, posclass, typeclass), nontrivial=True,
                 fp=fingerprint(truth['vects'], truth['origin'], truth['pos'], truth['atype'], scale, sig))
        count_truth(rec, 'pscale', truth)
        rec.count(f'class:pscale:{cls}')
        rec.count(f'class:pscale:{cls}:{mode}')
        rec.count(f'class:pscale:fmt:{fmt}')
        if nd > 7:
            rec.count('class:pscale:scale-needs-more-than-7-digits')
            rec.count(f'class:pscale:scale-needs-more-than-7-digits:{mode}')
        if nd >= 15:
            rec.count('class:pscale:scale-needs-15-or-more-digits')
        if i < 2 * ncl:
            rec.sample(dict(group='pscale', scale_class=cls, box_scale=repr(sobj), type=type(sobj).__name__, digits_needed=nd,
                            coordstyle=cs, float_format=fmt, cell=kind, natoms=natoms))
        dkw = dict(coordstyle=cs, box_scale=sobj, float_format=fmt)
        e = CMP.expect_poscar(truth, fmt, scale, cart, written)
        text = None
        with ctx.guard('poscar dump to a string', 'poscar:dump:exception'):
            if i % 2:
                text = am.dump('poscar', build(env, truth, {}), **dkw)          # the module-level entry point
            else:
                text = build(env, truth, {}).dump('poscar', **dkw)
        if not isinstance(text, str):
            continue
        kp = f'poscar:box_scale-{cls}'
        load_and_compare(env, 'poscar', 'string', 'scale-classes', text, e, {}, keyprefix=kp)
        if rnd % 2:
            path = os.path.join(env.tmp, f'POSCAR_s{i}')
            with open(path, 'w', encoding='UTF-8') as f:
                f.write(text)
            load_and_compare(env, 'poscar', 'path', 'scale-classes', path, e, {}, keyprefix=kp)
            os.remove(path)
        else:
            load_and_compare(env, 'poscar', 'stream', 'scale-classes', io.BytesIO(text.encode()), e, {}, keyprefix=kp)
        # the reader alone: a file of the same system written by the harness, scale line spelled in another way
        form = TX.SCALE_TEXT_FORMS[(i + rnd + blk) % len(TX.SCALE_TEXT_FORMS)]
        order = CMP.poscar_order(truth['atype'])
        counts = [int((truth['atype'] == k).sum()) for k in range(1, truth['natypes'] + 1)]
        coords = (truth['pos'] if cart else truth['rel'])[order]
        own = TX.poscar_write(truth['vects'], [coords], counts, written, cs, scale, fmt='%.16e',
                              scale_line=TX.scale_text(scale, form))
        e2 = CMP.expect_poscar(truth, '%.16e', scale, cart, written)
        rec.count(f'class:pscale:scale-line:{form}')
        load_and_compare(env, 'poscar', 'string', 'scale-line-forms', own, e2, {}, keyprefix=f'poscar:scale-line-{form}')


# ------------------------------------------------------------------------------------------------ physical length scale
# Every other group gives the system a size of O(1..10) *file units* (so that fixed-point formats keep their digits): a cell
# written in si units is then metres wide.  Here the cell is 3..30 angstrom whatever the unit style, i.e. 1e-10..1e-9 in a
# si file, 1e-8..1e-7 in cgs, 1e-4..1e-3 in micro ...; exponent formats only, whose precision is relative at any scale.
SCALE_FMT = ['%.13e', '%.16e', '%.10e', '%.8e']
SCALE_STYLES = ['atomic', 'charge', 'full', 'dipole', 'sphere', 'hybrid charge molecular', 'electron']
MASKNAMES = {(1, 1, 1): 'xy+xz+yz', (0, 0, 1): 'yz', (1, 0, 0): 'xy', (0, 1, 0): 'xz', (1, 1, 0): 'xy+xz', (1, 0, 1): 'xy+yz',
             (0, 1, 1): 'xz+yz'}


def auto_split(items):
    """What a dump file gives back without a conversion table: standard LAMMPS names are recognised, any other
    multi-column property comes back as one scalar property per column, named as in the file."""
    out = {}
    for name, (arr, knd, Fq) in items.items():
        if arr.ndim == 1 or name in [s[0] for s in STANDARD]:
            out[name] = (arr, knd, Fq)
        else:
            for idx in np.ndindex(*arr.shape[1:]):
                out[name + ''.join(f'[{j}]' for j in idx)] = (arr[(slice(None),) + idx], knd, Fq)
    return out


def group_scale(env):
    ctx, rec, am = env.ctx, env.rec, env.am
    ntc, nun = len(GS.TILTCLASSES), len(UNITS)
    block = ntc * nun
    n = ctx.pick(block * 3, block * 21)
    for i in ctx.cases('scale', n):
        rng = ctx.rng
        units = UNITS[i % nun]
        tiltclass = GS.TILTCLASSES[(i // nun) % ntc]
        rnd = i // block
        mask = GS.TILTMASKS[(i + rnd) % len(GS.TILTMASKS)]         # 7 masks against 8 unit styles: every mask in every tilt class
        origin = ('zero', 'near')[(i // 2 + rnd) % 2]
        pbc = cells.PBCS[7] if (i + i // nun) % 3 else cells.PBCS[(i // 3 + rnd) % 8]
        posclass = ('inside', 'mixed', 'far')[(i + i // nun + rnd) % 3]
        typeclass = GS.TYPECLASSES[(i // 4 + rnd) % 4]
        fmt = SCALE_FMT[(i + i // nun + rnd) % (2 if tiltclass == 'tilt-tiny' else 4)]
        style = SCALE_STYLES[(i + i // nun + 2 * rnd) % len(SCALE_STYLES)]
        withvel = (i // nun + rnd) % 2 == 0
        magclass = ('physical', 'file')[(i // (2 * nun) + rnd) % 2]  # per-atom values O(1) working units / O(1) file units
        natoms = natoms_for(ctx, rng, i + 2)
        if not style_available(env, units, ST.quantities(style, withvel)):
            rec.count('scale:style-without-unit-entry->atomic')
            style = 'atomic'
        F = lambda q: unit_factor(env, units, q)          # noqa: E731
        Flen = F('length')
        cell = GS.gen_tilt_cell(rng, tiltclass, mask, origin)
        truth = GS.gen_truth(rng, None, origin, pbc, posclass, typeclass, 'none', natoms, cell=cell)
        mname = MASKNAMES[mask] if tiltclass != 'orthogonal' else 'none'
        sig = ('scale', units, tiltclass, mname, fmt, style, magclass)
        rec.case(sig + (origin, posclass, typeclass), nontrivial=True,
                 fp=fingerprint(truth['vects'], truth['origin'], truth['pos'], truth['atype'], sig))
        count_truth(rec, 'scale', truth)
        rec.count(f'class:scale:{units}:{tiltclass}')
        rec.count(f'class:scale:tilts:{mname}')
        rec.count(f'class:scale:values:{magclass}')
        rec.count(f'class:scale:pbc:{"".join("1" if p else "0" for p in pbc)}')
        if i < block and i % 5 == 0:
            rec.sample(dict(group='scale', units=units, tiltclass=tiltclass, tilts_angstrom=cell['tilts'], cell=truth['vects'],
                            one_file_length_unit_in_angstrom=Flen, float_format=fmt, atom_style=style, pbc=pbc, natoms=natoms))
        # ---- data file
        props = gen_style_props(env, rng, truth, style, units if magclass == 'file' else 'lj', withvel)
        items = {}
        for name, knd, shape, q in ST.atoms_columns(style) + (ST.velocity_columns(style) if withvel else []):
            items[name] = (props[name], knd, F(q))
        e = CMP.expect_data(truth, fmt, Flen, items)
        dkw = dict(atom_style=style, units=units, float_format=fmt)
        text = None
        with ctx.guard('atom_data dump to a string', 'atom_data:dump:exception'):
            text = build(env, truth, props).dump('atom_data', safecopy=bool(i % 2), return_info=False, **dkw)
        if isinstance(text, str):
            lkw = dict(pbc=truth['pbc'], units=units)
            if (i // 2) % 2 == 0:
                lkw['atom_style'] = style
            load_and_compare(env, 'atom_data', 'string', 'physical-scale', text, e, lkw)
            if i % 2:
                path = os.path.join(env.tmp, f'scale_{i}.dat')
                with open(path, 'w', encoding='UTF-8') as f:
                    f.write(text)
                load_and_compare(env, 'atom_data', 'path', 'physical-scale', path, e, lkw)
                os.remove(path)
            else:
                load_and_compare(env, 'atom_data', 'stream', 'physical-scale', io.BytesIO(text.encode()), e, lkw)
            sh = TX.data_decorate(TX.data_shuffle(text, rng), rng, drop_style_comment=False)
            load_and_compare(env, 'atom_data', 'string', 'physical-scale:shuffled+decorated', sh, e, lkw)
            rec.count(f'loads:scale:atom_data:{units}:{tiltclass}')
        # ---- dump file of the same system
        Fv = F('velocity')
        dprops = {'velocity': GS.gen_prop(rng, natoms, 'f', (3,), Fv if magclass == 'file' else 1.0),
                  'disp': GS.gen_prop(rng, natoms, 'f', (3,)), 'cna': GS.gen_prop(rng, natoms, 'i', ())}
        ditems = {'velocity': (dprops['velocity'], 'f', Fv), 'disp': (dprops['disp'], 'f', 1.0), 'cna': (dprops['cna'], 'i', 1.0)}
        ditems['atom_id'] = (np.arange(1, natoms + 1), 'i', 1.0)
        dkw = dict(lammps_units=units, float_format=fmt)
        text = pinfo = None
        with ctx.guard('atom_dump dump to a string', 'atom_dump:dump:exception'):
            text, pinfo = build(env, truth, dprops).dump('atom_dump', return_prop_info=True, **dkw)
        if isinstance(text, str):
            lkw = dict(lammps_units=units)
            e_auto = CMP.expect_dump(truth, fmt, Flen, auto_split(ditems))
            e_full = CMP.expect_dump(truth, fmt, Flen, ditems)
            load_and_compare(env, 'atom_dump', 'string', 'physical-scale', text, e_auto, lkw)
            sh = TX.dump_shuffle(text, rng)
            load_and_compare(env, 'atom_dump', 'stream' if i % 2 else 'string', 'physical-scale:returned-prop_info',
                             io.BytesIO(sh.encode()) if i % 2 else sh, e_full, dict(lkw, prop_info=pinfo))
            rec.count(f'loads:scale:atom_dump:{units}:{tiltclass}')


# ------------------------------------------------------------------------------------------------ per-atom property shapes
SHAPE_VARIANTS = ['all-default', 'names', 'shape-lists', 'prop_info']
BOOL_SHAPES = [(1,), (), (1, 1), (3,)]


def lists_from(pinfo):
    """The returned conversion table spelled as the loader's parallel-list parameters (same information)."""
    return dict(prop_name=[p['prop_name'] for p in pinfo], table_name=[list(p['table_name']) for p in pinfo],
                shape=[tuple(p['shape']) for p in pinfo], unit=[p['unit'] for p in pinfo], dtype=[p['dtype'] for p in pinfo])


def group_shapes(env):
    """Every per-atom shape in GS.SHAPES, as float and as integer property (plus one bool), through table and atom_dump
    with the conversion table the writer returned; cells of physical size, positions in the unit of the file."""
    ctx, rec, am, uc = env.ctx, env.rec, env.am, env.uc
    nv = len(SHAPE_VARIANTS)
    n = ctx.pick(nv * 12, nv * 120)
    for i in ctx.cases('shapes', n):
        rng = ctx.rng
        variant = SHAPE_VARIANTS[i % nv]
        rnd = i // nv
        units = UNITS[(i + rnd) % len(UNITS)]
        lunit = TABLE_UNITS[(i // 2 + rnd) % len(TABLE_UNITS)][0]
        natoms = (1, 2, 3, None)[(i + rnd) % 4]
        if natoms is None:
            natoms = int(rng.integers(4, 10))
        tiltclass = GS.TILTCLASSES[(i // 2 + rnd) % len(GS.TILTCLASSES)]
        mask = GS.TILTMASKS[i % len(GS.TILTMASKS)]
        origin = ('zero', 'near')[(i + rnd // 2) % 2]
        posclass = ('inside', 'mixed')[(i // 2) % 2]
        typeclass = GS.TYPECLASSES[(i + rnd) % 4]
        fmt = SCALE_FMT[(i + rnd) % 3]
        pbc = cells.PBCS[7] if i % 3 else cells.PBCS[(i // 3) % 8]
        cell = GS.gen_tilt_cell(rng, tiltclass, mask, origin)
        truth = GS.gen_truth(rng, None, origin, pbc, posclass, typeclass, 'none', natoms, cell=cell)
        # the properties, in an order that differs from case to case
        spec = [(GS.shape_name(k, sh), k, sh) for sh in GS.SHAPES for k in ('f', 'i')]
        bshape = BOOL_SHAPES[rnd % len(BOOL_SHAPES)]
        spec.append((GS.shape_name('b', bshape), 'b', bshape))
        spec = [spec[j] for j in rng.permutation(len(spec))]
        props, items = {}, {}
        for name, knd, shape in spec:
            props[name] = GS.gen_prop(rng, natoms, knd, shape)
            items[name] = (props[name], knd, 1.0)
            rec.count(f'class:shapes:{knd}:{shape}')
        names = [s[0] for s in spec]
        sig = ('shapes', variant, natoms if natoms < 4 else 'n', fmt)
        rec.case(sig + (tiltclass, origin, posclass, typeclass, units, lunit), nontrivial=True,
                 fp=fingerprint(truth['vects'], truth['origin'], truth['pos'], truth['atype'], sig))
        count_truth(rec, 'shapes', truth)
        rec.count(f'class:shapes:variant:{variant}')
        rec.count(f'class:shapes:natoms:{natoms if natoms < 4 else "more"}')
        if i < 2 * nv:
            rec.sample(dict(group='shapes', variant=variant, natoms=natoms, float_format=fmt,
                            properties={nm: dict(kind=k, per_atom_shape=sh) for nm, k, sh in spec}))
        # ---- table
        tkw = dict(float_format=fmt)
        Flen = 1.0
        if variant == 'names':
            tkw.update(prop_name=['atype', 'pos'] + names)
        elif variant == 'shape-lists':
            Flen = float(uc.set_in_units(1.0, lunit))
            tkw.update(prop_name=['atype', 'pos'] + names, shape=[(), (3,)] + [s[2] for s in spec],
                       unit=[None, lunit] + [None] * len(spec))
        elif variant == 'prop_info':
            Flen = float(uc.set_in_units(1.0, lunit))
            tkw.update(prop_info=[dict(prop_name='a_id', table_name='id'), dict(prop_name='atype'),
                                  dict(prop_name='pos', shape=(3,), unit=lunit)]
                       + [dict(prop_name=nm, shape=sh) for nm, k, sh in spec])
        text = pinfo = None
        with ctx.guard('table dump to a string', 'table:dump:exception'):
            text, pinfo = build(env, truth, props).dump('table', return_prop_info=True, **tkw)
        if isinstance(text, str):
            path = write_path(env, f'shapes_{i}.txt', text, lambda p: build(env, truth, props).dump('table', f=p, **tkw))
            v = truth['vects']
            mkbox = lambda: am.Box(avect=v[0].copy(), bvect=v[1].copy(), cvect=v[2].copy(), origin=truth['origin'].copy())   # noqa: E731
            e = CMP.expect_table(truth, fmt, items, pos_F=Flen)
            three_ways_table(env, text, path, e, mkbox, dict(prop_info=pinfo), 'shapes:returned-prop_info', i)
            load_and_compare(env, 'table', 'string', 'shapes:returned-as-lists', text, e, dict(box=mkbox(), **lists_from(pinfo)))
            if variant == 'prop_info':
                sh = TX.table_decorate(TX.table_shuffle(text, rng, 0), rng, 0)
                load_and_compare(env, 'table', 'string', 'shapes:shuffled+decorated', sh, e,
                                 dict(box=mkbox(), comment='#', prop_info=pinfo))
            rec.count('shapes:table:evaluated')
            try:
                os.remove(path)
            except OSError:
                pass
        # ---- dump file
        F = unit_factor(env, units, 'length')
        dkw = dict(lammps_units=units, float_format=fmt)
        ditems = dict(items)
        ditems['atom_id'] = (np.arange(1, natoms + 1), 'i', 1.0)
        if variant == 'names':
            dkw.update(prop_name=['atom_id', 'atype', 'pos'] + names)
        elif variant == 'shape-lists':
            dkw.update(prop_name=['atom_id', 'atype', 'pos'] + names, shape=[(), (), (3,)] + [s[2] for s in spec])
        elif variant == 'prop_info':
            # (no unit entry for pos: the positions are then written as they are, the cell in file units)
            dkw.update(prop_info=[dict(prop_name='atom_id', table_name='id'), dict(prop_name='atype', table_name='type'),
                                  dict(prop_name='pos', shape=(3,))] + [dict(prop_name=nm, shape=sh) for nm, k, sh in spec])
        text = pinfo = None
        with ctx.guard('atom_dump dump to a string', 'atom_dump:dump:exception'):
            text, pinfo = build(env, truth, props).dump('atom_dump', return_prop_info=True, **dkw)
        if isinstance(text, str):
            lkw = dict(lammps_units=units)
            e_full = CMP.expect_dump(truth, fmt, F, ditems)
            load_and_compare(env, 'atom_dump', 'string', 'shapes:returned-prop_info', text, e_full, dict(lkw, prop_info=pinfo))
            sh = TX.dump_shuffle(text, rng)
            if i % 2:
                path = os.path.join(env.tmp, f'shapes_{i}.dump')
                with open(path, 'w', encoding='UTF-8') as f:
                    f.write(sh)
                load_and_compare(env, 'atom_dump', 'path', 'shapes:returned-prop_info', path, e_full, dict(lkw, prop_info=pinfo))
                os.remove(path)
            else:
                load_and_compare(env, 'atom_dump', 'stream', 'shapes:returned-prop_info', io.BytesIO(sh.encode()), e_full,
                                 dict(lkw, prop_info=pinfo))
            load_and_compare(env, 'atom_dump', 'string', 'shapes:returned-as-lists', sh, e_full, dict(lkw, **lists_from(pinfo)))
            if variant != 'prop_info':
                e_auto = CMP.expect_dump(truth, fmt, F, auto_split(ditems))
                load_and_compare(env, 'atom_dump', 'string', 'shapes:file-alone', text, e_auto, lkw)
            rec.count('shapes:atom_dump:evaluated')


# ------------------------------------------------------------------------------------------------ call histories / forms
# Every other group builds a fresh System from float64 arrays, writes it once and reads it in a process that may or may
# not have seen the same entry point before.  Here each format goes through five kinds of history:
#   A-B-A   : write+read A (result kept), write+read B with the very same argument objects (other style of the same
#             family where the format has styles), then: A's kept result has not changed in any bit, the arguments are as
#             they were, B is right, reading A's text again gives A's result bit for bit, writing A again gives A's text;
#   reset   : ONE System object written and read as A, re-set in place to B (cell, origin, positions, properties,
#             periodicity) and written again, set back to A and written a third time;
#   gen2    : the System that a load returned (and a deepcopy of the built one) is written again and read again;
#   forms   : the System is built from integer arrays, nested lists, float32 arrays, strided / Fortran-ordered
#             arrays, narrow integer dtypes;
#   handles : written to an open text handle / StringIO, read from an open binary handle and with the text passed by
#             keyword.
HIST_KINDS = ['A-B-A', 'reset', 'gen2', 'forms', 'handles']
HIST_FORMATS = ['atom_data', 'atom_dump', 'table', 'poscar']
DATA_PAIRS = [('hybrid sphere charge', 'atomic'), ('hybrid charge sphere', 'hybrid sphere charge'), ('charge', 'atomic'),
              ('atomic', 'full'), ('hybrid charge molecular', 'molecular'), ('full', 'hybrid charge molecular'),
              ('dipole', 'charge'), ('sphere', 'hybrid sphere dipole'), ('atomic', 'hybrid sphere charge')]
HIST_PROPS = [('velocity', 'f', (3,), 'velocity'), ('disp', 'f', (3,), None), ('cna', 'i', (), None), ('stress', 'f', (3, 3), None),
              ('flag', 'b', (), None)]
HIST_FMT = ['%.13e', '%.16e', '%.13f', '%.10e']
FIRSTARG = {'atom_data': 'data', 'atom_dump': 'data', 'table': 'table', 'poscar': 'poscar'}
EPS32 = float(np.finfo(np.float32).eps)


class Trip:
    """One way of writing and reading one format (all options fixed, the keyword dicts are reused from call to call)."""

    def __init__(self, env, fmt, k, rng, exponent_only=False):
        self.env, self.fmt, self.k = env, fmt, k
        self.ffmt = HIST_FMT[k % len(HIST_FMT)]
        if exponent_only and self.ffmt.endswith('f'):
            self.ffmt = '%.13e'
        self.units = UNITS[(k + k // 8) % len(UNITS)] if fmt in ('atom_data', 'atom_dump') else None
        self.scaled = False
        self.Flen = 1.0
        self.styles = (None, None)
        self.opt = '-'
        if fmt == 'atom_data':
            sa, sb = DATA_PAIRS[k % len(DATA_PAIRS)]
            self.withvel = (k // 2) % 2 == 0
            need = ST.quantities(sa, self.withvel) | ST.quantities(sb, self.withvel)
            if not style_available(env, self.units, need):
                self.units = 'metal'
            self.styles = (sa, sb)
            self.opt = sa + ' -> ' + sb
            self.dkw = dict(units=self.units, float_format=self.ffmt, return_info=False, safecopy=True)
            self.lkw = dict(units=self.units)
        elif fmt == 'atom_dump':
            self.opt = ('all', 'spos', 'caller-prop_info', 'supos')[k % 4]
            self.dkw = dict(lammps_units=self.units, float_format=self.ffmt, return_prop_info=True)
            if self.opt in ('spos', 'supos'):
                self.dkw['prop_name'] = ['atom_id', 'atype', self.opt] + [p[0] for p in HIST_PROPS]
                self.scaled = True
            elif self.opt == 'caller-prop_info':
                self.dkw['prop_info'] = [dict(prop_name='atom_id', table_name='id'), dict(prop_name='atype', table_name='type'),
                                         dict(prop_name='pos', table_name=['x', 'y', 'z'], unit=env.am.lammps.style.unit(self.units)['length'])] \
                    + [dict(prop_name=nm, shape=sh, unit=(env.am.lammps.style.unit(self.units)[q] if q else None))
                       for nm, kd, sh, q in HIST_PROPS]
            self.lkw = dict(lammps_units=self.units)
        elif fmt == 'table':
            self.opt = ('default', 'scaled-lists', 'caller-prop_info', 'unit-lists')[k % 4]
            self.dkw = dict(float_format=self.ffmt, return_prop_info=True)
            names = ['atype', 'pos'] + [p[0] for p in HIST_PROPS]
            self.lunit = TABLE_UNITS[k % len(TABLE_UNITS)][0]
            if self.opt == 'scaled-lists':
                self.dkw.update(prop_name=names, unit=[None, 'scaled'] + [None] * len(HIST_PROPS))
                self.scaled = True
            elif self.opt == 'unit-lists':
                self.dkw.update(prop_name=names, unit=[None, self.lunit] + [None] * len(HIST_PROPS))
                self.Flen = float(env.uc.set_in_units(1.0, self.lunit))
            elif self.opt == 'caller-prop_info':
                self.dkw['prop_info'] = [dict(prop_name='a_id', table_name='id'), dict(prop_name='atype', table_name='type'),
                                         dict(prop_name='pos', table_name=('x', 'y', 'z'), unit=self.lunit)] \
                    + [dict(prop_name=nm, shape=list(sh)) for nm, kd, sh, q in HIST_PROPS]
                self.Flen = float(env.uc.set_in_units(1.0, self.lunit))
            self.lkw = dict()
        else:
            self.cs = COORDSTYLES[k % len(COORDSTYLES)]
            self.cart = self.cs[0] in 'CcKk'
            self.scale = float(np.exp(rng.uniform(np.log(0.3), np.log(6.0)))) if k % 3 else 1.0
            self.opt = ('cartesian' if self.cart else 'direct') + ('-scaled' if k % 3 else '')
            self.scaled = not self.cart
            self.dkw = dict(coordstyle=self.cs, box_scale=self.scale, float_format=self.ffmt)
            self.lkw = dict()
        if self.units is not None:
            self.Flen = unit_factor(env, self.units, 'length')
        # a conversion table the caller wrote by hand serves the writer AND the reader (the same object, again and again)
        self.caller_table = self.dkw.get('prop_info')
        self.snapshot = copy.deepcopy(self.dkw)

    def F(self, q):
        if q is None:
            return 1.0
        if self.units is not None:
            return unit_factor(self.env, self.units, q)
        return 1.0

    def spec(self, which=0):
        if self.fmt == 'atom_data':
            st = self.styles[which]
            return ST.atoms_columns(st) + (ST.velocity_columns(st) if self.withvel else [])
        if self.fmt in ('atom_dump', 'table'):
            return list(HIST_PROPS)
        return []

    def gen_props(self, rng, truth, which=0):
        env, n = self.env, len(truth['atype'])
        if self.fmt == 'atom_data':
            return gen_style_props(env, rng, truth, self.styles[which], self.units, self.withvel)
        return {nm: GS.gen_prop(rng, n, kd, sh, self.F(q)) for nm, kd, sh, q in self.spec()}

    def dump(self, system, which=0, f=None):
        """(text or None, conversion table or None)"""
        kw = self.dkw
        if self.fmt == 'atom_data':
            out = system.dump('atom_data', atom_style=self.styles[which], f=f, **kw) if f is not None else \
                system.dump('atom_data', atom_style=self.styles[which], **kw)
            return out, None
        out = system.dump(self.fmt, f=f, **kw) if f is not None else system.dump(self.fmt, **kw)
        if self.fmt == 'poscar':
            return out, None
        if f is not None:
            return None, out
        return out[0], out[1]

    def loadkw(self, truth, pinfo, which=0):
        kw = self.lkw
        if self.fmt == 'atom_data':
            kw['pbc'] = truth['pbc']
            kw['atom_style'] = self.styles[which]
        elif self.fmt == 'atom_dump':
            kw['prop_info'] = pinfo if self.caller_table is None else self.caller_table
        elif self.fmt == 'table':
            v = truth['vects']
            kw['box'] = self.env.am.Box(avect=v[0].copy(), bvect=v[1].copy(), cvect=v[2].copy(), origin=truth['origin'].copy())
            kw['prop_info'] = pinfo if self.caller_table is None else self.caller_table
        return kw

    def load(self, src, truth, pinfo, which=0, bykeyword=False):
        kw = self.loadkw(truth, pinfo, which)
        with cpu_limit(CPU_LIMIT):
            if bykeyword:
                s = self.env.am.load(self.fmt, **{FIRSTARG[self.fmt]: src}, **kw)
            else:
                s = self.env.am.load(self.fmt, src, **kw)
        return s

    def expect(self, truth, props, which=0, float32=False):
        items = {nm: (props[nm], kd, self.F(q)) for nm, kd, sh, q in self.spec(which)}
        if self.fmt == 'atom_data':
            e = CMP.expect_data(truth, self.ffmt, self.Flen, items)
        elif self.fmt == 'atom_dump':
            items['atom_id'] = (np.arange(1, len(truth['atype']) + 1), 'i', 1.0)
            e = CMP.expect_dump(truth, self.ffmt, self.Flen, items, scaled_pos=self.scaled)
        elif self.fmt == 'table':
            e = CMP.expect_table(truth, self.ffmt, items, pos_F=self.Flen, scaled_pos=self.scaled)
        else:
            sym = truth['symbols']
            written = list(sym) if sym is not None and None not in sym else None
            e = CMP.expect_poscar(truth, self.ffmt, self.scale, self.cart, written)
        if float32:
            # a float32 property that goes through a unit conversion is converted in float32
            for nm, (arr, kd, Fq) in items.items():
                if kd == 'f' and Fq != 1.0 and nm in e.props:
                    a, t, c = e.props[nm]
                    e.props[nm] = (a, t + 4 * EPS32 * float(np.abs(a).max(initial=0.0)), c)
        return e


def build_form(env, truth, props, spec, form, rng):
    """The same system handed to the constructors as other Python / numpy types."""
    am = env.am
    v, o, pos, atype = truth['vects'], truth['origin'], truth['pos'], truth['atype']
    kinds = {nm: kd for nm, kd, sh, q in spec}
    kw = {}
    if form == 'int-arrays':
        o, pos = truth['int_origin'].copy(), truth['int_pos'].copy()
        v = truth['int_vects'].copy() if truth['int_vects'] is not None else v.copy()       # (integer atoms in a float cell)
        atype = atype.astype(np.int32)
        kw = {k: (a.astype(np.int32) if kinds[k] == 'i' else a.copy()) for k, a in props.items()}
        box = am.Box(avect=v[0], bvect=v[1], cvect=v[2], origin=o)
    elif form == 'lists':
        if 'int_pos' in truth:
            o, pos = truth['int_origin'], truth['int_pos']
            v = truth['int_vects'] if truth['int_vects'] is not None else v
        box = am.Box(avect=v[0].tolist(), bvect=tuple(v[1].tolist()), cvect=v[2].tolist(), origin=o.tolist())
        pos, atype = pos.tolist(), atype.tolist()
        kw = {k: a.tolist() for k, a in props.items()}
    elif form == 'float32':
        box = am.Box(avect=v[0].astype(np.float32), bvect=v[1].astype(np.float32), cvect=v[2].astype(np.float32),
                     origin=o.astype(np.float32))
        pos = pos.copy()
        kw = {k: (a.astype(np.float32) if kinds[k] == 'f' else a.copy()) for k, a in props.items()}
    elif form == 'strided':
        vt = np.asfortranarray(v)
        box = am.Box(avect=vt[0], bvect=vt[1], cvect=vt[2], origin=np.concatenate([o, o])[::2][:3] if False else o[::-1][::-1])
        big = np.zeros((2 * len(pos), 6))
        big[::2, ::2] = pos
        pos = big[::2, ::2]
        at2 = np.zeros(2 * len(atype), dtype=np.int64)
        at2[1::2] = atype
        atype = at2[1::2]
        for k, a in props.items():
            if a.ndim > 1:
                kw[k] = np.asfortranarray(a)
            else:
                b2 = np.zeros(3 * len(a), dtype=a.dtype)
                b2[::3] = a
                kw[k] = b2[::3]
    elif form == 'narrow-ints':
        box = am.Box(avect=v[0].copy(), bvect=v[1].copy(), cvect=v[2].copy(), origin=o.copy())
        pos = pos.copy()
        atype = atype.astype(np.uint8)
        narrow = [np.int8, np.int16, np.uint16, np.uint8]
        for j, (k, a) in enumerate(props.items()):
            if kinds[k] == 'i':
                dt = narrow[(j + len(pos)) % 4]
                kw[k] = (np.abs(a) if np.dtype(dt).kind == 'u' else a).astype(dt)
            else:
                kw[k] = a.copy()
    else:
        raise ValueError(form)
    atoms = am.Atoms(atype=atype, pos=pos, **kw)
    sym = truth['symbols']
    return am.System(atoms=atoms, box=box, pbc=truth['pbc'], symbols=(list(sym) if sym is not None else None))


def reset_in_place(system, truth, props, j):
    """Give an existing System the cell, origin, positions, periodicity and property values of ``truth`` (same atoms,
    same types), through the documented setters."""
    system.box_set(vects=truth['vects'].copy(), origin=truth['origin'].copy())
    if j % 2:
        system.atoms.pos = truth['pos'].copy()
    else:
        system.atoms.view['pos'][:] = truth['pos']
    system.pbc = truth['pbc']
    for m, (k, a) in enumerate(props.items()):
        if (j + m) % 2:
            system.atoms.view[k] = np.array(a, copy=True)
        else:
            system.atoms.view[k][:] = a


def scramble(system):
    """Overwrite everything a returned System holds (a result owns its data: nobody else may notice)."""
    n = 0
    for k in system.atoms_prop():
        a = system.atoms.view[k]
        if not a.flags.writeable:              # (pandas >= 3 hands out read-only column buffers: nothing to overwrite in place)
            n += 1
            continue
        if a.dtype.kind == 'f':
            a[:] = a * -3.0 + 17.0
        elif a.dtype.kind in 'iu' and k != 'atype':
            a[:] = 7
    system.box_set(vects=system.box.vects * 1.5, origin=system.box.origin + 11.0)
    return n


def group_history(env):
    ctx, rec, am = env.ctx, env.rec, env.am
    nf, nk = len(HIST_FORMATS), len(HIST_KINDS)
    n = ctx.pick(nf * nk * 10, nf * nk * 60)
    for i in ctx.cases('history', n):
        rng = ctx.rng
        fmt = HIST_FORMATS[i % nf]
        kind = HIST_KINDS[(i // nf) % nk]
        rnd = i // (nf * nk)
        k = rnd + (i // nf) % nk + 2 * (i % nf)                      # option counter: another window per (format, kind)
        form = GS.FORMS[(rnd + i % nf) % len(GS.FORMS)] if kind == 'forms' else None
        integer = form == 'int-arrays' or (form == 'lists' and rnd % 2 == 0)
        trip = Trip(env, fmt, k, rng, exponent_only=integer or form == 'float32')
        kinds = GS.POSCAR_KINDS if fmt in ('poscar', 'table') else GS.LAMMPS_KINDS
        ckind = kinds[(i + rnd) % len(kinds)]
        origin = cells.ORIGINS[(i // 2 + rnd) % 3]
        full = (kind == 'gen2' and fmt == 'atom_data') or (i + rnd) % 2 == 0
        pbc = cells.PBCS[7] if full else cells.PBCS[(i // 3 + rnd) % 8]
        posclass = GS.POSCLASSES[(i + i // 5 + rnd) % 4]
        typeclass = GS.TYPECLASSES[(i // 2 + rnd) % 4]
        symclass = ('all', 'none')[(i + rnd) % 2] if fmt == 'poscar' else 'none'
        natoms = natoms_for(ctx, rng, i + rnd + 3)
        if integer and fmt == 'atom_data' and (rnd // 5) % 2:
            pbc = cells.PBCS[7]                                         # (the wrap of integer atoms by a float cell needs a periodic axis)
        if integer:
            A = GS.gen_integer_truth(rng, pbc, posclass, typeclass, natoms, float_cell=bool((rnd // 5) % 2))
            rec.count('class:history:form:integer-atoms-in-' + ('float-cell' if A['int_vects'] is None else 'integer-cell'))
            if A['int_vects'] is None and fmt == 'atom_data' and any(pbc) and (np.floor(A['rel'])[:, list(pbc)] != 0).any():
                rec.count('class:history:form:integer-atoms-wrapped-by-a-float-cell')
        else:
            A = GS.gen_truth(rng, ckind, origin, pbc, posclass, typeclass, symclass, natoms, trip.Flen if fmt != 'poscar' else 1.0)
        propsA = trip.gen_props(rng, A, 0)
        if form == 'float32':
            A['vects'], A['origin'] = GS.float32_exact(A['vects']), GS.float32_exact(A['origin'])
            A['L'] = float(np.linalg.norm(A['vects'], axis=1).max())
            A['rel'] = CMP.rel_coords(A['pos'], A['vects'], A['origin'])
            propsA = {nm: (GS.float32_exact(a) if a.dtype.kind == 'f' else a) for nm, a in propsA.items()}
        if form == 'narrow-ints':
            propsA = {nm: (np.abs(a) if a.dtype.kind == 'i' else a) for nm, a in propsA.items()}
        sig = ('history', fmt, kind, form or '-', trip.opt, trip.ffmt, trip.units or '-')
        rec.case(sig + (ckind, origin, posclass, typeclass), nontrivial=True,
                 fp=fingerprint(A['vects'], A['origin'], A['pos'], A['atype'], sig))
        rec.count(f'class:history:{fmt}:{kind}')
        rec.count(f'class:history:{kind}')
        rec.count(f'class:history:{fmt}:option:{trip.opt}')
        if kind == 'reset' and trip.scaled:
            rec.count('class:history:reset:box-relative-coordinates-written')
        if kind == 'A-B-A' and fmt == 'atom_data':
            rec.count('class:history:atom_data:A-B-A:' + ('hybrid-first' if trip.styles[0].startswith('hybrid') else 'plain-first'))
        if kind == 'A-B-A' and 'prop_info' in trip.dkw:
            rec.count('class:history:A-B-A:caller-made-conversion-table')
        if form:
            rec.count(f'class:history:form:{form}')
            rec.count(f'class:history:{fmt}:form:{form}')
        if i < 2 * nf * nk:
            rec.sample(dict(group='history', format=fmt, history=kind, form=form, option=trip.opt, float_format=trip.ffmt,
                            units=trip.units, natoms=natoms, cell=A['kind'], pbc=pbc))
        base = f'{fmt}:history-{kind}'
        clause = f'{fmt}: load does not raise on a well-formed file'

        def judge(step, system, e, key=None):
            if isinstance(system, tuple):
                system = system[0]
            CMP.compare(rec, key or f'{base}:{step}', observe(system), e, fmt)
            rec.count(f'loads:{fmt}:history:{kind}:{step}')
            rec.count(f'loads:{fmt}')

        eA = trip.expect(A, propsA, 0, float32=(form == 'float32'))
        # ------------------------------------------------------------------------------------------ forms
        if kind == 'forms':
            sysA = None
            with ctx.guard(f'{fmt}: a System built from {form} is written', f'{base}:{form}:build-or-dump:exception'):
                sysA = build_form(env, A, propsA, trip.spec(0), form, rng)
                text, pinfo = trip.dump(sysA, 0)
            if sysA is None or not isinstance(text, str):
                continue
            with ctx.guard(clause, f'{base}:{form}:exception'):
                judge(form, trip.load(text, A, pinfo, 0), eA, key=f'{base}:{form}')
            with ctx.guard(clause, f'{base}:{form}:exception'):
                judge(form + ':stream', trip.load(io.BytesIO(text.encode()), A, pinfo, 0), eA, key=f'{base}:{form}')
            continue
        text = pinfo = None
        with ctx.guard(f'{fmt} dump to a string', f'{fmt}:dump:exception'):
            sysA = build(env, A, propsA)
            text, pinfo = trip.dump(sysA, 0)
        if not isinstance(text, str):
            continue
        # ------------------------------------------------------------------------------------------ handles
        if kind == 'handles':
            buf = io.StringIO()
            path = os.path.join(env.tmp, f'hist_{i}.txt')
            with ctx.guard(f'{fmt} dump to an open handle', f'{base}:dump:exception'):
                trip.dump(build(env, A, propsA), 0, f=buf)
                rec.check(buf.getvalue() == text, f'{fmt}: what is written to a StringIO is what is returned as a string',
                          f'{base}:stringio-differs')
                with open(path, 'w', encoding='UTF-8') as fh:
                    trip.dump(build(env, A, propsA), 0, f=fh)
                with open(path, 'r', encoding='UTF-8') as fh:
                    rec.check(fh.read() == text, f'{fmt}: what is written to an open text file is what is returned as a string',
                              f'{base}:filehandle-differs')
                rec.count(f'history:{fmt}:handles:written')
            if not os.path.exists(path):
                with open(path, 'w', encoding='UTF-8') as fh:
                    fh.write(text)
            with ctx.guard(clause, f'{base}:binary-handle:exception'):
                with open(path, 'rb') as fh:
                    judge('binary-handle', trip.load(fh, A, pinfo, 0), eA)
            with ctx.guard(clause, f'{base}:keyword:exception'):
                judge('keyword', trip.load(text if rnd % 2 else path, A, pinfo, 0, bykeyword=True), eA)
            with ctx.guard(clause, f'{base}:bytesio:exception'):
                judge('bytesio', trip.load(io.BytesIO(text.encode('UTF-8')), A, pinfo, 0), eA)
            os.remove(path)
            continue
        # ------------------------------------------------------------------------------------------ gen2
        if kind == 'gen2':
            s1 = None
            with ctx.guard(clause, f'{base}:first:exception'):
                s1 = trip.load(text, A, pinfo, 0)
                judge('first', s1, eA)
            if s1 is None:
                continue
            with ctx.guard(f'{fmt}: a loaded System is written and read again', f'{base}:second-generation:exception'):
                if fmt in ('atom_dump', 'table'):
                    keep = dict(trip.dkw)
                    for nm in ('prop_name', 'unit', 'shape', 'table_name', 'prop_info'):
                        trip.dkw.pop(nm, None)
                    trip.dkw['prop_info'] = pinfo                     # the table the writer returned, handed back to the writer
                    text2, pinfo2 = trip.dump(s1, 0)
                    trip.dkw.clear()
                    trip.dkw.update(keep)
                else:
                    text2, pinfo2 = trip.dump(s1, 0)
                    pinfo2 = pinfo
                B2 = A
                if fmt == 'poscar':
                    # the first generation sits at origin 0 (direct: place in the cell kept; Cartesian: absolute place kept)
                    B2 = dict(A)
                    B2['origin'] = np.zeros(3)
                judge('second-generation', trip.load(text2, B2, pinfo2, 0), CMP.loosen(trip.expect(A, propsA, 0), 2))
            with ctx.guard(f'{fmt}: a deep copy of a System is written', f'{base}:deepcopy:exception'):
                t3, _ = trip.dump(copy.deepcopy(build(env, A, propsA)), 0)
                rec.check(t3 == text, f'{fmt}: a deep copy of a System is written as the System itself', f'{base}:deepcopy-differs')
                rec.count(f'history:{fmt}:deepcopy:evaluated')
            continue
        # ------------------------------------------------------------------------------------------ B
        B = GS.gen_truth(rng, kinds[(i + rnd + 3) % len(kinds)], cells.ORIGINS[(i // 2 + rnd + 1) % 3],
                         pbc if kind == 'A-B-A' else cells.PBCS[(i // 3 + rnd + 3) % 8], GS.POSCLASSES[(i + i // 5 + rnd + 1) % 4],
                         typeclass, symclass, natoms, trip.Flen if fmt != 'poscar' else 1.0)
        wb = 1 if kind == 'A-B-A' else 0
        if kind == 'reset':
            B['atype'], B['natypes'], B['symbols'] = A['atype'].copy(), A['natypes'], A['symbols']
        propsB = trip.gen_props(rng, B, wb)
        eB = trip.expect(B, propsB, wb)
        if kind == 'reset':
            with ctx.guard(clause, f'{base}:first:exception'):
                judge('first', trip.load(text, A, pinfo, 0), eA)
            with ctx.guard(f'{fmt}: a System re-set in place is written', f'{base}:after-reset:exception'):
                reset_in_place(sysA, B, propsB, i)
                textB, pinfoB = trip.dump(sysA, 0)
                judge('after-reset', trip.load(textB, B, pinfoB, 0), eB)
            with ctx.guard(f'{fmt}: a System re-set in place is written', f'{base}:set-back:exception'):
                reset_in_place(sysA, A, propsA, i + 1)
                textA2, pinfoA2 = trip.dump(sysA, 0)
                rec.check(textA2 == text, f'{fmt}: a System set back to its first state is written as the first time',
                          f'{base}:set-back-differs')
                judge('set-back', trip.load(textA2, A, pinfoA2, 0), eA)
            continue
        # ------------------------------------------------------------------------------------------ A-B-A
        sA = None
        snap_p = copy.deepcopy(pinfo)
        with ctx.guard(clause, f'{base}:first:exception'):
            sA = trip.load(text, A, pinfo, 0)
            judge('first', sA, eA)
        if sA is None:
            continue
        if isinstance(sA, tuple):
            sA = sA[0]
        obsA = observe(sA)
        boxA = trip.lkw.get('box')
        snap_box = (boxA.vects, boxA.origin) if boxA is not None else None
        sB = None
        with ctx.guard(f'{fmt} dump to a string', f'{fmt}:dump:exception'):
            textB, pinfoB = trip.dump(build(env, B, propsB), wb)
        with ctx.guard(clause, f'{base}:second:exception'):
            # the conversion table object that served for A serves again (same columns); the keyword dicts are the same objects
            sB = trip.load(textB if rnd % 2 else io.BytesIO(textB.encode()), B, pinfo if pinfo is not None else pinfoB, wb)
            judge('second', sB, eB)
        d = CMP.differences(obsA, observe(sA))
        rec.check(not d, f'{fmt}: a System returned earlier is not changed by a later dump/load', f'{base}:earlier-result-changed', changed=d)
        rec.check(CMP.plain_equal(trip.snapshot, trip.dkw),
                  f'{fmt}: dump and load leave the keyword arguments (with a conversion table written by the caller) as they were handed over',
                  f'{base}:argument-changed', before=repr(trip.snapshot.get('prop_info'))[:400], after=repr(trip.dkw.get('prop_info'))[:400])
        rec.check(CMP.plain_equal(snap_p, pinfo), f'{fmt}: load leaves the conversion table returned by the writer as it was',
                  f'{base}:returned-table-changed', before=repr(snap_p)[:400], after=repr(pinfo)[:400])
        if snap_box is not None:
            rec.check(np.array_equal(snap_box[0], boxA.vects) and np.array_equal(snap_box[1], boxA.origin),
                      f'{fmt}: load leaves the box it was handed as it was', f'{base}:argument-changed')
        if sB is not None:
            with ctx.guard(f'{fmt}: a returned System can be modified', f'{base}:scramble:exception'):
                if scramble(sB[0] if isinstance(sB, tuple) else sB):
                    rec.count('history:result-holds-read-only-arrays')
            d = CMP.differences(obsA, observe(sA))
            rec.check(not d, f'{fmt}: two returned Systems share no data', f'{base}:results-share-data', changed=d)
        with ctx.guard(clause, f'{base}:repeat:exception'):
            sA2 = trip.load(text, A, pinfo, 0)
            judge('repeat', sA2, eA)
            d = CMP.differences(obsA, observe(sA2[0] if isinstance(sA2, tuple) else sA2))
            rec.check(not d, f'{fmt}: reading the same text again gives the same System bit for bit, whatever was read in between',
                      f'{base}:repeat-differs', changed=d)
        with ctx.guard(f'{fmt} dump to a string', f'{fmt}:dump:exception'):
            t2, _ = trip.dump(build(env, A, propsA), 0)
            rec.check(t2 == text, f'{fmt}: writing the same System again gives the same text, whatever was written in between',
                      f'{base}:redump-differs')
        rec.count(f'history:{fmt}:A-B-A:completed')


# ------------------------------------------------------------------------------------------------ run
REACH = [('atomman/load/atom_data/load.py', 304, 315, 'data:image-flags-reapplied', 4),
         ('atomman/load/atom_data/load.py', 231, 244, 'data:format-errors', 3),
         ('atomman/load/atom_dump/load.py', 138, 147, 'dump:tilt-bounds-to-lohi', 5),
         ('atomman/load/table/load.py', 122, 126, 'table:unit-and-scaled-conversion', 3),
         ('atomman/load/poscar/load.py', 49, 60, 'poscar:symbols-line-branches', 6)]


def run(ctx):
    import atomman as am
    import atomman.unitconvert as uc
    env = Env()
    env.ctx, env.rec, env.am, env.uc, env.fcache = ctx, ctx.rec, am, uc, {}
    env.tmp = tempfile.mkdtemp(prefix='vfC08_')
    rec = ctx.rec
    cover.start([r[0] for r in REACH])
    try:
        group_data(env)
        group_dump(env)
        group_table(env)
        group_poscar(env)
        group_scale(env)
        group_shapes(env)
        group_pscale(env)
        group_history(env)
    finally:
        shutil.rmtree(env.tmp, ignore_errors=True)
    for f, lo, hi, name, _ in REACH:
        rec.count('reach:' + name, cover.hits(f, lo, hi))

    for f, lo, hi, name, m in REACH:
        rec.floor('reach:' + name, m)
    for fmt in ('atom_data', 'atom_dump', 'poscar'):
        for via in ('string', 'path', 'stream'):
            rec.floor(f'loads:{fmt}:{via}:plain', 20)
        rec.floor(f'textstream-refused:{fmt}', 20)
        rec.floor(f'class:{fmt}:atoms-outside', 10)
        rec.floor(f'class:{fmt}:atoms-on-face', 10)
        rec.floor(f'class:{fmt}:origin-nonzero', 10)
        rec.floor(f'class:{fmt}:type-gaps', 10)
        rec.floor(f'class:{fmt}:cell:tilted', 3)
    for via in ('string', 'path', 'stream'):
        rec.floor(f'loads:table:{via}:returned-prop_info', 20)
    rec.floor('textstream-refused:table', 20)
    rec.floor('loads:atom_data:string:shuffled', 50)
    rec.floor('loads:atom_data:string:decorated', 50)
    rec.floor('loads:atom_dump:string:shuffled', 50)
    rec.floor('loads:table:string:shuffled', 10)
    rec.floor('loads:table:string:decorated', 10)
    rec.floor('loads:poscar:string:decorated', 10)
    rec.floor('loads:poscar:string:independent-writer', 50)
    for k in ('atoms', 'box', 'Atoms'):
        rec.floor('reject:' + k, 30)
    for u in U.NON_ANGSTROM:
        rec.floor(f'class:atom_data:units:{u}', 5)
        rec.floor(f'class:atom_dump:units:{u}', 5)
    for s in ST.STYLES:
        rec.floor(f'class:atom_data:style:{s}', 2)
    rec.floor('class:atom_data:image-flags-written', 20)
    rec.floor('class:atom_data:velocities-section', 20)
    for p in ('000', '111', '101', '010'):
        rec.floor(f'class:atom_data:pbc:{p}', 3)
    rec.floor('class:atom_dump:pbc:010', 2)
    rec.floor('atom_dump:returned-prop_info:scaled:evaluated', 5)
    rec.floor('table:returned-prop_info:scaled:evaluated', 5)
    rec.floor('loads:atom_dump:string:own-prop_info-scaled', 5)
    rec.floor('class:poscar:cartesian-scaled', 10)
    rec.floor('class:poscar:symbols-written', 10)
    rec.floor('class:poscar:symbols-not-written', 10)
    rec.floor('class:poscar:cell:rotated', 3)
    rec.floor('class:poscar:trailing-unused-types', 10)
    rec.floor('class:poscar:trailing-unused-types:no-symbols-line', 3)
    # physical length scale: every unit style x tilt class, every non-zero pattern of the tilt factors, both LAMMPS formats
    for u in UNITS:
        for tc in GS.TILTCLASSES:
            rec.floor(f'class:scale:{u}:{tc}', 3)
            rec.floor(f'loads:scale:atom_data:{u}:{tc}', 3)
            rec.floor(f'loads:scale:atom_dump:{u}:{tc}', 3)
    for m in MASKNAMES.values():
        rec.floor(f'class:scale:tilts:{m}', 6)
    for mc in ('physical', 'file'):
        rec.floor(f'class:scale:values:{mc}', 30)
    rec.floor('class:scale:atoms-outside', 20)
    rec.floor('class:scale:origin-nonzero', 20)
    for via in ('string', 'path', 'stream'):
        rec.floor(f'loads:atom_data:{via}:physical-scale', 20)
    rec.floor('loads:atom_data:string:physical-scale:shuffled+decorated', 60)
    rec.floor('loads:atom_dump:string:physical-scale', 60)
    rec.floor('loads:atom_dump:string:physical-scale:returned-prop_info', 20)
    rec.floor('loads:atom_dump:stream:physical-scale:returned-prop_info', 20)
    # per-atom property shapes: every shape as float and as integer, through both formats, every natoms class
    for sh in GS.SHAPES:
        for k in ('f', 'i'):
            rec.floor(f'class:shapes:{k}:{sh}', 40)
    for sh in BOOL_SHAPES:
        rec.floor(f'class:shapes:b:{sh}', 4)
    for v in SHAPE_VARIANTS:
        rec.floor(f'class:shapes:variant:{v}', 10)
    for k in ('1', '2', '3', 'more'):
        rec.floor(f'class:shapes:natoms:{k}', 8)
    rec.floor('shapes:table:evaluated', 40)
    rec.floor('shapes:atom_dump:evaluated', 40)
    for via in ('string', 'path', 'stream'):
        rec.floor(f'loads:table:{via}:shapes:returned-prop_info', 40)
    rec.floor('loads:table:string:shapes:returned-as-lists', 40)
    rec.floor('loads:table:string:shapes:shuffled+decorated', 10)
    rec.floor('loads:atom_dump:string:shapes:returned-prop_info', 40)
    rec.floor('loads:atom_dump:path:shapes:returned-prop_info', 15)
    rec.floor('loads:atom_dump:stream:shapes:returned-prop_info', 15)
    rec.floor('loads:atom_dump:string:shapes:returned-as-lists', 40)
    rec.floor('loads:atom_dump:string:shapes:file-alone', 30)
    # POSCAR scale-factor classes
    for cl in GS.SCALECLASSES:
        rec.floor(f'class:pscale:{cl}', 6)
        rec.floor(f'class:pscale:{cl}:cartesian', 2)
        rec.floor(f'class:pscale:{cl}:direct', 2)
    for fm in FMT_POSCAR:
        rec.floor(f'class:pscale:fmt:{fm}', 12)
    rec.floor('class:pscale:scale-needs-more-than-7-digits:cartesian', 20)
    rec.floor('class:pscale:scale-needs-more-than-7-digits:direct', 12)
    rec.floor('class:pscale:scale-needs-15-or-more-digits', 40)
    for fm in TX.SCALE_TEXT_FORMS:
        rec.floor(f'class:pscale:scale-line:{fm}', 8)
    rec.floor('loads:poscar:string:scale-classes', 80)
    rec.floor('loads:poscar:path:scale-classes', 30)
    rec.floor('loads:poscar:stream:scale-classes', 30)
    rec.floor('loads:poscar:string:scale-line-forms', 80)
    # call histories and input forms: every format x every kind of history, every form through every format
    for fm in HIST_FORMATS:
        for kd in HIST_KINDS:
            rec.floor(f'class:history:{fm}:{kd}', 8)
        for f2 in GS.FORMS:
            rec.floor(f'class:history:{fm}:form:{f2}', 2)
            rec.floor(f'loads:{fm}:history:forms:{f2}', 2)
        rec.floor(f'history:{fm}:A-B-A:completed', 8)
        rec.floor(f'history:{fm}:deepcopy:evaluated', 8)
        rec.floor(f'history:{fm}:handles:written', 8)
        for step in ('A-B-A:first', 'A-B-A:second', 'A-B-A:repeat', 'reset:first', 'reset:after-reset', 'reset:set-back',
                     'gen2:first', 'gen2:second-generation', 'handles:binary-handle', 'handles:keyword', 'handles:bytesio'):
            rec.floor(f'loads:{fm}:history:{step}', 8)
    rec.floor('class:history:reset:box-relative-coordinates-written', 10)
    rec.floor('class:history:atom_data:A-B-A:hybrid-first', 3)
    rec.floor('class:history:atom_data:A-B-A:plain-first', 3)
    rec.floor('class:history:A-B-A:caller-made-conversion-table', 4)
    rec.floor('class:history:form:integer-atoms-in-float-cell', 4)
    rec.floor('class:history:form:integer-atoms-in-integer-cell', 4)
    rec.floor('class:history:form:integer-atoms-wrapped-by-a-float-cell', 2)
