"""C09 - Unit conversion is invertible, precedence-correct and working-unit independent."""
from __future__ import annotations

import inspect
import math

import numpy as np

from ..core import fingerprint
from ..gen import c09_exprs as G
from ..oracle import c09_units as U
from .. import cover, monitor

# monitors are self-sufficient (judge a call from its arguments and result): the repository's own tests run under them
# as an extra workload in the thorough tier (vf/repotests.py)
REPOTESTS = True

RULE = ('expression cases: round-robin over nesting depth 0-4 (exactly reached by a forced spine; a parenthesised '
        'exponent may add one level) x white-space class (none / blanks / tabs, CR, LF) x partner class (random '
        'expression compensated to equal dimension / same structure with other units of equal dimension / SI base '
        'form) x value class (float, int, list, 1-3-D array, special values) x name pool (common / all ASCII names / '
        'with unicode aliases); each case is evaluated under the default, SI, 18 named (rotating through all 87) and '
        '5 seeded random working-unit configurations. A case is non-trivial when its expression contains an operator '
        'and differs textually from its partner; distinct = distinct fingerprint of (both expression strings, '
        'values). Named working units: ALL 29 admissible subsets x 3 name variants every run (exhaustive), plus '
        'seeded random name draws in the thorough tier. LAMMPS styles: all 8 styles x 3 (6) rescaling quadruples, '
        'every tabulated quantity (13 mechanical; temperature, charge, dipole, electric field in addition).')
ASSUMPTIONS = [
    'negative numeric literals occur only as exponents; bases (unit values, literals) are positive',
    'chained ^ occurs only with parentheses around the inner power',
    'every sub-expression stays within 1e+-230 in every configuration it is evaluated under (generator bound computed from the base-unit values observed in those configurations)',
    'mol is a pure count (Avogadro number), as LAMMPS real/metal units require; charge is the electrical base quantity',
    'CODATA measured constants (amu, me, aBohr, Ry, mu0, ...) are compared with the hand-entered CODATA-2022 values to 1e-7 only; exactly defined units to 1e-12',
    'configuration-differential bound 1e-12 relative: at most 80 unit-name factors per conversion, each carrying a few ulp',
    'oracle and code share IEEE double arithmetic and libm pow',
]

A_ROUNDTRIP = 'get_in_units(set_in_units(x, u), u) = x'
A_SET = 'set_in_units(x, u) = x * value(u)'
A_LITERAL = "set_literal('x u') = x * value(u)"
B_PARSE = 'parse(expr) = precedence-correct evaluation over the current unit table'
B_TABLE = 'parse(expr) = SI definition of expr x base-unit scale factors'
C_DIFF = 'conversion between expressions of equal dimension is the same number in every working-unit configuration'
C_SI = 'conversion between expressions of equal dimension equals the ratio of their SI definitions'
D_ONE = 'a unit chosen as working unit by name has the value one'
T_TABLE = 'every known unit name has its SI definition scaled by the base-unit factors in force'
E_DIM = 'mechanical LAMMPS style entry has the dimension of its quantity (log-ratio under rescaled units)'
E_SEED = 'mechanical LAMMPS style entry scales with random base units as its quantity does'
E_ORACLE = 'mechanical LAMMPS style entry has the dimension of its quantity (dimension algebra over the unit table)'
X_DIM = 'thermal/electrical LAMMPS style entry has the dimension of its quantity (log-ratio under rescaled units)'
X_SEED = 'thermal/electrical LAMMPS style entry scales with random base units as its quantity does'
X_ORACLE = 'thermal/electrical LAMMPS style entry has the dimension of its quantity (dimension algebra over the unit table)'
E_LJ = "every entry of the 'lj' style table is None"
E_PRESENT = 'non-lj style tables list every mechanical quantity as a unit expression'

SCALE_SETS = [('cm', 'g', 'ms', 'mC'), ('nm', 'amu', 'fs', 'e'), ('inch', 'lbm', 'hour', 'Ah'),
              ('km', 'tonne', 'minute', 'uC'), ('aBohr', 'me', 'ps', 'mAh'), ('um', 'pg', 'us', 'nC')]


def apply_config(uc, cfg, rng=None):
    kind, arg = cfg
    if kind in ('default', 'named'):
        items = list(arg.items())
        if rng is not None:
            items = [items[k] for k in rng.permutation(len(items))]     # keyword order must not matter
        uc.reset_units(**dict(items))
    elif kind == 'SI':
        uc.reset_units('SI')
    else:
        uc.reset_units(seed=arg)


def restore_default(uc):
    uc.reset_units(**G.DEFAULT)


def base_of(uc):
    return tuple(float(uc.unit[b]) for b in U.BASE_NAMES)


def measure_base_logs(uc):
    """log10 of the five base units in every configuration used for the expression
    cases (generator domain restriction only: keeps sub-expressions away from overflow)."""
    rows = []
    try:
        for cfg in G.all_configs():
            try:
                apply_config(uc, cfg)
                b = base_of(uc)
                if all(v > 0 and math.isfinite(v) for v in b):
                    rows.append([math.log10(v) for v in b])
            except Exception:
                pass                                  # judged (and reported) by the named/configs groups
    finally:
        restore_default(uc)
    return np.array(rows)


def known_base(base, kind):
    lg = np.log10(np.asarray(base))
    if kind == 'seed':
        return bool(np.abs(lg).max() <= 2.0)
    return bool((np.abs(G.BASE_LOGS - lg).max(axis=1) < 1e-6).any())


_TAB = None


def _table_arrays():
    global _TAB
    if _TAB is None:
        names = sorted(U.TABLE)
        si = np.array([U.TABLE[n][0] for n in names])
        dims = np.array([U.TABLE[n][1] for n in names], float)
        exact = np.array([U.TABLE[n][2] for n in names])
        _TAB = names, si, dims, exact
    return _TAB


def check_table(rec, uc, key):
    """Every tabulated name: unit[name] = SI value x prod(base^dim) in the configuration in force."""
    names, si, dims, exact = _table_arrays()
    missing = [n for n in names if n not in uc.unit]
    rec.check(not missing, 'every tabulated unit name is known to the code', 'table:missing-name', missing=missing[:5])
    if missing:
        return
    base = np.array(base_of(uc))
    exp = (si.astype(np.longdouble) * U.scale_of(base[None, :], dims)).astype(float)
    got = np.array([uc.unit[n] for n in names])
    rel = np.abs(got / exp - 1)
    lim = np.where(exact, 1e-13, 1e-7)
    bad = ~(rel <= lim)
    rec.count('table:names-compared', len(names))
    rec.check(not bad.any(), T_TABLE, key, names=[names[k] for k in np.nonzero(bad)[0][:6]],
              got=got[bad][:6], expected=exp[bad][:6], base=base)


def literal_of(x):
    if isinstance(x, np.ndarray):
        return repr(x.tolist())
    return repr(x)


def feature_counts(rec, c):
    """Which hostile features of the grammar the case contains (for the coverage floors)."""
    for which in ('t1', 't2'):
        t = c[which]
        s = _flat(t)
        rec.count('feature:a/b/c', int(_has_chain(t, '/', '/')))
        rec.count('feature:a/b*c', int(_has_chain(t, '*', '/')))
        rec.count('feature:a*b/c', int(_has_chain(t, '/', '*')))
        rec.count('feature:product-with-power-factor', int(_has_pow_factor(t)))
        rec.count('feature:parenthesised-chained-power', int(_has_chained_pow(t)))
        rec.count('feature:negative-exponent', int(any(k == 'exp' and v.lstrip('( \t').startswith('-') for k, v in s)))
        rec.count('feature:fractional-exponent', int(any(k == 'exp' and ('.' in v or '/' in v) for k, v in s)))
        rec.count('feature:parenthesised-exponent', int(any(k == 'exp' and v.startswith('(') for k, v in s)))
        rec.count('feature:scientific-literal', int(any(k == 'num' and ('e' in v.lower()) for k, v in s)))
        rec.count('feature:leading-dot-literal', int(any(k in ('num', 'exp') and v.lstrip('-').startswith('.') for k, v in s)))
        rec.count('feature:unicode-name', int(any(k == 'name' and not v.isascii() for k, v in s)))
        rec.count('feature:power-of-parenthesis', int(_has_pow_of_par(t)))
    rec.count('depth:%d' % c['depth'])
    rec.count('paren-depth:%d' % max(G.depth_of(c['t1']), G.depth_of(c['t2'])))
    rec.count('ws:' + c['ws'])
    rec.count('pair:' + c['pair'])
    rec.count('value:' + c['val'])
    for e in (c['e1'], c['e2']):
        rec.count('ws-char:tab', int('\t' in e))
        rec.count('ws-char:newline', int('\n' in e))
        rec.count('ws-char:cr', int('\r' in e))


def _flat(t, exp=False):
    k = t[0]
    if k == 'name':
        return [('name', t[1])]
    if k in ('num', 'rawpar'):
        return [('exp' if exp else 'num', t[1])]
    if k == 'par':
        return _flat(t[1])
    if k == 'pow':
        return _flat(t[1]) + _flat(t[2], True)
    return _flat(t[1]) + _flat(t[2])


def _has_chain(t, outer, inner):
    """(x inner y) outer z  written without parentheses, e.g. a/b*c = ('*', ('/', a, b), c)."""
    k = t[0]
    if k in ('name', 'num', 'rawpar'):
        return False
    if k in '*/' and k == outer and t[1][0] == inner:
        return True
    return any(_has_chain(c, outer, inner) for c in t[1:] if isinstance(c, tuple))


def _has_pow_factor(t):
    k = t[0]
    if k in ('name', 'num', 'rawpar'):
        return False
    if k in '*/' and (t[2][0] == 'pow' or t[1][0] == 'pow'):
        return True
    return any(_has_pow_factor(c) for c in t[1:] if isinstance(c, tuple))


def _strip(t):
    while t[0] == 'par':
        t = t[1]
    return t


def _has_chained_pow(t):
    k = t[0]
    if k in ('name', 'num', 'rawpar'):
        return False
    if k == 'pow' and t[1][0] == 'par' and _strip(t[1])[0] == 'pow':
        return True
    return any(_has_chained_pow(c) for c in t[1:] if isinstance(c, tuple))


def _has_pow_of_par(t):
    k = t[0]
    if k in ('name', 'num', 'rawpar'):
        return False
    if k == 'pow' and t[1][0] == 'par' and _strip(t[1])[0] in '*/':
        return True
    return any(_has_pow_of_par(c) for c in t[1:] if isinstance(c, tuple))


def install_monitor(rec, uc):
    """Postcondition on the real parse(): fires on every call, including the
    recursive ones for parenthesised sub-expressions and those made by
    set_in_units / get_in_units / set_literal."""
    def post_parse(args, kwargs, result, exc, old):
        units = args[0] if args else kwargs.get('units')
        if exc is not None or not isinstance(units, str) or units == 'scaled':
            return
        exp = U.evaluate_float(units, uc.unit)
        rec.close(0.0, result, exp, 'monitor: ' + B_PARSE, 'monitor:parse', rtol=1e-13, expr=units)
    monitor.observe(uc, 'parse', post_parse, label='uc.parse')


def rel_close(a, b, rtol):
    return abs(a - b) <= rtol * abs(b)


# ---------------------------------------------------------------------------
def run_expressions(ctx, uc):
    rec = ctx.rec
    n = ctx.pick(1000, 5000)
    for i in ctx.cases('exprs', n):
        rng = ctx.rng
        c = G.make_case(rng, i)
        e1, e2, t1, t2, x, xa = c['e1'], c['e2'], c['t1'], c['t2'], c['x'], c['xa']
        q1, q2 = U.evaluate_si(e1), U.evaluate_si(e2)
        qa, qb = G.eval_tree(t1, U.si, lambda v: U.Q(v)), G.eval_tree(t2, U.si, lambda v: U.Q(v))
        # harness self-consistency: oracle parser of the text == direct evaluation of the tree
        assert q1.d == qa.d and q2.d == qb.d and rel_close(q1.v, qa.v, 1e-13) and rel_close(q2.v, qb.v, 1e-13), (e1, e2)
        assert all(abs(a - b) < 1e-9 for a, b in zip(q1.d, q2.d)), (e1, e2)
        ops = G.ops_in(t1)
        rec.case(c['sig'], nontrivial=bool(ops) and e1.strip() != e2.strip(), fp=fingerprint(e1, e2, xa))
        feature_counts(rec, c)
        if i < 24:
            rec.sample(dict(e1=e1, e2=e2, dim=q1.d, value=x, classes=c['sig']))
        inexact = q1.inexact or q2.inexact
        configs = G.configs_for_case(i, 18, 5, rng, ctx.pick(0, 3))
        x_before = np.array(xa, copy=True)
        ys = []
        try:
            for ci, cfg in enumerate(configs):
                ck = G.config_key(cfg)
                g = ctx.guard('working units can be chosen', 'reset:exception:' + ck)
                with g:
                    apply_config(uc, cfg, rng)
                if g.exc is not None:
                    continue
                base = base_of(uc)
                if not (all(b > 0 and math.isfinite(b) for b in base) and known_base(base, cfg[0])):
                    rec.count('exempt:base-units-not-among-those-the-generator-bounded')
                    continue
                rec.count('config:' + cfg[0])
                vals = []
                for e, t, q in ((e1, t1, q1), (e2, t2, q2)):
                    got = None
                    with ctx.guard('parse accepts every expression of the grammar', 'parse:exception:' + c['ws']):
                        got = uc.parse(e)
                    if got is None:
                        vals.append(None)
                        continue
                    exp = U.evaluate_float(e, uc.unit)
                    tv = G.eval_tree(t, uc.unit.__getitem__)
                    assert rel_close(exp, tv, 1e-13), (e, exp, tv)
                    vals.append(exp)
                    rec.close(0.0, got, exp, B_PARSE, 'parse:precedence:' + c['ws'], rtol=1e-13, expr=e, config=ck)
                    pred = U.predicted(q, base)
                    rec.close(0.0, got, pred, B_TABLE, 'parse:dimension:' + cfg[0], rtol=1e-7 if q.inexact else 1e-12,
                              expr=e, config=cfg, dim=q.d)
                if vals[0] is None or vals[1] is None:
                    continue
                with ctx.guard('set_in_units/get_in_units accept scalars, lists and arrays', 'roundtrip:exception:' + c['val']):
                    w = uc.set_in_units(x, e1)
                    back = uc.get_in_units(w, e1)
                    rec.close(0.0, w, xa * vals[0], A_SET, 'set_in_units:' + c['val'], rtol=1e-15, expr=e1, config=ck)
                    rec.close(0.0, back, xa, A_ROUNDTRIP, 'roundtrip:' + c['val'], rtol=1e-15, expr=e1, config=ck)
                    y = np.asarray(uc.get_in_units(w, e2), float)
                    ys.append((ck, cfg, y))
                if ci in (0, 2, 21):
                    with ctx.guard("set_literal accepts 'value unit'", 'set_literal:exception:' + c['val']):
                        lit = uc.set_literal(literal_of(x) + ' ' + e1)
                        rec.close(0.0, lit, xa * vals[0], A_LITERAL, 'set_literal:' + c['val'], rtol=1e-15,
                                  term=literal_of(x) + ' ' + e1)
        finally:
            restore_default(uc)
        rec.check(np.array_equal(np.asarray(x, float), x_before) if isinstance(x, (np.ndarray, list)) else True,
                  'conversion does not modify its argument', 'roundtrip:mutates-input')
        if not ys:
            continue
        ck0, cfg0, ref = ys[0]
        with np.errstate(all='ignore'):
            pred = xa * (q1.v / q2.v)
        rec.close(0.0, ref, pred, C_SI, 'differential:si-prediction', rtol=1e-7 if inexact else 1e-12, e1=e1, e2=e2, config=cfg0)
        for ck, cfg, y in ys[1:]:
            rec.close(0.0, y, ref, C_DIFF, 'differential:' + cfg[0], rtol=1e-12, e1=e1, e2=e2, config=cfg, reference=cfg0)
            rec.count('differential:comparisons')
            nz = ref != 0
            if nz.any() and y.shape == ref.shape:
                with np.errstate(all='ignore'):
                    spread = float(np.max(np.abs(y[nz] / ref[nz] - 1)))
                for b in (1e-15, 1e-14, 1e-13, 1e-12):
                    if spread <= b:
                        rec.count('differential:relative-spread<=%g' % b)
                        break


def run_named(ctx, uc):
    """Clause (d): exhaustive over the 29 admissible subsets x 3 name variants (+ random names when thorough)."""
    rec = ctx.rec
    nsub = len(U.admissible_choices())
    nfixed = nsub * G.N_VARIANTS
    n = nfixed + ctx.pick(0, 3 * nsub)
    for i in ctx.cases('named', n):
        rng = ctx.rng
        j = i % nsub
        if i < nfixed:
            choice = G.named_choice(j, i // nsub)
        else:
            choice = G.random_choice(rng, j)
        sig = '+'.join(q for q in U.QUANTITIES if q in choice)
        rec.case(('named', sig, min(i // nsub, 3)), nontrivial=True, fp=fingerprint(sorted(choice.items())))
        rec.count('named:subset:' + sig)
        if i < nfixed:
            rec.count('named:enumerated-choices')
        if i % 11 == 0:
            rec.sample(dict(choice=choice))
        try:
            g = ctx.guard('working units can be chosen by name', f'named:{sig}:exception')
            with g:
                apply_config(uc, ('named', choice), rng)
            if g.exc is not None:
                continue
            for q, name in choice.items():
                key = f'named:{sig}:{q}-is-one'
                rec.close(1e-12, uc.unit[name], 1.0, D_ONE, key, choice=choice, unit=name)
                with ctx.guard(D_ONE, key + ':exception'):
                    rec.close(1e-12, uc.parse(name), 1.0, D_ONE, key, choice=choice, unit=name)
                    rec.close(1e-12, uc.set_in_units(1.0, name), 1.0, D_ONE, key, choice=choice, unit=name)
                    rec.close(1e-12, uc.get_in_units(1.0, name), 1.0, D_ONE, key, choice=choice, unit=name)
                rec.count('named:chosen-units-checked')
            check_table(rec, uc, f'table:named:{sig}')
        finally:
            restore_default(uc)


def run_configs(ctx, uc):
    """Unit-table consistency under default, SI and seeded random configurations."""
    rec = ctx.rec
    n = 2 + len(G.SEEDS) + ctx.pick(0, 40)
    for i in ctx.cases('configs', n):
        rng = ctx.rng
        if i == 0:
            cfg = ('default', dict(G.DEFAULT))
        elif i == 1:
            cfg = ('SI', None)
        elif i < 2 + len(G.SEEDS):
            cfg = ('seed', G.SEEDS[i - 2])
        else:
            cfg = ('seed', int(rng.integers(100, 2 ** 31)))
        rec.case(('config', cfg[0]), nontrivial=True, fp=fingerprint(cfg[0], cfg[1]))
        try:
            g = ctx.guard('working units can be chosen', 'reset:exception:' + cfg[0])
            with g:
                apply_config(uc, cfg)
            if g.exc is not None:
                continue
            base = base_of(uc)
            check_table(rec, uc, 'table:' + cfg[0])
            rec.count('configs:table-checked:' + cfg[0])
            if cfg[0] == 'SI':
                rec.close(0.0, base, np.ones(5), 'SI configuration: base units are one', 'table:SI:base')
            if cfg[0] == 'seed':
                lg = np.log10(base)
                rec.check(len(set(np.round(lg, 6))) == 5, 'harness: random configuration scales the five base units independently',
                          'harness:seed-degenerate', base=base)
            with ctx.guard('parse(None) and parse("scaled") are 1', 'parse:none'):
                rec.check(uc.parse(None) == 1 and uc.parse('scaled') == 1, "parse(None) = parse('scaled') = 1", 'parse:none')
                rec.close(0.0, uc.set_literal('3.5'), 3.5, 'set_literal without unit is the number itself', 'set_literal:no-unit')
        finally:
            restore_default(uc)


def run_styles(ctx, uc, style_mod):
    """Clause (e): every tabulated quantity of every style has the dimension it labels.  Three independent
    routes per entry: the oracle's dimension algebra over its own unit table; log-ratios of the entry's real
    value under one rescaled configuration per base unit; scaling under two seeded random configurations."""
    rec = ctx.rec
    nsets = ctx.pick(3, 6)
    n = len(U.STYLES) * nsets
    for i in ctx.cases('styles', n):
        rng = ctx.rng
        style = U.STYLES[i % len(U.STYLES)]
        sset = SCALE_SETS[(i // len(U.STYLES)) % len(SCALE_SETS)]
        rec.case(('style', style, sset), nontrivial=True, fp=fingerprint(style, sset))
        tab = None
        with ctx.guard('style table exists for each of the eight LAMMPS unit styles', f'style:{style}:exception'):
            tab = style_mod.unit(style)
        if tab is None:
            continue
        if i < 8:
            rec.sample(dict(style=style, table=dict(tab)))
        if style == 'lj':
            notnone = {k: v for k, v in tab.items() if v is not None}
            rec.check(not notnone, E_LJ, 'style:lj:not-none', entries=notnone)
            miss = [q for q in U.STYLE_REQUIRED if q not in tab]
            rec.check(not miss, "the 'lj' table lists every mechanical quantity", 'style:lj:missing', missing=miss)
            rec.count('style:lj-entries-checked', len(tab))
            continue
        entries = {}
        for qn in U.STYLE_DIMS:
            ent = tab.get(qn)
            if ent is None:
                if qn in U.STYLE_REQUIRED or qn in tab:
                    rec.fail(E_PRESENT, f'style:{style}:{qn}:absent', entry=ent)
                else:
                    rec.count('style:quantity-not-listed:' + style)
                continue
            rec.check(isinstance(ent, str), E_PRESENT, f'style:{style}:{qn}:absent', entry=ent)
            if isinstance(ent, str):
                entries[qn] = ent
        unknown = [q for q in tab if q not in U.STYLE_DIMS]
        rec.count('style:entries-of-unknown-quantity', len(unknown))
        mech = {qn: qn in U.STYLE_MECHANICAL for qn in entries}

        def clause(qn, m, e):
            return m if mech[qn] else e

        # route 1: the oracle's own dimension algebra over the hand-entered table
        for qn, ent in entries.items():
            key = f'style:{style}:{qn}:dimension'
            try:
                d = U.evaluate_si(ent).d
            except (KeyError, U.GrammarError) as e:
                rec.fail(clause(qn, E_ORACLE, X_ORACLE), key, entry=ent, error=e)
                continue
            rec.check(all(abs(a - b) < 1e-12 for a, b in zip(d, U.STYLE_DIMS[qn])), clause(qn, E_ORACLE, X_ORACLE),
                      key, entry=ent, dimension_LMTQK=d, expected_LMTQK=U.STYLE_DIMS[qn])
        # routes 2, 3: SI baseline, one rescaled configuration per base unit (m, kg, s, C), two random configurations
        cfgs = [('SI', None), ('named', {'length': sset[0]}), ('named', {'mass': sset[1]}), ('named', {'time': sset[2]}),
                ('named', {'charge': sset[3]}),
                ('seed', int(rng.integers(0, 10 ** 6))), ('seed', int(rng.integers(0, 10 ** 6)))]
        vals, bases = [], []
        try:
            for cfg in cfgs:
                apply_config(uc, cfg)
                bases.append(base_of(uc))
                row = {}
                for qn, ent in entries.items():
                    with ctx.guard('style entries are expressions of the unit grammar', f'style:{style}:{qn}:parse'):
                        row[qn] = float(uc.parse(ent))
                vals.append(row)
        except Exception:               # reset_units itself failed: judged by the named/configs groups
            rec.count('style:configuration-failed')
            continue
        finally:
            restore_default(uc)
        factors = tuple(bases[k + 1][k] for k in range(4))
        ok_scaling = bases[0] == (1.0,) * 5 and all(abs(math.log10(f)) > 0.1 for f in factors) and all(
            bases[k + 1][j] == 1.0 for k in range(4) for j in range(5) if j != k)
        if not ok_scaling:
            rec.count('style:rescaling-not-as-requested')        # reset_units is broken: clause (d) reports it
        for qn, ent in entries.items():
            if any(qn not in r for r in vals):
                continue
            key = f'style:{style}:{qn}:dimension'
            if ok_scaling:
                p = U.log_ratio_exponents(vals[0][qn], [vals[k][qn] for k in (1, 2, 3, 4)], factors)
                rec.close(1e-9, p, U.STYLE_DIMS[qn][:4], clause(qn, E_DIM, X_DIM), key, entry=ent, scaled_by=sset,
                          exponents_LMTQ=p)
                rec.count('style:mechanical-entries-by-log-ratio' if mech[qn] else 'style:other-entries-by-log-ratio')
            for k in (5, 6):
                pred = float(vals[0][qn] * U.scale_of(bases[k], U.STYLE_DIMS[qn]))
                rec.close(0.0, vals[k][qn], pred, clause(qn, E_SEED, X_SEED), key, rtol=1e-12, entry=ent, base=bases[k])
            if qn == 'volume':
                rec.count('style:volume-entries-checked')


LAYOUTS = ['C', 'F', 'transposed', 'swapaxes', 'sliced', 'negative-stride', 'broadcast', 'float32', 'int', 'nested-list']
LAYOUT_UNITS = ['angstrom', 'GPa', 'eV/angstrom^3', 'nm/ps', 'kg*m/s^2', 'mJ/m^2', None]
A_MODEL = 'value_unit(model(x, u)) = x with every element at its own index'


def make_layout(rng, kind, ndim):
    """An array of rank ndim whose memory order differs from its index order in the named way, and its plain
    C-ordered float64 twin (what the caller sees when indexing it)."""
    shape = tuple(int(k) for k in rng.integers(2, 5, ndim))
    base = rng.normal(size=shape) * 10 ** rng.uniform(-3, 3)
    if kind == 'C':
        x = np.ascontiguousarray(base)
    elif kind == 'F':
        x = np.asfortranarray(base)
    elif kind == 'transposed':
        x = np.ascontiguousarray(base.T).T                  # same values by index, axes reversed in memory
    elif kind == 'swapaxes':
        a, b = (0, ndim - 1)
        x = np.swapaxes(np.ascontiguousarray(np.swapaxes(base, a, b)), a, b)
    elif kind == 'sliced':
        big = rng.normal(size=tuple(2 * k + 1 for k in shape))
        sl = tuple(slice(1, 2 * k + 1, 2) for k in shape)
        big[sl] = base
        x = big[sl]
    elif kind == 'negative-stride':
        x = np.ascontiguousarray(base[::-1])[::-1]
    elif kind == 'broadcast':
        x = np.broadcast_to(base[:1].copy(), shape)
        base = np.array(x)
    elif kind == 'float32':
        x = np.asfortranarray(base.astype(np.float32))
        base = x.astype(float)
    elif kind == 'int':
        x = np.asfortranarray(rng.integers(-50, 50, shape))
        base = x.astype(float)
    elif kind == 'nested-list':
        x = base.tolist()
    else:
        raise ValueError(kind)
    assert np.array_equal(np.asarray(x, float), base)
    return x, np.array(base, float)


def run_layouts(ctx, uc):
    """Arrays whose memory order is not their index order, through set/get_in_units and through model()/value_unit()/
    error_unit(): every element stays at its own index."""
    rec = ctx.rec
    n = ctx.pick(140, 1400)
    for i in ctx.cases('layouts', n):
        rng = ctx.rng
        kind = LAYOUTS[i % len(LAYOUTS)]
        ndim = 1 + (i // len(LAYOUTS)) % 3
        unit = LAYOUT_UNITS[(i // 3) % len(LAYOUT_UNITS)]
        x, twin = make_layout(rng, kind, ndim)
        err = etwin = None
        if i % 2:
            st = rng.bit_generator.state
            err, etwin = make_layout(rng, kind, ndim)
            if np.shape(etwin) != np.shape(twin):
                err, etwin = (np.abs(twin.T).T * 0.01).tolist() if kind == 'nested-list' else None, np.abs(twin) * 0.01
                if err is None:
                    err = np.asfortranarray(etwin) if kind in ('F', 'float32', 'int') else np.ascontiguousarray(etwin.T).T
            else:
                etwin = np.abs(etwin)
                err = np.abs(np.asarray(err, float)).tolist() if kind == 'nested-list' else np.ascontiguousarray(etwin.T).T
        rec.case(('layout', kind, ndim, str(unit)), nontrivial=ndim > 1, fp=fingerprint(kind, ndim, str(unit), twin))
        rec.count('layout:' + kind)
        rec.count('layout:rank-%d' % ndim)
        keep = np.array(x, copy=True) if isinstance(x, np.ndarray) else None
        tol = 4e-7 if kind == 'float32' else 1e-14
        if unit is not None:
            with ctx.guard('set_in_units/get_in_units accept arrays of any memory layout', 'layout:roundtrip:exception:' + kind):
                w = uc.set_in_units(x, unit)
                rec.close(0.0, w, twin * uc.parse(unit), A_SET, 'layout:set_in_units:' + kind, rtol=tol)
                rec.close(0.0, uc.get_in_units(w, unit), twin, A_ROUNDTRIP, 'layout:roundtrip:' + kind, rtol=tol)
        with ctx.guard('model()/value_unit() accept arrays of any memory layout', 'layout:model:exception:' + kind):
            kw = dict(error=err) if err is not None else {}
            m = uc.model(x, unit, **kw)
            back = uc.value_unit(m)
            rec.check(np.shape(back) == twin.shape, 'value_unit(model(x, u)) has the shape of x', 'layout:model:shape:' + kind, got=np.shape(back), exp=twin.shape)
            if np.shape(back) == twin.shape:
                rec.close(0.0, back, twin, A_MODEL, 'layout:model:value:' + kind, rtol=tol)
            if err is not None:
                eb = uc.error_unit(m)
                rec.check(np.shape(eb) == etwin.shape, 'error_unit(model(x, u, error=e)) has the shape of e', 'layout:model:error-shape:' + kind)
                if np.shape(eb) == etwin.shape:
                    rec.close(0.0, eb, etwin, 'error_unit(model(x, u, error=e)) = e with every element at its own index', 'layout:model:error:' + kind, rtol=tol)
                rec.count('layout:with-error')
        if keep is not None:
            rec.check(np.array_equal(keep, x), 'conversion does not modify its argument', 'layout:mutates-input:' + kind)


def reach(rec, uc_mod, style_mod):
    """Anchored code actually executed (sys.monitoring line events)."""
    for label, fn, suffix in (('reset_units', uc_mod.reset_units, 'atomman/unitconvert.py'),
                              ('parse', getattr(uc_mod.parse, '__vf_real__', uc_mod.parse), 'atomman/unitconvert.py'),
                              ('set_literal', uc_mod.set_literal, 'atomman/unitconvert.py'),
                              ('style.unit', style_mod.unit, 'atomman/lammps/style.py')):
        try:
            src, lo = inspect.getsourcelines(fn)
        except (OSError, TypeError):
            continue
        rec.count('reach:lines:' + label, cover.hits(suffix, lo, lo + len(src) - 1))
        if label == 'reset_units':
            for k, line in enumerate(src):
                s = line.strip()
                for tag, pat in (('energy-fixes-mass', 'nu.kg = J'), ('energy-fixes-time', 'nu.s = ('), ('energy-fixes-length', 'nu.m = (')):
                    if s.startswith(pat):
                        rec.count('reach:reset_units:' + tag, int(cover.hit(suffix, lo + k)))


def run(ctx):
    import atomman  # noqa: F401
    import atomman.unitconvert as uc
    import atomman.lammps.style as style_mod
    rec = ctx.rec
    U.selfcheck()
    cover.start(['atomman/unitconvert.py', 'atomman/lammps/style.py'])
    install_monitor(rec, uc)
    restore_default(uc)
    rows = measure_base_logs(uc)
    assert len(rows) > 0
    G.set_base_logs(rows)
    rec.count('configurations-measured-for-the-magnitude-bound', len(rows))
    try:
        run_named(ctx, uc)
        run_configs(ctx, uc)
        run_styles(ctx, uc, style_mod)
        run_expressions(ctx, uc)
        run_layouts(ctx, uc)
    finally:
        restore_default(uc)
    reach(rec, uc, style_mod)
    for k, v in monitor.calls.items():
        if isinstance(v, int):
            rec.count('monitor_calls:' + k, v)
    assert monitor.calls.get('uc.parse:post_error', 0) == 0, monitor.calls.get('_post_tracebacks')

    # ---- coverage floors (merged over the workers) ---------------------------------
    q = ctx.quick
    rec.floor('monitor_calls:uc.parse', 20000)
    for k in LAYOUTS:
        rec.floor('layout:' + k, 10)
    rec.floor('layout:with-error', 50)
    rec.floor('clause:' + A_MODEL, 100)
    for cl, m in ((A_ROUNDTRIP, 10000), (A_SET, 10000), (A_LITERAL, 1000), (B_PARSE, 20000), (B_TABLE, 20000),
                  (C_DIFF, 10000), (C_SI, 500), (D_ONE, 87 * 4), (T_TABLE, 87 + 22), (E_DIM, 200), (E_SEED, 400),
                  (E_ORACLE, 200), (E_LJ, 3)):
        rec.floor('clause:' + cl, m)
    rec.floor('named:enumerated-choices', 87)
    for sub in U.admissible_choices():
        rec.floor('named:subset:' + '+'.join(sub), 3)
    rec.floor('config:default', 500)
    rec.floor('config:SI', 500)
    rec.floor('config:named', 5000)
    rec.floor('config:seed', 2000)
    rec.floor('configs:table-checked:seed', 20)
    for f, m in (('feature:a/b/c', 60), ('feature:a/b*c', 60), ('feature:a*b/c', 60), ('feature:product-with-power-factor', 200),
                 ('feature:parenthesised-chained-power', 20), ('feature:negative-exponent', 100),
                 ('feature:fractional-exponent', 100), ('feature:parenthesised-exponent', 50), ('feature:scientific-literal', 50),
                 ('feature:leading-dot-literal', 50), ('feature:unicode-name', 30), ('feature:power-of-parenthesis', 50),
                 ('ws-char:tab', 100), ('ws-char:newline', 100), ('ws-char:cr', 100)):
        rec.floor(f, m)
    for d in G.DEPTHS:
        rec.floor('depth:%d' % d, 150)
    for w in G.WS_CLASSES:
        rec.floor('ws:' + w, 250)
    for p in G.PAIR_CLASSES:
        rec.floor('pair:' + p, 250)
    for v in G.VALUE_CLASSES:
        rec.floor('value:' + v, 100)
    rec.floor('style:mechanical-entries-by-log-ratio', 200)
    rec.floor('style:other-entries-by-log-ratio', 60)
    for cl, m in ((X_DIM, 60), (X_SEED, 120), (X_ORACLE, 60)):
        rec.floor('clause:' + cl, m)
    rec.floor('style:lj-entries-checked', 16)
    rec.floor('reach:reset_units:energy-fixes-mass', 1)
    rec.floor('reach:reset_units:energy-fixes-time', 1)
    rec.floor('reach:reset_units:energy-fixes-length', 1)
    rec.floor('reach:lines:parse', 30 * rec.nshards)
    rec.floor('reach:lines:reset_units', 20 * rec.nshards)
