"""C10 - JSON/XML data-model round trip preserves values, shapes, units, system content."""
from __future__ import annotations

import io
import json
import os
import tempfile

import numpy as np

from ..core import fingerprint
from ..gen import cells
from ..oracle import c10_units as U

RULE = ('cases are assigned round-robin by index to (object kind, encoding dm|json|xml, shape/dtype class, unit '
        'choice, call form); numbers inside a class are random.  A case is non-trivial when it carries at least one '
        'non-zero value stored with a unit or a shape entry; distinct = fingerprint of the generated values + class.  '
        'Cross-configuration cases write under one working-unit configuration and read under another '
        '(default, SI, 4 named choices, random numericalunits seeds).  Round 4: group "types" = systems whose declared atom types '
        '(symbols / masses lists) are a stratified function of the index - all populated, one or two trailing types without atoms, a middle '
        'type without atoms, masses or symbols shorter than the type list, duplicate symbols, unnamed trailing type - crossed with the '
        'construction path (constructor, setters, atoms_ix selection, deepcopy, a system itself read from a model), the input form (lists, '
        'tuples, float32, integer positions, narrow integer dtypes) and the route (model, dump return/path/file object with format case and '
        'indent, record with key and index, Box/Atoms read from the system model); group "history" = two writes/reads in a row per entry '
        'point (same object edited in place, other instance with the same argument objects, default instance after a customised one, an '
        'existing object set from a model a second time) with everything kept from the first re-judged afterwards; group "forms" = the forms '
        'a bare value is handed to uc.model in.')
ASSUMPTIONS = ['quantities written with unit=None are exempt from the working-unit independence clause (as the property says)',
               'strings are alphabetic tags (XML cannot distinguish the text "1" from the number 1)',
               'file-like objects handed to the reader are binary (DataModelDict, a third-party package, refuses text-mode streams)',
               'explicit-unit SI values in vf/oracle/c10_units.py are correct to 5e-9 relative',
               'empty arrays and NaN/inf are not generated (a System cannot hold zero atoms; XML has no representation of an empty list)',
               'half-precision values are handed over without a unit only (numpy converts float16 / Python float in float16, which overflows)',
               'masses survive the text to 4 ulp; positions and cell to 64 eps x (cell size + |origin|), times cond(cell) when box-scaled',
               'ElasticConstants terms below 2e-9 of the largest are exempt (the class zeroes terms below 1e-9 of the largest)']

ENCS = ('dm', 'json', 'xml')
DEFAULT_CFG = dict(length='angstrom', mass='amu', energy='eV', charge='e')
CONFIGS = [('default', dict(DEFAULT_CFG)), ('SI', 'SI'),
           ('nm-kg-ps-C', dict(length='nm', mass='kg', time='ps', charge='C')),
           ('m-J-s', dict(length='m', energy='J', time='s')),
           ('pm-g-eV-e', dict(length='pm', mass='g', energy='eV', charge='e')),
           ('cm-J', dict(length='cm', energy='J')),
           ('seed-a', 11), ('seed-b', 4242), ('seed-c', 987654)]


def length_name(cfg):
    """Name of the working length unit of a configuration (None for random seeds)."""
    if cfg == 'SI':
        return 'm'
    if isinstance(cfg, dict):
        return cfg.get('length', 'm')
    return None


def set_config(uc, cfg):
    if isinstance(cfg, dict):
        uc.reset_units(**cfg)
    else:
        uc.reset_units(cfg)


# ------------------------------------------------------------------ helpers
def wrap_root(DM, m, root='q'):
    return DM([(root, m)])


def through(DM, m, enc, root=None):
    """Hand the model on as the DataModelDict itself, its JSON text or its XML text."""
    doc = m if root is None else wrap_root(DM, m, root)
    if enc == 'dm':
        out = DM(doc.json())          # an independent copy of the tree (same content)
        return doc, out, None
    text = doc.json() if enc == 'json' else doc.xml()
    return doc, text, text


def kind_of(a):
    k = np.asarray(a).dtype.kind
    return {'u': 'i', 'S': 'U', 'O': 'O'}.get(k, k)


def same(rec, got, exp, clause, key, rtol=1e-12, atol=0.0, **detail):
    """shape, dtype kind and values of got equal those of exp."""
    got = np.asarray(got)
    exp = np.asarray(exp)
    ok = rec.check(got.shape == exp.shape, clause + ': shape', key + ':shape', got=got.shape, expected=exp.shape, **detail)
    rec.check(kind_of(got) == kind_of(exp), clause + ': dtype kind', key + ':dtype', got=str(got.dtype), expected=str(exp.dtype), **detail)
    if not ok:
        return False
    if kind_of(exp) in 'UO':
        return rec.check(bool(np.array_equal(got.astype(str), exp.astype(str))), clause + ': values', key + ':values', got=got, expected=exp, **detail)
    if kind_of(exp) == 'b':
        return rec.check(bool(np.array_equal(got, exp)), clause + ': values', key + ':values', got=got, expected=exp, **detail)
    try:
        g = got.astype(float)
    except (TypeError, ValueError):
        return rec.check(False, clause + ': values', key + ':values', got=got, expected=exp, **detail)
    scale = np.abs(exp).max(initial=0.0)
    return rec.close(atol + rtol * scale, g, exp.astype(float), clause + ': values', key + ':values', **detail)


SHAPES = [('scalar', ()), ('len1', (1,)), ('vec', None), ('mat', None), ('rank3', None), ('one-one', (1, 1)), ('rank3-thin', None)]
DTYPES = ['float', 'int', 'float-integral', 'str', 'bool']


def gen_value(rng, shape_class, dtype):
    shape = dict(SHAPES)[shape_class]
    if shape is None:
        shape = {'vec': (int(rng.integers(2, 7)),), 'mat': (int(rng.integers(2, 5)), int(rng.integers(2, 5))),
                 'rank3': (int(rng.integers(2, 4)), 3, 3), 'rank3-thin': (int(rng.integers(2, 4)), 1, int(rng.integers(2, 4)))}[shape_class]
    if dtype == 'float':
        v = rng.normal(size=shape) * 10.0 ** rng.integers(-3, 4)
    elif dtype == 'int':
        v = rng.integers(-50, 50, size=shape)
    elif dtype == 'float-integral':
        v = rng.integers(-9, 9, size=shape).astype(float)
    elif dtype == 'bool':
        v = rng.random(size=shape) < 0.5
    else:
        letters = np.array(list('abcdefghjkmnpqrsuvwxyz'))
        v = np.array([''.join(rng.choice(letters, size=int(rng.integers(2, 5)))) for _ in range(int(np.prod(shape)) or 1)]).reshape(shape)
    return np.asarray(v) if shape != () else (v.item() if hasattr(v, 'item') else v)


LAYOUTS = ['C', 'F', 'transposed-view', 'strided-view', 'readonly']


def relayout(v, layout):
    """The same numbers in another memory layout (rank >= 2 only): the model must not depend on it."""
    v = np.asarray(v)
    if v.ndim < 2 or layout == 'C':
        return np.ascontiguousarray(v)
    if layout == 'F':
        return np.asfortranarray(v)
    if layout == 'transposed-view':
        return np.ascontiguousarray(v.transpose()).transpose()          # non-contiguous view with v's shape
    if layout == 'strided-view':
        big = np.zeros((2 * v.shape[0],) + v.shape[1:], dtype=v.dtype)
        big[::2] = v
        return big[::2]
    out = np.array(v)
    out.setflags(write=False)
    return out


# ------------------------------------------------------------------ workload pieces
def run_values(ctx, am, uc, DM):
    rec = ctx.rec
    n = ctx.pick(420, 8400)
    dims = ['length', 'pressure', 'energy', 'charge', 'force', 'impulse', 'stiffness']
    for i in ctx.cases('values', n):
        rng = ctx.rng
        enc = ENCS[i % 3]
        shape_class = SHAPES[(i // 3) % len(SHAPES)][0]
        dtype = DTYPES[(i // 21) % len(DTYPES)]
        if dtype in ('str', 'bool') and shape_class == 'scalar':
            dtype = 'float'
        v = gen_value(rng, shape_class, dtype)
        layout = LAYOUTS[(i // 7) % len(LAYOUTS)]
        if np.ndim(v) >= 2:
            v = relayout(v, layout)
            rec.count('values:layout:' + layout)
            if not v.flags['C_CONTIGUOUS']:
                rec.count('values:non-contiguous')
        with_unit = dtype == 'float' and (i // 105) % 2 == 0
        dim = dims[i % len(dims)]
        unames = U.names(dim)
        if dim in ('impulse', 'stiffness'):
            # only the expressions with two or more operators here (the one-operator ones are used in the cross-configuration group):
            # makes the floor on compound units in the text observer reachable whatever the seed
            unames = [u for u in unames if u.count('/') + u.count('*') >= 2]
        unit = unames[int(rng.integers(0, len(unames)))] if with_unit else None
        with_error = dtype == 'float' and (i % 4 == 1)
        err = np.abs(np.asarray(v)) * 0.01 if with_error else None
        sc = f'{shape_class}:{enc}'
        rec.case(('value', shape_class, dtype, enc, 'unit' if unit else 'nounit', 'err' if with_error else '-'),
                 nontrivial=True, fp=fingerprint(np.asarray(v), unit, enc, shape_class))
        if i < 21:
            rec.sample(dict(value=v, unit=unit, enc=enc))
        m = None
        with ctx.guard('uc.model builds a model of a value', f'value:model:{sc}'):
            m = uc.model(v, unit, err) if with_error else uc.model(v, unit)
        if m is None:
            continue
        back = berr = None
        with ctx.guard('uc.value_unit reads a model back', f'value:read:{sc}'):
            _, payload, text = through(DM, m, enc, 'q')
            node = DM(payload)['q']
            back = uc.value_unit(node)
            if with_error:
                berr = uc.error_unit(node)
        if back is None:
            continue
        rec.count('monitor:value-roundtrip')
        same(rec, back, v, 'value with units survives model -> ' + enc + ' -> value_unit', f'value:{sc}', rtol=1e-13, value=v, unit=unit)
        if with_error and berr is not None:
            same(rec, berr, err, 'error survives model -> ' + enc + ' -> error_unit', f'value:error:{sc}', rtol=1e-13)
        # independent text observer: the numbers in the JSON text are the physical values in the stated unit
        if enc == 'json' and unit is not None:
            stored = np.asarray(json.loads(text)['q']['value'], float).reshape(np.shape(v))
            # default configuration: working length = angstrom, energy = eV, charge = e (hence pressure eV/angstrom^3, force eV/angstrom)
            exp = U.from_default_working(np.asarray(v, float), dim, unit)
            if any(op in unit for op in ('/', '*')) and unit.count('/') + unit.count('*') >= 2:
                rec.count('values:compound-unit')
            rec.close(0.0, stored, exp, 'numbers in the text are the value expressed in the stated unit', 'value:text-numbers', rtol=U.RTOL, unit=unit)
            rec.check(json.loads(text)['q'].get('unit') == unit, 'the text names the unit used', 'value:text-unit')
            rec.count('monitor:text-observer')
    rec.floor('monitor:value-roundtrip', 100)
    rec.floor('monitor:text-observer', 10)
    rec.floor('values:non-contiguous', 20)
    rec.floor('values:compound-unit', 3)


def gen_system(rng, am, i, natoms=None, with_units=False, uc=None):
    """A system with tilted/rotated cell, origin, several types, missing symbols/masses and properties of
    int/float/str/bool dtype and rank 1-3.  Returns (system, description dict of the ground truth)."""
    kind = cells.KINDS[i % len(cells.KINDS)]
    cell = cells.gen_cell(rng, kind, cells.ORIGINS[(i // 9) % 3], 1.0)
    # handedness: a Box accepts left-handed vector sets (third vector reversed, two vectors exchanged); box-scaled storage
    # goes through the reciprocal vectors, whose sign follows the handedness
    hand = ['right', 'right', 'left-c', 'right', 'left-swap'][(i // 2) % 5]
    if hand != 'right':
        v_ = np.array(cell['vects'], float)
        if hand == 'left-c':
            v_[2] = -v_[2]
        else:
            v_ = v_[[1, 0, 2]]
        cell = dict(cell, vects=v_)
    if natoms is None:
        natoms = [1, 2, 3, 5, 9][(i // 3) % 5]
    ntypes = int(min(natoms, 1 + (i // 5) % 3))
    atype = np.concatenate([np.arange(1, ntypes + 1), rng.integers(1, ntypes + 1, size=natoms - ntypes)])
    rel = rng.uniform(-0.3, 1.3, (natoms, 3))
    pos = rel @ cell['vects'] + cell['origin']
    props = dict(charge=rng.normal(size=natoms), ival=rng.integers(-5, 50, natoms),
                 vel=rng.normal(size=(natoms, 3)), stress=rng.normal(size=(natoms, 3, 3)) * 0.01,
                 tag=gen_value(rng, 'vec', 'str')[:1].repeat(natoms) if natoms == 1 else np.array([f'{c}{c}x' for c in rng.choice(list('abcdefgh'), natoms)]),
                 flag=rng.random(natoms) < 0.5, imat=rng.integers(0, 9, (natoms, 2)))
    symclass = (i // 7) % 4
    syms = ['Al', 'Cu', 'Fe', 'Ni', 'Mg'][:ntypes]
    if symclass == 1:
        symbols = tuple([None] * ntypes)
    elif symclass == 2 and ntypes > 1:
        symbols = tuple(s if k != 1 else None for k, s in enumerate(syms))
    else:
        symbols = tuple(syms)
    massclass = (i // 11) % 4
    mvals = [float(x) for x in np.round(rng.uniform(1, 200, ntypes), 6)]
    if massclass == 0:
        masses = tuple(mvals)
    elif massclass == 1:
        masses = tuple([None] * ntypes)
    elif massclass == 2:
        masses = tuple([None] + mvals[1:])          # first missing, others present
    else:
        masses = tuple(mvals[:-1] + [None]) if ntypes > 1 else tuple(mvals)
    pbc = cells.PBCS[i % 8]
    box = am.Box(vects=cell['vects'], origin=cell['origin'])
    # hand the arrays over in a non-contiguous layout in two cases out of three (values kept in `truth` below)
    lay = ['C', 'F', 'transposed-view'][i % 3]
    pos = relayout(pos, lay)
    props['stress'] = relayout(props['stress'], lay)
    props['vel'] = relayout(props['vel'], lay)
    props['imat'] = relayout(props['imat'], lay)
    atoms = am.Atoms(atype=atype, pos=pos, **props)
    system = am.System(atoms=atoms, box=box, pbc=pbc, symbols=symbols, masses=masses, safecopy=True)
    truth = dict(vects=cell['vects'].copy(), origin=cell['origin'].copy(), atype=atype.copy(), pos=pos.copy(), rel=rel,
                 props={k: np.array(v, copy=True) for k, v in props.items()}, symbols=symbols, masses=masses,
                 pbc=pbc, natoms=natoms, kind=kind, L=cell['L'], hand=hand)
    return system, truth


def compare_system(rec, s2, truth, key, carried, tolpos, what):
    """s2 reproduces the ground truth for the carried properties."""
    L = truth['L']
    rec.close(1e-11 * (L + np.abs(truth['origin']).max()), s2.box.vects, truth['vects'], what + ': cell vectors', key + ':vects')
    rec.close(1e-11 * (L + np.abs(truth['origin']).max()), s2.box.origin, truth['origin'], what + ': origin', key + ':origin')
    rec.check(s2.natoms == truth['natoms'], what + ': atom count', key + ':natoms', got=s2.natoms)
    rec.check(bool(np.array_equal(np.asarray(s2.pbc, bool), np.asarray(truth['pbc'], bool))), what + ': periodic flags', key + ':pbc',
              got=s2.pbc, expected=truth['pbc'])
    rec.check(tuple(s2.symbols) == tuple(truth['symbols']), what + ': symbols', key + ':symbols', got=s2.symbols, expected=truth['symbols'])
    gm, em = tuple(s2.masses), tuple(truth['masses'])
    okm = len(gm) == len(em) and all((a is None and b is None) or (a is not None and b is not None and abs(a - b) <= 1e-12 * abs(b))
                                     for a, b in zip(gm, em))
    rec.check(okm, what + ': masses', key + ':masses', got=gm, expected=em)
    rec.check(list(s2.atoms.prop()) == list(carried), what + ': exactly the carried properties, in order', key + ':propnames',
              got=s2.atoms.prop(), expected=list(carried))
    for p in carried:
        if p not in s2.atoms.prop():
            continue
        exp = truth['atype'] if p == 'atype' else truth['pos'] if p == 'pos' else truth['props'][p]
        if p == 'pos':
            ok = rec.check(s2.atoms.pos.shape == exp.shape, what + ': pos shape', key + ':pos:shape')
            if ok:
                rec.close(tolpos, s2.atoms.pos, exp, what + ': positions', key + ':pos')
        else:
            # a vector property may be stored box-relative ('scaled'): atomman converts it like a position (origin subtracted,
            # cell matrix inverted, and back), so its rounding error is a few eps x cond(cell) x (|v| + |origin|).  1e-11 |v|
            # alone was exceeded once in 124 200 cases (one atom with |v| = 0.24 in a cell whose origin is 9e3 away: error
            # 2.6e-12 = 1.3 eps |origin|) - a false alarm of thorough sweep 5
            extra = 0.0
            if p == 'vel':
                extra = 64 * np.finfo(float).eps * np.linalg.cond(truth['vects']) * (np.abs(np.asarray(exp, float)).max(initial=0.0)
                                                                                      + np.abs(truth['origin']).max())
            same(rec, s2.atoms.view[p], exp, what + f': property {p}', key + f':prop:{p}', rtol=1e-11, atol=extra)


def run_box(ctx, am, uc, DM):
    rec = ctx.rec
    n = ctx.pick(162, 3240)
    for i in ctx.cases('box', n):
        rng = ctx.rng
        kind, oc, scale = cells.stratified(i)
        cell = cells.gen_cell(rng, kind, oc, [1.0, 1e-3, 1e3][(i // 27) % 3])
        enc = ENCS[i % 3]
        lu = U.names('length')[(i // 3) % len(U.names('length'))]
        box = am.Box(vects=cell['vects'], origin=cell['origin'])
        rec.case(('box', kind, oc, enc, lu), nontrivial=True, fp=fingerprint(cell['vects'], cell['origin'], lu, enc))
        b2 = None
        with ctx.guard('Box.model -> Box(model=...)', f'box:{enc}'):
            m = box.model(length_unit=lu)
            _, payload, text = through(DM, m, enc)
            b2 = am.Box(model=payload)
        if b2 is None:
            continue
        rec.count('monitor:box-roundtrip')
        tol = 1e-12 * (cell['L'] + np.abs(cell['origin']).max())
        rec.close(tol, b2.vects, cell['vects'], 'Box round trip: vectors', f'box:{enc}:vects', unit=lu)
        rec.close(tol, b2.origin, cell['origin'], 'Box round trip: origin', f'box:{enc}:origin', unit=lu)
        if enc == 'json':
            d = json.loads(text)['box']
            for name, exp in (('avect', cell['vects'][0]), ('bvect', cell['vects'][1]), ('cvect', cell['vects'][2]), ('origin', cell['origin'])):
                rec.close(1e-13 * cell['L'] * U.si('length', 'angstrom') / U.si('length', lu), np.asarray(d[name]['value'], float),
                          U.convert(exp, 'length', 'angstrom', lu), 'Box text: numbers are the vectors in the stated unit', 'box:text-numbers',
                          rtol=U.RTOL, name=name, unit=lu)
                rec.check(d[name].get('unit') == lu, 'Box text names the unit', 'box:text-unit')
    rec.floor('monitor:box-roundtrip', 50)


PROP_DIM = {'pos': 'length', 'charge': 'charge', 'vel': 'velocity', 'stress': 'pressure'}


def unit_choice(rng, i, carried, allow_scaled):
    """per-property unit: None, an explicit unit, or 'scaled' (vector properties of a System only)."""
    pu = {}
    for k, p in enumerate(carried):
        if p in ('atype', 'ival', 'tag', 'flag', 'imat'):
            pu[p] = None
            continue
        c = (i + k) % 4
        if p == 'pos':
            pu[p] = [None, 'angstrom', 'nm', 'scaled'][c] if allow_scaled else [None, 'angstrom', 'nm', 'pm'][c]
        elif p == 'vel':
            pu[p] = [None, 'scaled', None, 'scaled'][c] if allow_scaled else None
        elif p == 'charge':
            pu[p] = [None, 'e', 'C', 'e'][c]
        elif p == 'stress':
            pu[p] = [None, 'GPa', 'MPa', 'eV/angstrom^3'][c]
    return pu


def run_atoms_system(ctx, am, uc, DM):
    rec = ctx.rec
    n = ctx.pick(360, 7200)
    tmpdir = tempfile.mkdtemp(prefix='vf-c10-')
    try:
        for i in ctx.cases('system', n):
            rng = ctx.rng
            enc = ENCS[i % 3]
            obj = ['system-model', 'system-dump-load', 'atoms'][(i // 3) % 3]
            system, truth = gen_system(rng, am, i)
            extra = ['charge', 'ival', 'vel', 'stress', 'tag', 'flag', 'imat']
            sel = (i // 9) % 3
            if sel == 0:
                carried = ['atype', 'pos'] + extra
            elif sel == 1:
                keep = [e for e in extra if rng.random() < 0.5]
                carried = ['atype', 'pos'] + keep
            else:
                carried = ['atype', 'pos', 'vel', 'tag', 'stress']
            form = ['default', 'prop_name+unit', 'prop_unit'][(i // 27) % 3]
            pu = unit_choice(rng, i, carried, allow_scaled=(obj != 'atoms'))
            kw = {}
            if form == 'default':
                carried = ['atype', 'pos'] + extra
                pu = {p: None for p in carried}
            elif form == 'prop_name+unit':
                kw = dict(prop_name=list(carried), unit=[pu[p] for p in carried])
            else:
                kw = dict(prop_unit=dict((p, pu[p]) for p in carried))
            box_unit = [None, 'angstrom', 'nm', 'm'][(i // 5) % 4]
            sig = (obj, enc, form, truth['kind'], truth['natoms'], tuple(sorted(str(v) for v in pu.values())))
            rec.case(sig, nontrivial=True, fp=fingerprint(truth['vects'], truth['pos'], truth['props']['charge'], sig))
            if i < 27:
                rec.sample(dict(obj=obj, enc=enc, form=form, natoms=truth['natoms'], prop_unit=pu, box_unit=box_unit,
                                symbols=truth['symbols'], masses=truth['masses'], pbc=truth['pbc']))
            key = f'{obj}:{enc}'
            rec.context = dict(obj=obj, enc=enc, form=form, prop_unit={k_: str(v_) for k_, v_ in pu.items()}, box_unit=box_unit, kind=truth['kind'],
                               vects=np.asarray(truth['vects']).tolist(), origin=np.asarray(truth['origin']).tolist(), natoms=int(truth['natoms']))
            tolpos = 1e-10 * (truth['L'] + np.abs(truth['origin']).max())
            snapshot = {p: np.array(system.atoms.view[p], copy=True) for p in system.atoms.prop()}
            if obj == 'atoms':
                a2 = None
                with ctx.guard('Atoms.model -> Atoms(model=...)', key):
                    m = system.atoms.model(**{k: (list(v) if isinstance(v, list) else dict(v)) for k, v in kw.items()})
                    _, payload, text = through(DM, m, enc)
                    a2 = am.Atoms(model=payload)
                if a2 is None:
                    continue
                rec.count('monitor:atoms-roundtrip')
                rec.check(a2.natoms == truth['natoms'], 'Atoms round trip: atom count', key + ':natoms')
                rec.check(list(a2.prop()) == list(carried), 'Atoms round trip: exactly the carried properties', key + ':propnames', got=a2.prop(), expected=carried)
                for p in carried:
                    if p in a2.prop():
                        exp = truth['atype'] if p == 'atype' else truth['pos'] if p == 'pos' else truth['props'][p]
                        same(rec, a2.view[p], exp, f'Atoms round trip: property {p}', key + f':prop:{p}', rtol=1e-11)
                if form == 'default' and enc == 'json':
                    d = [q for q in json.loads(text)['atoms']['property'] if q['name'] == 'pos'][0]['data']
                    rec.check(d.get('unit') == 'angstrom', 'default Atoms model stores pos in angstrom (documented)', 'atoms:default-pos-unit', got=d.get('unit'))
            else:
                s2 = None
                with ctx.guard('System model round trip', key):
                    if obj == 'system-model':
                        m = system.model(box_unit=box_unit, **kw)
                        _, payload, text = through(DM, m, enc)
                        s2 = am.System(model=payload)
                    else:
                        via = ['return', 'path', 'fileobj'][(i // 81) % 3] if enc != 'dm' else 'return'
                        if enc == 'dm':
                            payload = system.dump('system_model', box_unit=box_unit, **kw)
                            text = None
                        elif via == 'return':
                            payload = text = system.dump('system_model', box_unit=box_unit, format=enc, **kw)
                        elif via == 'path':
                            path = os.path.join(tmpdir, f'case{i}.{enc}')
                            system.dump('system_model', f=path, box_unit=box_unit, **kw)      # format inferred from the extension
                            payload = path
                            text = open(path).read()
                        else:
                            buf = io.StringIO()
                            system.dump('system_model', f=buf, format=enc, box_unit=box_unit, **kw)
                            text = buf.getvalue()
                            payload = io.BytesIO(text.encode())
                        rec.count('via:' + via)
                        if text is not None:
                            head = text.lstrip()[:1]
                            rec.check(head == ('{' if enc == 'json' else '<'), 'dump wrote the requested encoding', 'system-dump:encoding', got=text[:40], enc=enc)
                        s2 = am.load('system_model', payload)
                        if via == 'path':
                            os.remove(path)
                if s2 is None:
                    continue
                rec.count('monitor:system-roundtrip')
                if any(v == 'scaled' for v in pu.values()):
                    rec.count('class:scaled-property')
                    if truth.get('hand', 'right') != 'right':
                        rec.count('class:scaled-property:left-handed-cell')
                if any(m_ is None for m_ in truth['masses']) and any(m_ is not None for m_ in truth['masses']):
                    rec.count('class:partial-masses')
                if truth['masses'] and truth['masses'][0] is None and any(m_ is not None for m_ in truth['masses']):
                    rec.count('class:first-mass-missing')
                if any(s_ is None for s_ in truth['symbols']):
                    rec.count('class:missing-symbol')
                if truth['natoms'] == 1:
                    rec.count('class:one-atom')
                compare_system(rec, s2, truth, key, carried, tolpos, 'System round trip')
                # text observer for scaled positions: stored numbers are the relative coordinates
                if enc == 'json' and text is not None and pu.get('pos') == 'scaled':
                    node = [q for q in json.loads(text)['atomic-system']['atoms']['property'] if q['name'] == 'pos'][0]['data']
                    stored = np.asarray(node['value'], float).reshape(-1, 3)
                    rec.close(1e-9 * (1 + np.abs(truth['origin']).max() / truth['L']), stored, truth['rel'],
                              'scaled positions in the text are the box-relative coordinates', 'system:text-scaled')
                    rec.count('monitor:text-scaled')
            # the operand is left as it was
            for p, v in snapshot.items():
                if not np.array_equal(system.atoms.view[p], v):
                    rec.fail('writing a model leaves the object unchanged', f'{obj}:operand-changed', prop=p)
            rec.check(True, 'writing a model leaves the object unchanged', f'{obj}:operand-changed')
            rec.context = None
    finally:
        import shutil
        rec.context = None
        shutil.rmtree(tmpdir, ignore_errors=True)
    for name, mn in (('monitor:system-roundtrip', 100), ('monitor:atoms-roundtrip', 50), ('class:scaled-property', 10), ('class:scaled-property:left-handed-cell', 4),
                     ('class:partial-masses', 5), ('class:first-mass-missing', 3), ('class:missing-symbol', 10),
                     ('class:one-atom', 5), ('via:path', 3), ('via:fileobj', 3), ('monitor:text-scaled', 1)):
        rec.floor(name, mn)


def spd6(rng):
    a = rng.normal(size=(6, 6))
    return a.T @ a + 0.5 * np.eye(6)


def system_cij(rng, cs):
    """Cij (in GPa) having the symmetry of crystal system cs, diagonally dominant (positive definite)."""
    c = np.zeros((6, 6))
    r = lambda lo, hi: float(rng.uniform(lo, hi))
    if cs == 'cubic':
        c11, c12, c44 = r(150, 300), r(50, 120), r(40, 120)
        c[:3, :3] = c12
        c[[0, 1, 2], [0, 1, 2]] = c11
        c[[3, 4, 5], [3, 4, 5]] = c44
    elif cs == 'hexagonal':
        c11, c12, c13, c33, c44 = r(150, 300), r(50, 100), r(40, 90), r(150, 300), r(30, 90)
        c[0, 0] = c[1, 1] = c11
        c[0, 1] = c[1, 0] = c12
        c[0, 2] = c[2, 0] = c[1, 2] = c[2, 1] = c13
        c[2, 2] = c33
        c[3, 3] = c[4, 4] = c44
        c[5, 5] = (c11 - c12) / 2
    elif cs == 'tetragonal':
        c11, c12, c13, c33, c44, c66 = r(150, 300), r(50, 100), r(40, 90), r(150, 300), r(30, 90), r(30, 90)
        c[0, 0] = c[1, 1] = c11
        c[0, 1] = c[1, 0] = c12
        c[0, 2] = c[2, 0] = c[1, 2] = c[2, 1] = c13
        c[2, 2] = c33
        c[3, 3] = c[4, 4] = c44
        c[5, 5] = c66
    elif cs == 'orthorhombic':
        d = [r(150, 300) for _ in range(3)] + [r(30, 90) for _ in range(3)]
        c[np.arange(6), np.arange(6)] = d
        for (a, b) in ((0, 1), (0, 2), (1, 2)):
            c[a, b] = c[b, a] = r(40, 100)
    else:
        raise ValueError(cs)
    return c


def run_elastic(ctx, am, uc, DM):
    rec = ctx.rec
    n = ctx.pick(120, 2400)
    systems = ['triclinic', 'cubic', 'hexagonal', 'tetragonal', 'orthorhombic']
    for i in ctx.cases('elastic', n):
        rng = ctx.rng
        enc = ENCS[i % 3]
        cs = systems[(i // 3) % len(systems)]
        unit = [None, 'GPa', 'MPa', 'eV/angstrom^3', 'bar'][(i // 15) % 5]
        cij_gpa = spd6(rng) * 40 if cs == 'triclinic' else system_cij(rng, cs)
        cij = uc.set_in_units(cij_gpa, 'GPa')
        rec.case(('elastic', cs, enc, str(unit)), nontrivial=True, fp=fingerprint(cij_gpa, cs, enc, unit))
        e2 = None
        with ctx.guard('ElasticConstants.model -> ElasticConstants(model=...)', f'elastic:{enc}'):
            ec = am.ElasticConstants(Cij=cij)
            m = ec.model(unit=unit, crystal_system=cs)
            _, payload, text = through(DM, m, enc)
            e2 = am.ElasticConstants(model=payload)
        if e2 is None:
            continue
        rec.count('monitor:elastic-roundtrip')
        rec.close(1e-10 * np.abs(cij).max(), e2.Cij, cij, 'ElasticConstants round trip: Cij', f'elastic:{enc}:Cij', unit=unit, crystal_system=cs)
        if enc == 'json' and unit is not None:
            node = json.loads(text)['elastic-constants']['Cij']
            stored = np.asarray(node['value'], float).reshape(6, 6)
            rec.close(1e-10 * np.abs(cij_gpa).max() * U.si('pressure', 'GPa') / U.si('pressure', unit), stored,
                      U.convert(cij_gpa, 'pressure', 'GPa', unit), 'ElasticConstants text: numbers are Cij in the stated unit',
                      'elastic:text-numbers', rtol=U.RTOL, unit=unit)
            rec.check(node.get('shape') == [6, 6], 'ElasticConstants text carries the shape', 'elastic:text-shape', got=node.get('shape'))
    rec.floor('monitor:elastic-roundtrip', 30)


def run_xconfig(ctx, am, uc, DM):
    """Write under working-unit configuration A, read under B: physical values agree for every quantity stored with a unit."""
    rec = ctx.rec
    n = ctx.pick(180, 3600)
    ncfg = len(CONFIGS)
    try:
        for i in ctx.cases('xconfig', n):
            rng = ctx.rng
            a = i % ncfg
            b = (a + 1 + (i // ncfg) % (ncfg - 1)) % ncfg            # always a different configuration
            (an, acfg), (bn, bcfg) = CONFIGS[a], CONFIGS[b]
            enc = ('json', 'xml')[(i // 2) % 2]
            obj = ['system', 'box', 'value', 'elastic'][(i // 4) % 4]
            rec.case(('xconfig', obj, enc, an, bn), nontrivial=True, fp=fingerprint(obj, enc, an, bn, i, ctx.seed))
            key = f'xconfig:{obj}:{enc}'
            # physical ground truth, in explicit units
            kind = cells.KINDS[i % len(cells.KINDS)]
            cell = cells.gen_cell(rng, kind, cells.ORIGINS[(i // 9) % 3], 1.0)        # angstrom
            natoms = [1, 2, 4, 7][(i // 3) % 4]
            rel = rng.uniform(-0.2, 1.2, (natoms, 3))
            pos_A = rel @ cell['vects'] + cell['origin']                                 # angstrom
            q_e = rng.normal(size=natoms)                                                # e
            s_gpa = rng.normal(size=(natoms, 3, 3))                                      # GPa
            vec_A = rng.normal(size=(natoms, 3)) @ cell['vects'] + cell['origin']        # a second position-like vector, angstrom
            cij_gpa = spd6(rng) * 30
            lu = ['angstrom', 'nm', 'pm', 'm'][i % 4]
            pu_pos = ['angstrom', 'nm', 'scaled'][(i // 5) % 3]
            pu_vec = ['scaled', 'nm'][(i // 7) % 2]
            pu_q = ['e', 'C'][i % 2]
            pu_s = ['GPa', 'MPa', 'eV/angstrom^3'][i % 3]
            imp_Ns = rng.normal(size=(natoms, 3)) * 1e-21                                # an impulse-like vector, N*s
            pu_imp = U.names('impulse')[i % len(U.names('impulse'))]                      # incl. 'eV/angstrom*ps': (a/b)*c
            k_Nm = rng.uniform(1, 50, natoms)                                             # a stiffness-like scalar, N/m
            pu_k = U.names('stiffness')[(i // 2) % len(U.names('stiffness'))]             # incl. 'eV/angstrom/angstrom'
            text = None
            la, lb = length_name(acfg), length_name(bcfg)

            def to_work(x):
                # lengths in working units of A: by the oracle's own factor when A names its length unit
                return U.convert(x, 'length', 'angstrom', la) if la else uc.set_in_units(x, 'angstrom')
            with ctx.guard('write a model under configuration A', key + ':write'):
                set_config(uc, acfg)
                if obj == 'system':
                    box = am.Box(vects=to_work(cell['vects']), origin=to_work(cell['origin']))
                    atoms = am.Atoms(atype=np.ones(natoms, int), pos=to_work(pos_A), charge=uc.set_in_units(q_e, 'e'),
                                     stress=uc.set_in_units(s_gpa, 'GPa'), site=to_work(vec_A),
                                     impulse=uc.set_in_units(imp_Ns, 'N*s'), spring=uc.set_in_units(k_Nm, 'N/m'))
                    sysA = am.System(atoms=atoms, box=box, symbols='Al')
                    text = sysA.dump('system_model', format=enc, box_unit=lu,
                                     prop_unit={'atype': None, 'pos': pu_pos, 'charge': pu_q, 'stress': pu_s, 'site': pu_vec,
                                                'impulse': pu_imp, 'spring': pu_k})
                elif obj == 'box':
                    m = am.Box(vects=to_work(cell['vects']), origin=to_work(cell['origin'])).model(length_unit=lu)
                    text = m.json() if enc == 'json' else m.xml()
                elif obj == 'value':
                    m = wrap_root(DM, uc.model(uc.set_in_units(s_gpa, 'GPa'), pu_s), 'q')
                    text = m.json() if enc == 'json' else m.xml()
                else:
                    m = am.ElasticConstants(Cij=uc.set_in_units(cij_gpa, 'GPa')).model(unit=pu_s)
                    text = m.json() if enc == 'json' else m.xml()
            if text is None:
                continue
            if enc == 'json':      # the text itself must not depend on the writer's configuration
                d = json.loads(text)
                if obj == 'box':
                    rec.close(1e-12 * cell['L'] * U.si('length', 'angstrom') / U.si('length', lu),
                              np.asarray(d['box']['bvect']['value'], float), U.convert(cell['vects'][1], 'length', 'angstrom', lu),
                              'text written under any configuration holds the physical value in the stated unit', 'xconfig:text-numbers',
                              rtol=1e-9, cfg=an)
                elif obj == 'system':
                    for q in d['atomic-system']['atoms']['property']:
                        if q['name'] == 'impulse':
                            rec.close(1e-12 * np.abs(imp_Ns).max() / U.si('impulse', pu_imp), np.asarray(q['data']['value'], float).reshape(-1, 3),
                                      U.convert(imp_Ns, 'impulse', 'N*s', pu_imp), 'text written under any configuration holds the physical value in the stated (compound) unit',
                                      'xconfig:text-numbers:compound', rtol=1e-8, cfg=an, unit=pu_imp)
                        elif q['name'] == 'spring':
                            rec.close(0.0, np.asarray(q['data']['value'], float).reshape(-1), U.convert(k_Nm, 'stiffness', 'N/m', pu_k),
                                      'text written under any configuration holds the physical value in the stated (compound) unit',
                                      'xconfig:text-numbers:compound', rtol=1e-8, cfg=an, unit=pu_k)
                    rec.count('monitor:xconfig-text-compound')
                elif obj == 'elastic':
                    rec.close(1e-9 * np.abs(cij_gpa).max() * U.si('pressure', 'GPa') / U.si('pressure', pu_s),
                              np.asarray(d['elastic-constants']['Cij']['value'], float).reshape(6, 6), U.convert(cij_gpa, 'pressure', 'GPa', pu_s),
                              'text written under any configuration holds the physical value in the stated unit', 'xconfig:text-numbers',
                              rtol=1e-9, cfg=an)
                rec.count('monitor:xconfig-text')
            with ctx.guard('read the model under configuration B', key + ':read'):
                set_config(uc, bcfg)
                tolL = 1e-9 * (cell['L'] + np.abs(cell['origin']).max())
                if lb and obj in ('system', 'box'):
                    # B names its length unit: the numbers read back are lengths in that unit (oracle's own factor table)
                    o2 = am.load('system_model', text) if obj == 'system' else am.Box(model=text)
                    b2_ = o2.box if obj == 'system' else o2
                    f = U.si('length', 'angstrom') / U.si('length', lb)
                    rec.close(tolL * f, b2_.vects, U.convert(cell['vects'], 'length', 'angstrom', lb),
                              'cell vectors read under B are the physical vectors in B\'s length unit', key + ':vects:named', rtol=U.RTOL, A=an, B=bn)
                    rec.close(tolL * f, b2_.origin, U.convert(cell['origin'], 'length', 'angstrom', lb),
                              'origin read under B is the physical origin in B\'s length unit', key + ':origin:named', rtol=U.RTOL, A=an, B=bn)
                    if obj == 'system':
                        rec.close(tolL * f, o2.atoms.pos, U.convert(pos_A, 'length', 'angstrom', lb),
                                  'positions read under B are the physical positions in B\'s length unit',
                                  key + ':pos:named:' + ('scaled' if pu_pos == 'scaled' else 'unit'), rtol=U.RTOL, A=an, B=bn)
                    rec.count('monitor:xconfig-named-length')
                if obj == 'system':
                    s2 = am.load('system_model', text)
                    rec.close(tolL, uc.get_in_units(s2.box.vects, 'angstrom'), cell['vects'], 'physical cell vectors independent of working units', key + ':vects', A=an, B=bn)
                    rec.close(tolL, uc.get_in_units(s2.box.origin, 'angstrom'), cell['origin'], 'physical origin independent of working units', key + ':origin', A=an, B=bn)
                    rec.close(tolL, uc.get_in_units(s2.atoms.pos, 'angstrom'), pos_A, 'physical positions independent of working units', key + ':pos:' + ('scaled' if pu_pos == 'scaled' else 'unit'), A=an, B=bn, unit=pu_pos)
                    rec.close(tolL * 3, uc.get_in_units(s2.atoms.site, 'angstrom'), vec_A, 'physical vector property independent of working units', key + ':site:' + ('scaled' if pu_vec == 'scaled' else 'unit'), A=an, B=bn, unit=pu_vec)
                    rec.close(1e-9 * np.abs(q_e).max(), uc.get_in_units(s2.atoms.charge, 'e'), q_e, 'physical charges independent of working units', key + ':charge', A=an, B=bn)
                    rec.close(1e-9 * np.abs(s_gpa).max(), uc.get_in_units(s2.atoms.stress, 'GPa'), s_gpa, 'physical tensor property independent of working units', key + ':stress', A=an, B=bn)
                    rec.close(1e-9 * np.abs(imp_Ns).max(), uc.get_in_units(s2.atoms.impulse, 'N*s'), imp_Ns, 'physical value stored with a compound unit independent of working units', key + ':compound-unit', A=an, B=bn, unit=pu_imp)
                    rec.close(0.0, uc.get_in_units(s2.atoms.spring, 'N/m'), k_Nm, 'physical value stored with a compound unit independent of working units', key + ':compound-unit', rtol=1e-9, A=an, B=bn, unit=pu_k)
                elif obj == 'box':
                    b2 = am.Box(model=text)
                    rec.close(tolL, uc.get_in_units(b2.vects, 'angstrom'), cell['vects'], 'physical cell vectors independent of working units', key + ':vects', A=an, B=bn)
                    rec.close(tolL, uc.get_in_units(b2.origin, 'angstrom'), cell['origin'], 'physical origin independent of working units', key + ':origin', A=an, B=bn)
                elif obj == 'value':
                    v2 = uc.value_unit(DM(text)['q'])
                    rec.close(1e-9 * np.abs(s_gpa).max(), uc.get_in_units(v2, 'GPa'), s_gpa, 'physical value independent of working units', key + ':value', A=an, B=bn)
                else:
                    e2 = am.ElasticConstants(model=text)
                    rec.close(1e-9 * np.abs(cij_gpa).max(), uc.get_in_units(e2.Cij, 'GPa'), cij_gpa, 'physical Cij independent of working units', key + ':Cij', A=an, B=bn)
                rec.count('monitor:xconfig-read')
                rec.count('xconfig:' + an + '->' + bn)
    finally:
        set_config(uc, DEFAULT_CFG)
    rec.floor('monitor:xconfig-read', 60)
    rec.floor('monitor:xconfig-text', 10)
    rec.floor('monitor:xconfig-named-length', 20)
    rec.floor('monitor:xconfig-text-compound', 5)


# ------------------------------------------------------------------ round 4: declared atom types, construction paths, input forms
EPS = float(np.finfo(float).eps)
EPS32 = float(np.finfo(np.float32).eps)


def masses_equal(got, exp, ulps=4):
    """None matches None; numbers agree to a few units in the last place (text round trip of a double is exact)."""
    return len(got) == len(exp) and all((a is None and b is None) or (a is not None and b is not None and abs(a - b) <= ulps * EPS * abs(b))
                                        for a, b in zip(got, exp))


def judge_content(rec, s2, T, key, what):
    """System content that does not live in the per-atom table: number of declared types, symbols, masses."""
    rec.check(s2.natypes == T['natypes'], what + ': number of atom types', key + ':natypes', got=s2.natypes, expected=T['natypes'],
              typeclass=T['typeclass'])
    rec.check(tuple(s2.atypes) == tuple(range(1, T['natypes'] + 1)), what + ': atom type list', key + ':atypes', got=s2.atypes)
    rec.check(tuple(s2.symbols) == tuple(T['symbols']), what + ': symbols', key + ':symbols', got=s2.symbols, expected=T['symbols'],
              typeclass=T['typeclass'])
    rec.check(masses_equal(tuple(s2.masses), tuple(T['masses'])), what + ': masses', key + ':masses', got=tuple(s2.masses),
              expected=T['masses'], typeclass=T['typeclass'])


POSFORMS = ['float64', 'list', 'float32', 'int']
SOURCES = ['direct', 'setters', 'sliced', 'deepcopy', 'reread']
ROUTES = ['model', 'dump-return', 'dump-path', 'dump-fileobj', 'record-index', 'sub-objects']
NARROW = ['int8', 'uint8', 'int16', 'uint16', 'int32', 'uint64']


def build_typed_system(rng, am, i, S):
    """A system whose declared atom types are a stratified function of i (vf/gen/c10_systems.py), built along one of
    several construction paths.  Returns (system, T) with T the ground truth (content + arrays)."""
    import copy
    natoms = [1, 2, 3, 5, 8][(i // 2) % 5]
    T = S.gen_types(rng, i, natoms)
    kind = cells.KINDS[i % len(cells.KINDS)]
    cell = cells.gen_cell(rng, kind, cells.ORIGINS[(i // 9) % 3], 1.0)
    posform = POSFORMS[(i // 3) % len(POSFORMS)]
    rel = rng.uniform(-0.3, 1.3, (natoms, 3))
    if (i // 4) % 3 == 0:
        rel[0] = [0.0, 1.0, 0.0]                                   # an atom exactly on the cell edges
    vects, origin = cell['vects'], cell['origin']
    boxform = ['array', 'list', 'float32'][(i // 5) % 3]
    if boxform == 'float32':
        vects, origin = vects.astype(np.float32).astype(float), origin.astype(np.float32).astype(float)
    pos = rel @ vects + origin
    if posform == 'int':
        pos = np.rint(pos)
    elif posform == 'float32':
        pos = pos.astype(np.float32).astype(float)
    if posform in ('int', 'float32'):
        rel = np.linalg.solve(vects.T, (pos - origin).T).T
    given_pos = {'float64': pos.copy(), 'list': pos.tolist(), 'float32': pos.astype(np.float32), 'int': pos.astype(int)}[posform]
    # a property set that differs from case to case (names, dtypes, ranks)
    bits = (i // 3) % 8
    props = {}
    if bits & 1:
        props['charge'] = rng.normal(size=natoms)
    if bits & 2:
        props['ival'] = rng.integers(0, 100, natoms).astype(NARROW[(i // 7) % len(NARROW)])
    if bits & 4:
        props['vel'] = rng.normal(size=(natoms, 3))
    if bits == 0 or bits == 7:
        props['w32'] = rng.normal(size=(natoms, 2)).astype(np.float32)
    props[f'extra{i % 4}'] = rng.normal(size=natoms) * 10.0 ** int(rng.integers(-6, 7))
    props['tag'] = np.array([f'{c}q{c}' for c in rng.choice(list('abcdefgh'), natoms)])
    pbc = cells.PBCS[(i // 2) % 8]
    given_pbc = [tuple(pbc), list(pbc), np.array(pbc, dtype=bool)][(i // 11) % 3]
    atype_given = [T['atype'].copy(), T['atype'].tolist(), T['atype'].astype('int8'), T['atype'].astype('uint64')][(i // 13) % 4]
    given_vects = vects.tolist() if boxform == 'list' else vects.astype(np.float32) if boxform == 'float32' else vects.copy()
    given_origin = origin.tolist() if boxform == 'list' else origin.astype(np.float32) if boxform == 'float32' else origin.copy()
    source = SOURCES[(i // 8) % len(SOURCES)]
    gs, gm = S.hand_over(T['given_symbols'], T['form']), S.hand_over(T['given_masses'], T['form'])
    truth = dict(T)
    truth.update(vects=vects.copy(), origin=origin.copy(), pos=pos.copy(), rel=rel, props={k: np.array(v, copy=True) for k, v in props.items()},
                 pbc=tuple(pbc), natoms=natoms, kind=kind, L=cell['L'], posform=posform, source=source, boxform=boxform)
    box = am.Box(vects=given_vects, origin=given_origin)
    if source == 'sliced':
        # two more atoms of one further type; taking them out again leaves that type declared but unpopulated
        k = T['natypes'] + 1
        atype_big = np.concatenate([T['atype'], [k, k]])
        pos_big = np.vstack([pos, rng.uniform(0, 1, (2, 3)) @ vects + origin])
        props_big = {}
        for name, v in props.items():
            pad = np.zeros((2,) + v.shape[1:], dtype=v.dtype) if v.dtype.kind != 'U' else np.array(['zz', 'zz'])
            props_big[name] = np.concatenate([v, pad])
        big = am.System(atoms=am.Atoms(atype=atype_big, pos=pos_big, **props_big), box=box, pbc=given_pbc,
                        symbols=list(T['symbols']) + ['Zr'])
        system = big.atoms_ix[np.arange(natoms)] if i % 2 else big.atoms_ix[big.atoms.atype < k]
        mlast = float(rng.uniform(1, 200))
        system.masses = list(T['masses']) + [mlast]
        truth.update(symbols=tuple(T['symbols']) + ('Zr',), masses=tuple(T['masses']) + (mlast,), natypes=k, trailing=T['trailing'] + 1)
        return system, truth
    atoms = am.Atoms(atype=atype_given, pos=given_pos, **props)
    if source == 'setters':
        system = am.System(atoms=atoms, box=box, pbc=given_pbc)
        if gs is not None:
            system.symbols = gs
        if gm is not None:
            system.masses = gm
    else:
        system = am.System(atoms=atoms, box=box, pbc=given_pbc, symbols=gs, masses=gm)
    if source == 'deepcopy':
        system = copy.deepcopy(system)
    elif source == 'reread':
        system = am.System(model=system.model())                   # second generation: a system that was itself read from a model
    return system, truth


def judge_typed(rec, s2, T, key, carried, pu, what, scaled_only_pos=True):
    """s2 reproduces T: content, cell, flags and every carried per-atom property."""
    judge_content(rec, s2, T, key, what)
    span = T['L'] + np.abs(T['origin']).max()
    rec.close(64 * EPS * span, s2.box.vects, T['vects'], what + ': cell vectors', key + ':vects')
    rec.close(64 * EPS * span, s2.box.origin, T['origin'], what + ': origin', key + ':origin')
    rec.check(s2.natoms == T['natoms'], what + ': atom count', key + ':natoms', got=s2.natoms)
    rec.check(bool(np.array_equal(np.asarray(s2.pbc, bool), np.asarray(T['pbc'], bool))), what + ': periodic flags', key + ':pbc',
              got=s2.pbc, expected=T['pbc'])
    rec.check(list(s2.atoms.prop()) == list(carried), what + ': exactly the carried properties, in order', key + ':propnames',
              got=s2.atoms.prop(), expected=list(carried))
    # positions: a unit conversion costs a few ulp of the coordinate; the box-relative form costs cond(cell) ulp of the span
    e = EPS32 if T['posform'] == 'float32' and pu.get('pos') != 'scaled' else EPS
    cond = float(np.linalg.cond(T['vects']))
    tolpos = 64 * e * span * (cond if pu.get('pos') == 'scaled' else 1.0)
    for p in carried:
        if p not in s2.atoms.prop():
            continue
        if p == 'pos':
            if rec.check(s2.atoms.pos.shape == T['pos'].shape, what + ': pos shape', key + ':pos:shape'):
                rec.close(tolpos, s2.atoms.pos, T['pos'], what + ': positions', key + ':pos:' + ('scaled' if pu.get('pos') == 'scaled' else 'unit'))
                rec.check(s2.atoms.pos.dtype.kind == 'f', what + ': positions are floats', key + ':pos:dtype', got=str(s2.atoms.pos.dtype))
        elif p == 'atype':
            same(rec, s2.atoms.atype, T['atype'], what + ': property atype', key + ':prop:atype', rtol=0.0)
        else:
            exp = T['props'][p]
            if pu.get(p) == 'scaled':
                rec.close(64 * EPS * span * cond, s2.atoms.view[p], exp, what + f': box-scaled property {p}', key + f':prop:{p}:scaled')
                continue
            rt = 8 * (EPS32 if exp.dtype == np.float32 and pu.get(p) else EPS)
            same(rec, s2.atoms.view[p], exp, what + f': property {p}', key + f':prop:{p[:5]}', rtol=rt)


def run_types(ctx, am, uc, DM):
    """Systems that declare more atom types than they populate (and the neighbouring classes), every construction path,
    every way of handing the model on."""
    from ..gen import c10_systems as S
    rec = ctx.rec
    n = ctx.pick(336, 6720)
    tmpdir = tempfile.mkdtemp(prefix='vf-c10t-')
    try:
        for i in ctx.cases('types', n):
            rng = ctx.rng
            enc = ENCS[i % 3]
            route = ROUTES[(i // 24) % len(ROUTES)]
            system, T = None, None
            with ctx.guard('a system with declared atom types is built', 'types:build'):
                system, T = build_typed_system(rng, am, i, S)
            if system is None:
                continue
            carried = list(system.atoms.prop())
            pu = {p: None for p in carried}
            form = ['default', 'prop_unit', 'prop_name+unit'][(i // 2) % 3]
            if form != 'default':
                pu['pos'] = ['angstrom', 'nm', 'scaled', None][(i // 3) % 4]
                if 'charge' in pu:
                    pu['charge'] = ['e', 'C'][(i // 5) % 2]
                if 'vel' in pu and (i // 7) % 2:
                    pu['vel'] = 'scaled'
                if 'w32' in pu:
                    pu['w32'] = [None, 'GPa'][(i // 5) % 2]
            kw = {} if form == 'default' else dict(prop_unit=dict(pu)) if form == 'prop_unit' else dict(prop_name=list(carried), unit=[pu[p] for p in carried])
            box_unit = [None, 'nm', 'angstrom', 'm', 'pm'][(i // 4) % 5]
            sig = ('types', T['typeclass'], T['source'], route, enc, form, T['symclass'], T['massclass'], T['natoms'])
            rec.case(sig, nontrivial=True, fp=fingerprint(T['vects'], T['pos'], T['atype'], sig))
            if i < 16:
                rec.sample(dict(typeclass=T['typeclass'], source=T['source'], route=route, enc=enc, atype=T['atype'], symbols=T['symbols'],
                                masses=T['masses'], given_symbols=T['given_symbols'], given_masses=T['given_masses'], prop_unit=pu, box_unit=box_unit))
            key = f'types:{route}:{enc}'
            # the system under test holds what its constructor documents (precondition of the round trip)
            judge_content(rec, system, T, 'types:precondition:' + T['source'], 'the system built holds the declared content')
            s2 = text = None
            sub = None
            variant = (i // 144) % 4
            with ctx.guard('System model round trip (declared types)', key):
                if route in ('model', 'sub-objects'):
                    m = system.model(box_unit=box_unit, **kw)
                    _, payload, text = through(DM, m, enc)
                    s2 = am.System(model=payload)
                    if route == 'sub-objects':
                        # the parts of the system model are themselves Box / Atoms models
                        sub = (am.Box(model=payload), am.Atoms(model=payload))
                elif route == 'dump-return':
                    if enc == 'dm':
                        payload = system.dump('system_model', box_unit=box_unit, **kw)
                    else:
                        fmt = [enc, enc.upper(), enc.capitalize(), enc][variant]
                        indent = [None, 2, 0, 4][(i // 3) % 4]
                        rec.count('types:indent' if indent is not None else 'types:no-indent')
                        rec.count('types:format-case' if fmt != enc else 'types:format-lower')
                        payload = text = system.dump('system_model', format=fmt, indent=indent, box_unit=box_unit, **kw)
                    s2 = am.load('system_model', payload)
                elif route == 'dump-path':
                    e2 = enc if enc != 'dm' else ('json', 'xml')[(i // 3) % 2]
                    if enc == 'dm':
                        # the extension says nothing: the format argument decides
                        path = os.path.join(tmpdir, f't{i}' + ['.dat', '', '.txt', '.model'][variant])
                        if variant % 2 == 0:
                            system.dump('system_model', f=path, format=e2, box_unit=box_unit, **kw)
                            rec.count('types:path-format-given')
                        else:
                            # "If format is not given and cannot be inferred, then it will be set to 'json'" (dump docstring)
                            e2 = 'json'
                            system.dump('system_model', f=path, box_unit=box_unit, **kw)
                            rec.count('types:path-format-not-inferable')
                            if os.path.getsize(path) == 0:
                                rec.fail('dump to a path whose extension names no format writes JSON (documented default)',
                                         'types:dump-path:format-not-inferable', extension=os.path.splitext(path)[1])
                                os.remove(path)
                                continue
                    else:
                        path = os.path.join(tmpdir, f't{i}.' + [e2, e2.upper(), e2.capitalize(), e2][variant])
                        system.dump('system_model', f=path, indent=[None, 2][(i // 3) % 2], box_unit=box_unit, **kw)
                        rec.count('types:path-extension')
                    text = open(path).read()
                    s2 = am.load('system_model', path)
                    os.remove(path)
                    enc_written = e2
                elif route == 'dump-fileobj':
                    buf = io.StringIO()
                    if enc == 'dm':
                        system.dump('system_model', f=buf, box_unit=box_unit, **kw)      # no format, nothing to infer it from: JSON (documented)
                        rec.count('types:fileobj-default-format')
                    else:
                        system.dump('system_model', f=buf, format=enc, indent=[None, 2][(i // 3) % 2], box_unit=box_unit, **kw)
                    text = buf.getvalue()
                    s2 = am.load('system_model', io.BytesIO(text.encode()))
                else:
                    # the system model sits inside a larger record next to another system; key and index select it
                    decoy = am.System(atoms=am.Atoms(atype=[1, 2], pos=rng.uniform(0, 1, (2, 3))), box=am.Box(), symbols=['He', 'Ne', 'Ar', 'Kr'],
                                      masses=[4.0, None, 39.9, None])
                    mine = system.model(box_unit=box_unit, **kw)['atomic-system']
                    other = decoy.model()['atomic-system']
                    index = (i // 3) % 2
                    rkey = ['atomic-system', 'relaxed-system'][(i // 6) % 2]
                    doc = DM([('record', DM([('id', 'case'), (rkey, [other, mine] if index else [mine, other]), ('note', 'kept')]))])
                    payload = doc if enc == 'dm' else doc.json() if enc == 'json' else doc.xml()
                    text = None if enc == 'dm' else payload
                    s2 = am.load('system_model', payload, key=rkey, index=index)
                    rec.count('types:record-index')
            if s2 is None:
                continue
            rec.count('monitor:types-roundtrip')
            rec.count('types:class:' + T['typeclass'])
            rec.count('types:source:' + T['source'])
            rec.count('types:posform:' + T['posform'])
            if T['trailing'] > 0:
                rec.count('types:trailing-unpopulated')
                if any(m_ is not None for m_ in T['masses'][T['natypes'] - T['trailing']:]):
                    rec.count('types:trailing-with-mass')
                if T['symbols'][-1] is None:
                    rec.count('types:trailing-unnamed')
            if len(T['populated']) < T['natypes'] - T['trailing']:
                rec.count('types:middle-unpopulated')
            if len(set(s_ for s_ in T['symbols'] if s_ is not None)) < sum(s_ is not None for s_ in T['symbols']):
                rec.count('types:duplicate-symbols')
            if T['massclass'] == 'tiny-huge':
                rec.count('types:mass-magnitudes')
            judge_typed(rec, s2, T, key, carried, pu, 'System round trip (declared types)')
            if sub is not None:
                b2, a2 = sub
                span = T['L'] + np.abs(T['origin']).max()
                rec.close(64 * EPS * span, b2.vects, T['vects'], 'the box part of a system model is a Box model', 'types:sub-box:vects')
                rec.close(64 * EPS * span, b2.origin, T['origin'], 'the box part of a system model is a Box model', 'types:sub-box:origin')
                rec.check(a2.natoms == T['natoms'] and list(a2.prop()) == carried, 'the atoms part of a system model is an Atoms model',
                          'types:sub-atoms:names', got=a2.prop())
                same(rec, a2.atype, T['atype'], 'the atoms part of a system model is an Atoms model', 'types:sub-atoms:atype', rtol=0.0)
                rec.count('monitor:types-sub-objects')
            # independent text observer: one symbol entry per declared type, in order; masses likewise when any is given
            if text is not None and (enc == 'json' or (route == 'dump-path' and enc == 'dm' and enc_written == 'json')
                                     or (route == 'dump-fileobj' and enc == 'dm')) and route != 'record-index':
                d = None
                try:
                    d = json.loads(text)['atomic-system']
                except ValueError:
                    rec.fail('the text written is JSON when JSON was requested or is the documented default', 'types:text-encoding', head=text[:40])
                if d is not None:
                    ts = d.get('atom-type-symbol', [])
                    ts = ts if isinstance(ts, list) else [ts]
                    rec.check(tuple(ts) == tuple(T['symbols']), 'the text lists one symbol per declared atom type', 'types:text-symbols',
                              got=ts, expected=T['symbols'], typeclass=T['typeclass'])
                    if any(m_ is not None for m_ in T['masses']):
                        tm = d.get('atom-type-mass', [])
                        tm = tm if isinstance(tm, list) else [tm]
                        rec.check(masses_equal(tuple(tm), tuple(T['masses'])), 'the text lists one mass per declared atom type', 'types:text-masses',
                                  got=tm, expected=T['masses'], typeclass=T['typeclass'])
                    rec.count('monitor:types-text')
            elif text is not None and enc == 'xml' and route != 'record-index':
                rec.check(text.lstrip().startswith('<'), 'the text written is XML when XML was requested', 'types:text-encoding', head=text[:40])
                rec.check(text.count('<atom-type-symbol') == T['natypes'], 'the text lists one symbol per declared atom type', 'types:text-symbols:xml',
                          got=text.count('<atom-type-symbol'), expected=T['natypes'])
                rec.count('monitor:types-text')
    finally:
        import shutil
        shutil.rmtree(tmpdir, ignore_errors=True)
    for name, mn in [('monitor:types-roundtrip', 250), ('monitor:types-text', 60), ('monitor:types-sub-objects', 20), ('types:trailing-unpopulated', 100),
                     ('types:trailing-with-mass', 20), ('types:trailing-unnamed', 20), ('types:middle-unpopulated', 15), ('types:duplicate-symbols', 15),
                     ('types:mass-magnitudes', 20), ('types:indent', 10), ('types:format-case', 5), ('types:path-extension', 10),
                     ('types:path-format-given', 5), ('types:path-format-not-inferable', 5), ('types:fileobj-default-format', 5), ('types:record-index', 20)] \
            + [('types:class:' + c, 20) for c in S.TYPECLASSES] + [('types:source:' + c, 30) for c in SOURCES] \
            + [('types:posform:' + c, 30) for c in POSFORMS]:
        rec.floor(name, mn)


# ------------------------------------------------------------------ round 4: call histories (state kept between calls, aliasing)
def zero_numbers(node):
    """Overwrite, in place, every number held in a model tree (lists are edited, not replaced)."""
    if isinstance(node, dict):
        for k in list(node.keys()):
            v = node[k]
            if isinstance(v, (dict, list)):
                zero_numbers(v)
            elif isinstance(v, (int, float)) and not isinstance(v, bool) and k not in ('natoms', 'shape'):
                node[k] = 0
    elif isinstance(node, list):
        for j, v in enumerate(node):
            if isinstance(v, (dict, list)):
                zero_numbers(v)
            elif isinstance(v, (int, float)) and not isinstance(v, bool):
                node[j] = 0


def state_equal(a, b):
    """Exact equality of two snapshots (dicts of arrays / tuples)."""
    if a.keys() != b.keys():
        return False
    for k in a:
        x, y = a[k], b[k]
        if isinstance(x, np.ndarray) or isinstance(y, np.ndarray):
            x, y = np.asarray(x), np.asarray(y)
            if x.shape != y.shape or x.dtype.kind != y.dtype.kind or not np.array_equal(x, y):
                return False
        elif x != y:
            return False
    return True


class ValueEntry:
    """uc.model / uc.value_unit / uc.error_unit on a bare value."""
    name = 'value'

    def __init__(self, am, uc, DM):
        self.am, self.uc, self.DM = am, uc, DM

    def make(self, rng, j, which):
        shape = [(3,), (2, 3), (2, 3, 3), (4,)][(j + (which == 'B')) % 4] if which != 'same' else None
        v = rng.normal(size=shape) * 10.0 ** int(rng.integers(-3, 4))
        return dict(v=v, err=np.abs(v) * 0.05), dict(v=v.copy(), err=np.abs(v) * 0.05)

    def kwargs(self, rng, j):
        return dict(units=['GPa', 'eV/angstrom^3', None, 'nm'][j % 4], with_error=bool(j % 2))

    def write(self, obj, kw):
        m = self.uc.model(obj['v'], kw.get('units'), obj['err'] if kw.get('with_error') else None)
        return self.DM([('q', m)])

    def read(self, payload, kw=None):
        node = self.DM(payload)['q']
        out = dict(v=self.uc.value_unit(node))
        if 'error' in node:
            out['err'] = self.uc.error_unit(node)
        return out

    def reset(self, existing, payload):
        return None

    def state(self, r):
        return {k: np.array(v, copy=True) for k, v in r.items()}

    def touch(self, r):
        for v in r.values():
            if isinstance(v, np.ndarray) and v.ndim:
                v[...] = -7.0

    def edit(self, obj, rng):
        obj['v'][...] = rng.normal(size=obj['v'].shape)
        obj['err'][...] = np.abs(obj['v']) * 0.02
        return dict(v=obj['v'].copy(), err=obj['err'].copy())

    def rebuild(self, truth):
        return dict(v=truth['v'].copy(), err=truth['err'].copy())

    def default(self, rng):
        v = rng.normal(size=(2, 2))
        return dict(v=v, err=None), dict(v=v.copy()), {}

    def judge(self, rec, r, truth, kw, key, what):
        same(rec, r['v'], truth['v'], what + ': value', key + ':value', rtol=8 * EPS)
        if kw.get('with_error'):
            if rec.check('err' in r, what + ': error entry present', key + ':error-missing'):
                same(rec, r['err'], truth['err'], what + ': error', key + ':error', rtol=8 * EPS)
        else:
            rec.check('err' not in r, what + ': no error entry when none was given', key + ':error-stale')


class BoxEntry:
    name = 'box'

    def __init__(self, am, uc, DM):
        self.am, self.uc, self.DM = am, uc, DM

    def _cell(self, rng, j):
        c = cells.gen_cell(rng, cells.KINDS[j % len(cells.KINDS)], cells.ORIGINS[(j // 2) % 3], 1.0)
        return dict(vects=c['vects'].copy(), origin=c['origin'].copy())

    def make(self, rng, j, which):
        t = self._cell(rng, j + (which == 'B'))
        return self.am.Box(vects=t['vects'], origin=t['origin']), t

    def kwargs(self, rng, j):
        return dict(length_unit=['nm', 'angstrom', 'm', 'pm'][j % 4])

    def write(self, obj, kw):
        return obj.model(**kw)

    def read(self, payload, kw=None):
        return self.am.Box(model=payload)

    def reset(self, existing, payload):
        existing.model(model=payload)               # an existing box takes the content of the model
        return existing

    def state(self, r):
        return dict(vects=np.array(r.vects, copy=True), origin=np.array(r.origin, copy=True))

    def touch(self, r):
        v, o = r.vects, r.origin                    # whatever is handed out is overwritten
        v[...] = -7.0
        o[...] = -7.0

    def edit(self, obj, rng):
        t = self._cell(rng, int(rng.integers(0, 9)))
        if rng.random() < 0.5:
            obj.set(vects=t['vects'], origin=t['origin'])
        else:
            obj.vects = t['vects']
            obj.origin = t['origin']
        return t

    def rebuild(self, truth):
        return self.am.Box(vects=truth['vects'], origin=truth['origin'])

    def default(self, rng):
        return self.am.Box(), dict(vects=np.eye(3), origin=np.zeros(3)), {}

    def judge(self, rec, r, truth, kw, key, what):
        span = np.abs(truth['vects']).max() + np.abs(truth['origin']).max()
        rec.close(64 * EPS * span, r.vects, truth['vects'], what + ': cell vectors', key + ':vects')
        rec.close(64 * EPS * span, r.origin, truth['origin'], what + ': origin', key + ':origin')


class AtomsEntry:
    name = 'atoms'

    def __init__(self, am, uc, DM):
        self.am, self.uc, self.DM = am, uc, DM

    def _truth(self, rng, natoms, names):
        t = dict(atype=rng.integers(1, 4, natoms), pos=rng.normal(size=(natoms, 3)) * 5)
        for nm in names:
            t[nm] = {'charge': lambda: rng.normal(size=natoms), 'vel': lambda: rng.normal(size=(natoms, 3)),
                     'stress': lambda: rng.normal(size=(natoms, 3, 3)), 'ival': lambda: rng.integers(-9, 9, natoms),
                     'tag': lambda: np.array([f'{c}w' for c in rng.choice(list('abcdef'), natoms)])}.get(nm, lambda: rng.normal(size=natoms))()
        return t

    def make(self, rng, j, which):
        if which == 'B':
            t = self._truth(rng, [2, 5, 1][j % 3], ['charge', 'vel', 'stress', 'other'])      # other sizes, one more property
        else:
            t = self._truth(rng, [3, 4, 6][j % 3], ['charge', 'vel', 'stress'] + [['ival'], ['tag'], []][j % 3])
        return self.rebuild(t), t

    def kwargs(self, rng, j):
        pu = {'atype': None, 'pos': ['nm', None, 'angstrom'][j % 3], 'charge': ['C', 'e'][j % 2], 'stress': ['GPa', 'eV/angstrom^3', None][(j // 2) % 3], 'vel': None}
        return dict(prop_unit=pu) if j % 2 else dict(prop_name=list(pu), unit=list(pu.values()))

    def carried(self, obj, kw):
        return list(kw['prop_unit']) if 'prop_unit' in kw else list(kw['prop_name']) if 'prop_name' in kw else list(obj.prop())

    def write(self, obj, kw):
        return obj.model(**kw)

    def read(self, payload, kw=None):
        return self.am.Atoms(model=payload)

    def reset(self, existing, payload):
        return None

    def state(self, r):
        return {p: np.array(r.view[p], copy=True) for p in r.prop()}

    def touch(self, r):
        for p in r.prop():
            if r.view[p].dtype.kind == 'f':
                r.view[p][...] = -7.0

    def edit(self, obj, rng):
        t = self._truth(rng, obj.natoms, [p for p in obj.prop() if p not in ('atype', 'pos')])
        for p, v in t.items():
            obj.view[p][...] = v                        # same arrays, new numbers
        return t

    def rebuild(self, truth):
        return self.am.Atoms(**{k: np.array(v, copy=True) for k, v in truth.items()})

    def default(self, rng):
        return self.am.Atoms(), dict(atype=np.array([1]), pos=np.zeros((1, 3))), {}

    def judge(self, rec, r, truth, kw, key, what):
        names = list(kw['prop_unit']) if 'prop_unit' in kw else list(kw['prop_name']) if 'prop_name' in kw else list(truth)
        rec.check(list(r.prop()) == names, what + ': exactly the carried properties, in order', key + ':propnames', got=r.prop(), expected=names)
        for p in names:
            if p in r.prop() and p in truth:
                same(rec, r.view[p], truth[p], what + f': property {p}', key + f':prop:{p}', rtol=8 * EPS)


class SystemEntry(AtomsEntry):
    name = 'system'

    def _truth(self, rng, natoms, names, j=0):
        t = AtomsEntry._truth(self, rng, natoms, names)
        c = cells.gen_cell(rng, cells.KINDS[int(rng.integers(0, len(cells.KINDS)))], cells.ORIGINS[j % 3], 1.0)
        t['pos'] = rng.uniform(-0.2, 1.2, (natoms, 3)) @ c['vects'] + c['origin']
        nat = int(t['atype'].max()) + int(rng.integers(0, 3))             # up to two declared types without atoms
        sym = [str(x) for x in rng.permutation(['Al', 'Cu', 'Fe', 'Ni', 'Mg', 'Ti'])[:nat]]
        if rng.random() < 0.3:
            sym[int(rng.integers(0, nat))] = None
        mas = [float(x) if rng.random() < 0.7 else None for x in rng.uniform(1, 200, nat)]
        t['_sys'] = dict(vects=c['vects'].copy(), origin=c['origin'].copy(), pbc=tuple(bool(x) for x in rng.random(3) < 0.5),
                         symbols=tuple(sym), masses=tuple(mas))
        return t

    def make(self, rng, j, which):
        if which == 'B':
            t = self._truth(rng, [2, 5, 1][j % 3], ['charge', 'vel', 'stress', 'other'], j + 1)
        else:
            t = self._truth(rng, [3, 4, 6][j % 3], ['charge', 'vel', 'stress'] + [['ival'], ['tag'], []][j % 3], j)
        return self.rebuild(t), t

    def kwargs(self, rng, j):
        pu = {'atype': None, 'pos': ['scaled', 'nm', None][j % 3], 'charge': ['C', 'e'][j % 2], 'stress': ['GPa', None][(j // 2) % 2],
              'vel': ['scaled', None][(j // 3) % 2]}
        kw = dict(prop_unit=pu) if j % 2 else dict(prop_name=list(pu), unit=list(pu.values()))
        kw['box_unit'] = ['nm', None, 'm'][(j // 2) % 3]
        return kw

    def write(self, obj, kw):
        return obj.dump('system_model', **kw) if len(kw) % 2 else obj.model(**kw)

    def read(self, payload, kw=None):
        return self.am.System(model=payload) if kw is None or 'prop_unit' in kw else self.am.load('system_model', payload)

    def state(self, r):
        d = {p: np.array(r.atoms.view[p], copy=True) for p in r.atoms.prop()}
        d.update(_vects=np.array(r.box.vects, copy=True), _origin=np.array(r.box.origin, copy=True), _pbc=tuple(bool(x) for x in r.pbc),
                 _symbols=tuple(r.symbols), _masses=tuple(r.masses))
        return d

    def touch(self, r):
        for p in r.atoms.prop():
            if r.atoms.view[p].dtype.kind == 'f':
                r.atoms.view[p][...] = -7.0
        r.box.vects[...] = -7.0
        r.pbc[...] = ~r.pbc

    def edit(self, obj, rng):
        names = [p for p in obj.atoms.prop() if p not in ('atype', 'pos')]
        t = self._truth(rng, obj.natoms, names, int(rng.integers(0, 3)))
        S = t['_sys']
        # keep the declared types consistent with what the object can hold: symbols first, then masses
        obj.box_set(vects=S['vects'], origin=S['origin'])               # the same Box object takes a new cell
        for p in ['atype', 'pos'] + names:
            obj.atoms.view[p][...] = t[p]
        obj.pbc = S['pbc']
        obj.masses = [None] * 0
        obj.symbols = S['symbols']
        obj.masses = S['masses']
        return t

    def rebuild(self, truth):
        S = truth['_sys']
        atoms = self.am.Atoms(**{k: np.array(v, copy=True) for k, v in truth.items() if k != '_sys'})
        return self.am.System(atoms=atoms, box=self.am.Box(vects=S['vects'], origin=S['origin']), pbc=S['pbc'], symbols=S['symbols'], masses=S['masses'])

    def default(self, rng):
        t = dict(atype=np.array([1]), pos=np.zeros((1, 3)), _sys=dict(vects=np.eye(3), origin=np.zeros(3), pbc=(True, True, True), symbols=(None,), masses=(None,)))
        return self.am.System(), t, {}

    def judge(self, rec, r, truth, kw, key, what):
        S = truth['_sys']
        names = list(kw['prop_unit']) if 'prop_unit' in kw else list(kw['prop_name']) if 'prop_name' in kw else [k for k in truth if k != '_sys']
        rec.check(list(r.atoms.prop()) == names, what + ': exactly the carried properties, in order', key + ':propnames', got=r.atoms.prop(), expected=names)
        span = np.abs(S['vects']).max() + np.abs(S['origin']).max()
        cond = float(np.linalg.cond(S['vects']))
        pu = kw.get('prop_unit') or dict(zip(kw.get('prop_name', []), kw.get('unit', [])))
        rec.close(64 * EPS * span, r.box.vects, S['vects'], what + ': cell vectors', key + ':vects')
        rec.close(64 * EPS * span, r.box.origin, S['origin'], what + ': origin', key + ':origin')
        rec.check(tuple(bool(x) for x in r.pbc) == S['pbc'], what + ': periodic flags', key + ':pbc', got=r.pbc, expected=S['pbc'])
        rec.check(tuple(r.symbols) == S['symbols'], what + ': symbols', key + ':symbols', got=r.symbols, expected=S['symbols'])
        rec.check(masses_equal(tuple(r.masses), S['masses']), what + ': masses', key + ':masses', got=tuple(r.masses), expected=S['masses'])
        rec.check(r.natypes == len(S['symbols']), what + ': number of atom types', key + ':natypes', got=r.natypes, expected=len(S['symbols']))
        for p in names:
            if p in r.atoms.prop() and p in truth:
                if pu.get(p) == 'scaled':
                    rec.close(64 * EPS * span * cond, r.atoms.view[p], truth[p], what + f': box-scaled property {p}', key + f':prop:{p}:scaled')
                else:
                    same(rec, r.atoms.view[p], truth[p], what + f': property {p}', key + f':prop:{p}', rtol=8 * EPS)


class ElasticEntry:
    name = 'elastic'

    def __init__(self, am, uc, DM):
        self.am, self.uc, self.DM = am, uc, DM

    def make(self, rng, j, which):
        cs = ['triclinic', 'cubic', 'hexagonal', 'orthorhombic'][(j + (which == 'B')) % 4]
        c = self.uc.set_in_units(spd6(rng) * 40 if cs == 'triclinic' else system_cij(rng, cs), 'GPa')
        if cs == 'triclinic' and (j // 2) % 2 == 0:
            c[0, 5] = c[5, 0] = 4e-9 * c.max()       # small, but above the 1e-9 (relative) below which the class zeroes terms
        given = [c.copy(), c.tolist(), np.asfortranarray(c), tuple(map(tuple, c))][(j // 4) % 4]      # array, nested list, other layout, tuples
        return self.am.ElasticConstants(Cij=given), dict(Cij=c.copy(), cs=cs)

    def kwargs(self, rng, j):
        return dict(unit=['GPa', None, 'eV/angstrom^3', 'MPa'][j % 4])

    def write(self, obj, kw):
        return obj.model(**kw)

    def read(self, payload, kw=None):
        return self.am.ElasticConstants(model=payload)

    def reset(self, existing, payload):
        existing.model(model=payload)
        return existing

    def state(self, r):
        return dict(Cij=np.array(r.Cij, copy=True))

    def touch(self, r):
        r.Cij[...] = -7.0

    def edit(self, obj, rng):
        c = self.uc.set_in_units(spd6(rng) * 25, 'GPa')
        obj.Cij = c.copy()
        return dict(Cij=c, cs='triclinic')

    def rebuild(self, truth):
        return self.am.ElasticConstants(Cij=truth['Cij'].copy())

    def default(self, rng):
        c = self.uc.set_in_units(system_cij(rng, 'cubic'), 'GPa')
        return self.am.ElasticConstants(C11=c[0, 0], C12=c[0, 1], C44=c[3, 3]), dict(Cij=c, cs='cubic'), {}

    def judge(self, rec, r, truth, kw, key, what):
        c = truth['Cij']
        big = np.abs(c) > 2e-9 * np.abs(c).max()          # the class zeroes terms below 1e-9 of the largest: exempt, counted
        got = np.asarray(r.Cij)
        rec.count('history:elastic:exempt-near-zero-terms', int((~big & (c != 0)).sum()))
        rec.count('history:elastic:small-term-above-threshold', int((big & (np.abs(c) < 1e-8 * np.abs(c).max())).sum()))
        if rec.check(got.shape == (6, 6), what + ': shape', key + ':shape'):
            rec.close(64 * EPS * np.abs(c).max(), got[big], c[big], what + ': Cij', key + ':Cij')


HISTS = ['same-object-edited', 'other-instance', 'default-after-custom', 'reset-existing']


def run_history(ctx, am, uc, DM):
    """What one call leaves behind must not reach the next: write/read A and keep everything; write/read B (the same object after
    in-place edits, another instance with the same argument objects, a default-constructed instance, an existing object set a
    second time); then judge B against its own ground truth and re-judge everything kept from A."""
    rec = ctx.rec
    entries = [c(am, uc, DM) for c in (ValueEntry, BoxEntry, AtomsEntry, SystemEntry, ElasticEntry)]
    n = ctx.pick(240, 4800)
    tmpdir = tempfile.mkdtemp(prefix='vf-c10h-')
    for i in ctx.cases('history', n):
        rng = ctx.rng
        E = entries[i % 5]
        enc = ENCS[(i // 5) % 3]
        hist = HISTS[(i // 15) % 4]
        j = i // 60 + (i // 5)
        key = f'history:{E.name}'
        rec.case(('history', E.name, enc, hist, j % 12), nontrivial=True, fp=fingerprint(E.name, enc, hist, i, ctx.seed))

        via = 'object' if enc == 'dm' else ['text', 'path', 'fileobj'][(i // 20) % 3]

        def pay(m, tag):
            # a factory, because a file object can be read only once
            if enc == 'dm':
                return lambda: m
            text = m.json() if enc == 'json' else m.xml()
            if via == 'text':
                return lambda: text
            if via == 'fileobj':
                return lambda: io.BytesIO(text.encode())
            path = os.path.join(tmpdir, f'h{i}{tag}.{enc}')
            with open(path, 'w') as fh:
                fh.write(text)
            return lambda: path
        done = False
        with ctx.guard('a sequence of model writes and reads', key + ':' + hist):
            A, tA = E.make(rng, j, 'A')
            kw = E.kwargs(rng, j)
            kw0 = {k: (dict(v) if isinstance(v, dict) else list(v) if isinstance(v, list) else v) for k, v in kw.items()}
            mA = E.write(A, kw)
            textA = mA.json()
            pA = pay(mA, 'a')
            rA = E.read(pA(), kw)
            E.judge(rec, rA, tA, kw0, key + ':first', f'{E.name} history, first round trip')
            keptA = E.state(rA)
            # ---- second call
            if hist == 'same-object-edited':
                tB = E.edit(A, rng)                      # the very same object(s), new numbers; the same argument objects
                B, kwB = A, kw
            elif hist == 'other-instance':
                B, tB = E.make(rng, j, 'B')
                kwB = kw                                 # the caller's lists / dicts are used again as they are now
            elif hist == 'default-after-custom':
                B, tB, kwB = E.default(rng)
            else:
                B, tB = E.make(rng, j + 1, 'A')
                kwB = E.kwargs(rng, j + 1)
            kwB0 = {k: (dict(v) if isinstance(v, dict) else list(v) if isinstance(v, list) else v) for k, v in kwB.items()}
            if hist != 'default-after-custom':
                # what the unit table says for B is what it says at the time of the call (pos: None means angstrom, documented)
                pass
            mB = E.write(B, kwB)
            pB = pay(mB, 'b')
            if hist == 'reset-existing':
                target = E.read(pA(), kw)                # an object that already holds A ...
                rB = E.reset(target, pB())               # ... takes B's model
                if rB is None:
                    rB = E.read(pB(), kwB)
                else:
                    rec.count('history:reset-existing-object')
            else:
                rB = E.read(pB(), kwB)
            E.judge(rec, rB, tB, kwB0, key + ':second:' + hist, f'{E.name} history, second round trip ({hist})')
            # ---- everything kept from A is still A
            rec.check(mA.json() == textA, 'a model handed out earlier is not changed by later calls or by editing its source', key + ':kept-model:' + hist)
            rec.check(state_equal(E.state(rA), keptA), 'an object read earlier is not changed by later calls', key + ':kept-result:' + hist)
            # ---- the same call with equal arguments gives the same model, whatever happened in between
            A2 = E.rebuild(tA)
            kw2 = {k: (dict(v) if isinstance(v, dict) else list(v) if isinstance(v, list) else v) for k, v in kw0.items()}
            rec.check(E.write(A2, kw2).json() == textA, 'the same call with equal arguments gives the same model again', key + ':repeat:' + hist)
            r3 = E.read(pA(), kw)
            rec.check(state_equal(E.state(r3), keptA), 'reading the same model again gives the same object', key + ':reread:' + hist)
            # ---- results do not alias the model, in either direction
            E.touch(r3)
            r4 = E.read(pA(), kw)
            rec.check(state_equal(E.state(r4), keptA), 'overwriting what was read does not change the model it was read from', key + ':result-aliases-model')
            if enc == 'dm':
                zero_numbers(mA)
                rec.check(state_equal(E.state(r4), keptA) and state_equal(E.state(rA), keptA), 'overwriting the model does not change what was read from it',
                          key + ':model-aliases-result')
                rec.count('history:model-overwritten')
            done = True
        if done:
            rec.count('monitor:history')
            rec.count('history:via:' + via)
            rec.count('history:' + E.name)
            rec.count('history:' + hist)
    import shutil
    shutil.rmtree(tmpdir, ignore_errors=True)
    rec.floor('monitor:history', 200)
    for v in ('object', 'text', 'path', 'fileobj'):
        rec.floor('history:via:' + v, 30)
    for e in entries:
        rec.floor('history:' + e.name, 40)
    for h in HISTS:
        rec.floor('history:' + h, 50)
    rec.floor('history:reset-existing-object', 15)
    rec.floor('history:elastic:small-term-above-threshold', 10)
    rec.floor('history:model-overwritten', 60)


# ------------------------------------------------------------------ round 4: the forms a bare value is handed over in
VFORMS = ['list', 'tuple', 'nested-list', 'float32', 'float16', 'int8', 'uint8', 'int16', 'uint32', 'np-float64-scalar', 'np-float32-scalar',
          'np-int-scalar', 'zero-d-array', 'python-int', 'python-bool', 'int-large', 'extreme-magnitude', 'signed-zero', 'int-with-unit', 'list-with-unit',
          'keyword-units']


def gen_form(rng, form):
    """(value as handed over, reference array, takes a unit, relative rounding unit of the input's own precision)."""
    if form in ('list', 'tuple', 'list-with-unit', 'keyword-units'):
        a = rng.normal(size=int(rng.integers(2, 6))) * 10.0 ** int(rng.integers(-3, 4))
        return (tuple(a.tolist()) if form == 'tuple' else a.tolist()), a, form != 'tuple', EPS
    if form == 'nested-list':
        a = rng.normal(size=(int(rng.integers(2, 4)), 3))
        return a.tolist(), a, True, EPS
    if form in ('float32', 'float16'):
        a = (rng.normal(size=(int(rng.integers(2, 4)), 3)) * 10.0 ** int(rng.integers(-2, 3))).astype(form)
        # a float16 value is converted in float16 arithmetic (numpy's rule for array / Python float), where e.g. eV/angstrom^3 -> bar
        # overflows: half precision with a unit is not in the property's domain, half precision as stored numbers is
        return a, a.astype(float), form == 'float32', float(np.finfo(form).eps)
    if form in ('int8', 'uint8', 'int16', 'uint32'):
        info = np.iinfo(form)
        a = rng.integers(info.min, min(info.max, 2 ** 31), size=(int(rng.integers(2, 5)),) + ((2,) if rng.random() < 0.5 else ()), dtype=np.int64).astype(form)
        a.flat[0] = info.max
        a.flat[-1] = info.min
        return a, a.astype(np.int64), False, 0.0
    if form == 'np-float64-scalar':
        a = np.float64(rng.normal() * 100)
        return a, np.asarray(float(a)), True, EPS
    if form == 'np-float32-scalar':
        a = np.float32(rng.normal() * 100)
        return a, np.asarray(float(a)), True, EPS32
    if form == 'np-int-scalar':
        a = np.int32(rng.integers(-1000, 1000))
        return a, np.asarray(int(a)), False, 0.0
    if form == 'zero-d-array':
        a = np.array(rng.normal())
        return a, a.copy(), True, EPS
    if form == 'python-int':
        a = int(rng.integers(-1000, 1000))
        return a, np.asarray(a), False, 0.0
    if form == 'python-bool':
        a = bool(rng.random() < 0.5)
        return a, np.asarray(a), False, 0.0
    if form == 'int-large':
        a = rng.integers(2 ** 53 + 1, 2 ** 62, size=3) * np.array([1, -1, 1])      # beyond the integers a double holds exactly
        return a, a.copy(), False, 0.0
    if form == 'extreme-magnitude':
        a = rng.uniform(1, 10, size=4) * 10.0 ** rng.integers(-200, 200, 4) * rng.choice([-1, 1], 4)
        return a, a.copy(), True, EPS
    if form == 'signed-zero':
        a = np.array([0.0, -0.0, rng.normal(), 0.0])
        return a, a.copy(), True, EPS
    if form == 'int-with-unit':
        a = rng.integers(-50, 50, size=(2, 3))
        return a, a.astype(float), True, EPS
    raise ValueError(form)


def run_forms(ctx, am, uc, DM):
    rec = ctx.rec
    n = ctx.pick(252, 5040)
    for i in ctx.cases('forms', n):
        rng = ctx.rng
        form = VFORMS[i % len(VFORMS)]
        enc = ENCS[(i // len(VFORMS)) % 3]
        given, ref, may_unit, e = gen_form(rng, form)
        want_unit = may_unit and ((i // (3 * len(VFORMS))) % 2 == 0 or form in ('int-with-unit', 'list-with-unit', 'keyword-units'))
        dim = ['length', 'pressure', 'energy', 'force'][i % 4]
        unit = U.names(dim)[int(rng.integers(0, len(U.names(dim))))] if want_unit else None
        rec.case(('form', form, enc, 'unit' if unit else 'nounit'), nontrivial=True, fp=fingerprint(ref, form, enc, unit))
        back = None
        with ctx.guard('uc.model / uc.value_unit on a value handed over as ' + form, f'form:{form}:{enc}'):
            m = uc.model(given, units=unit) if form == 'keyword-units' else uc.model(given, unit)
            _, payload, text = through(DM, m, enc, 'q')
            back = uc.value_unit(DM(payload)['q'])
        if back is None:
            continue
        rec.count('monitor:forms')
        rec.count('forms:' + form)
        exp = ref.astype(float) if unit is not None else ref
        # with a unit the value is divided and multiplied by the same factor once each, in the precision of the input
        same(rec, back, exp, 'value handed over as ' + form + ' survives the round trip', f'form:{form}', rtol=(4 * e if unit is not None else 0.0), unit=unit, enc=enc)
        if enc == 'json' and unit is not None:
            stored = np.asarray(json.loads(text)['q']['value'], float).reshape(np.shape(ref))
            rec.close(0.0, stored, U.from_default_working(ref.astype(float), dim, unit), 'numbers in the text are the value expressed in the stated unit',
                      'form:text-numbers', rtol=U.RTOL + 4 * e, form=form, unit=unit)
            rec.count('monitor:forms-text')
    rec.floor('monitor:forms', 200)
    rec.floor('monitor:forms-text', 20)
    for f in VFORMS:
        rec.floor('forms:' + f, 9)


def run(ctx):
    import atomman as am
    import atomman.unitconvert as uc
    from DataModelDict import DataModelDict as DM
    set_config(uc, DEFAULT_CFG)
    run_values(ctx, am, uc, DM)
    run_box(ctx, am, uc, DM)
    run_atoms_system(ctx, am, uc, DM)
    run_elastic(ctx, am, uc, DM)
    run_xconfig(ctx, am, uc, DM)
    set_config(uc, DEFAULT_CFG)
    run_types(ctx, am, uc, DM)
    run_history(ctx, am, uc, DM)
    run_forms(ctx, am, uc, DM)
    rec = ctx.rec
    rec.check(abs(uc.unit['angstrom'] - 1.0) < 1e-12 and abs(uc.unit['eV'] - 1.0) < 1e-12,
              'harness: default working units restored at the end of the run', 'harness:units-restored')
