"""C10 - JSON/XML data-model round trip preserves values, shapes, units, system content."""
from __future__ import annotations

import io
import json
import os
import tempfile

import numpy as np

from ..core import fingerprint
from ..gen import cells
from ..oracle import c10_units as U

RULE = ('cases are assigned round-robin by index to (object kind, encoding dm|json|xml, shape/dtype class, unit '
        'choice, call form); numbers inside a class are random.  A case is non-trivial when it carries at least one '
        'non-zero value stored with a unit or a shape entry; distinct = fingerprint of the generated values + class.  '
        'Cross-configuration cases write under one working-unit configuration and read under another '
        '(default, SI, 4 named choices, random numericalunits seeds).')
ASSUMPTIONS = ['quantities written with unit=None are exempt from the working-unit independence clause (as the property says)',
               'strings are alphabetic tags (XML cannot distinguish the text "1" from the number 1)',
               'file-like objects handed to the reader are binary (DataModelDict, a third-party package, refuses text-mode streams)',
               'explicit-unit SI values in vf/oracle/c10_units.py are correct to 5e-9 relative',
               'empty arrays and NaN/inf are not generated']

ENCS = ('dm', 'json', 'xml')
DEFAULT_CFG = dict(length='angstrom', mass='amu', energy='eV', charge='e')
CONFIGS = [('default', dict(DEFAULT_CFG)), ('SI', 'SI'),
           ('nm-kg-ps-C', dict(length='nm', mass='kg', time='ps', charge='C')),
           ('m-J-s', dict(length='m', energy='J', time='s')),
           ('pm-g-eV-e', dict(length='pm', mass='g', energy='eV', charge='e')),
           ('cm-J', dict(length='cm', energy='J')),
           ('seed-a', 11), ('seed-b', 4242), ('seed-c', 987654)]


def length_name(cfg):
    """Name of the working length unit of a configuration (None for random seeds)."""
    if cfg == 'SI':
        return 'm'
    if isinstance(cfg, dict):
        return cfg.get('length', 'm')
    return None


def set_config(uc, cfg):
    if isinstance(cfg, dict):
        uc.reset_units(**cfg)
    else:
        uc.reset_units(cfg)


# ------------------------------------------------------------------ helpers
def wrap_root(DM, m, root='q'):
    return DM([(root, m)])


def through(DM, m, enc, root=None):
    """Hand the model on as the DataModelDict itself, its JSON text or its XML text."""
    doc = m if root is None else wrap_root(DM, m, root)
    if enc == 'dm':
        out = DM(doc.json())          # an independent copy of the tree (same content)
        return doc, out, None
    text = doc.json() if enc == 'json' else doc.xml()
    return doc, text, text


def kind_of(a):
    k = np.asarray(a).dtype.kind
    return {'u': 'i', 'S': 'U', 'O': 'O'}.get(k, k)


def same(rec, got, exp, clause, key, rtol=1e-12, atol=0.0, **detail):
    """shape, dtype kind and values of got equal those of exp."""
    got = np.asarray(got)
    exp = np.asarray(exp)
    ok = rec.check(got.shape == exp.shape, clause + ': shape', key + ':shape', got=got.shape, expected=exp.shape, **detail)
    rec.check(kind_of(got) == kind_of(exp), clause + ': dtype kind', key + ':dtype', got=str(got.dtype), expected=str(exp.dtype), **detail)
    if not ok:
        return False
    if kind_of(exp) in 'UO':
        return rec.check(bool(np.array_equal(got.astype(str), exp.astype(str))), clause + ': values', key + ':values', got=got, expected=exp, **detail)
    if kind_of(exp) == 'b':
        return rec.check(bool(np.array_equal(got, exp)), clause + ': values', key + ':values', got=got, expected=exp, **detail)
    try:
        g = got.astype(float)
    except (TypeError, ValueError):
        return rec.check(False, clause + ': values', key + ':values', got=got, expected=exp, **detail)
    scale = np.abs(exp).max(initial=0.0)
    return rec.close(atol + rtol * scale, g, exp.astype(float), clause + ': values', key + ':values', **detail)


SHAPES = [('scalar', ()), ('len1', (1,)), ('vec', None), ('mat', None), ('rank3', None), ('one-one', (1, 1)), ('rank3-thin', None)]
DTYPES = ['float', 'int', 'float-integral', 'str', 'bool']


def gen_value(rng, shape_class, dtype):
    shape = dict(SHAPES)[shape_class]
    if shape is None:
        shape = {'vec': (int(rng.integers(2, 7)),), 'mat': (int(rng.integers(2, 5)), int(rng.integers(2, 5))),
                 'rank3': (int(rng.integers(2, 4)), 3, 3), 'rank3-thin': (int(rng.integers(2, 4)), 1, int(rng.integers(2, 4)))}[shape_class]
    if dtype == 'float':
        v = rng.normal(size=shape) * 10.0 ** rng.integers(-3, 4)
    elif dtype == 'int':
        v = rng.integers(-50, 50, size=shape)
    elif dtype == 'float-integral':
        v = rng.integers(-9, 9, size=shape).astype(float)
    elif dtype == 'bool':
        v = rng.random(size=shape) < 0.5
    else:
        letters = np.array(list('abcdefghjkmnpqrsuvwxyz'))
        v = np.array([''.join(rng.choice(letters, size=int(rng.integers(2, 5)))) for _ in range(int(np.prod(shape)) or 1)]).reshape(shape)
    return np.asarray(v) if shape != () else (v.item() if hasattr(v, 'item') else v)


LAYOUTS = ['C', 'F', 'transposed-view', 'strided-view', 'readonly']


def relayout(v, layout):
    """The same numbers in another memory layout (rank >= 2 only): the model must not depend on it."""
    v = np.asarray(v)
    if v.ndim < 2 or layout == 'C':
        return np.ascontiguousarray(v)
    if layout == 'F':
        return np.asfortranarray(v)
    if layout == 'transposed-view':
        return np.ascontiguousarray(v.transpose()).transpose()          # non-contiguous view with v's shape
    if layout == 'strided-view':
        big = np.zeros((2 * v.shape[0],) + v.shape[1:], dtype=v.dtype)
        big[::2] = v
        return big[::2]
    out = np.array(v)
    out.setflags(write=False)
    return out


# ------------------------------------------------------------------ workload pieces
def run_values(ctx, am, uc, DM):
    rec = ctx.rec
    n = ctx.pick(420, 8400)
    dims = ['length', 'pressure', 'energy', 'charge', 'force', 'impulse', 'stiffness']
    for i in ctx.cases('values', n):
        rng = ctx.rng
        enc = ENCS[i % 3]
        shape_class = SHAPES[(i // 3) % len(SHAPES)][0]
        dtype = DTYPES[(i // 21) % len(DTYPES)]
        if dtype in ('str', 'bool') and shape_class == 'scalar':
            dtype = 'float'
        v = gen_value(rng, shape_class, dtype)
        layout = LAYOUTS[(i // 7) % len(LAYOUTS)]
        if np.ndim(v) >= 2:
            v = relayout(v, layout)
            rec.count('values:layout:' + layout)
            if not v.flags['C_CONTIGUOUS']:
                rec.count('values:non-contiguous')
        with_unit = dtype == 'float' and (i // 105) % 2 == 0
        dim = dims[i % len(dims)]
        unit = U.names(dim)[int(rng.integers(0, len(U.names(dim))))] if with_unit else None
        with_error = dtype == 'float' and (i % 4 == 1)
        err = np.abs(np.asarray(v)) * 0.01 if with_error else None
        sc = f'{shape_class}:{enc}'
        rec.case(('value', shape_class, dtype, enc, 'unit' if unit else 'nounit', 'err' if with_error else '-'),
                 nontrivial=True, fp=fingerprint(np.asarray(v), unit, enc, shape_class))
        if i < 21:
            rec.sample(dict(value=v, unit=unit, enc=enc))
        m = None
        with ctx.guard('uc.model builds a model of a value', f'value:model:{sc}'):
            m = uc.model(v, unit, err) if with_error else uc.model(v, unit)
        if m is None:
            continue
        back = berr = None
        with ctx.guard('uc.value_unit reads a model back', f'value:read:{sc}'):
            _, payload, text = through(DM, m, enc, 'q')
            node = DM(payload)['q']
            back = uc.value_unit(node)
            if with_error:
                berr = uc.error_unit(node)
        if back is None:
            continue
        rec.count('monitor:value-roundtrip')
        same(rec, back, v, 'value with units survives model -> ' + enc + ' -> value_unit', f'value:{sc}', rtol=1e-13, value=v, unit=unit)
        if with_error and berr is not None:
            same(rec, berr, err, 'error survives model -> ' + enc + ' -> error_unit', f'value:error:{sc}', rtol=1e-13)
        # independent text observer: the numbers in the JSON text are the physical values in the stated unit
        if enc == 'json' and unit is not None:
            stored = np.asarray(json.loads(text)['q']['value'], float).reshape(np.shape(v))
            # default configuration: working length = angstrom, energy = eV, charge = e (hence pressure eV/angstrom^3, force eV/angstrom)
            exp = U.from_default_working(np.asarray(v, float), dim, unit)
            if any(op in unit for op in ('/', '*')) and unit.count('/') + unit.count('*') >= 2:
                rec.count('values:compound-unit')
            rec.close(0.0, stored, exp, 'numbers in the text are the value expressed in the stated unit', 'value:text-numbers', rtol=U.RTOL, unit=unit)
            rec.check(json.loads(text)['q'].get('unit') == unit, 'the text names the unit used', 'value:text-unit')
            rec.count('monitor:text-observer')
    rec.floor('monitor:value-roundtrip', 100)
    rec.floor('monitor:text-observer', 10)
    rec.floor('values:non-contiguous', 20)
    rec.floor('values:compound-unit', 3)


def gen_system(rng, am, i, natoms=None, with_units=False, uc=None):
    """A system with tilted/rotated cell, origin, several types, missing symbols/masses and properties of
    int/float/str/bool dtype and rank 1-3.  Returns (system, description dict of the ground truth)."""
    kind = cells.KINDS[i % len(cells.KINDS)]
    cell = cells.gen_cell(rng, kind, cells.ORIGINS[(i // 9) % 3], 1.0)
    if natoms is None:
        natoms = [1, 2, 3, 5, 9][(i // 3) % 5]
    ntypes = int(min(natoms, 1 + (i // 5) % 3))
    atype = np.concatenate([np.arange(1, ntypes + 1), rng.integers(1, ntypes + 1, size=natoms - ntypes)])
    rel = rng.uniform(-0.3, 1.3, (natoms, 3))
    pos = rel @ cell['vects'] + cell['origin']
    props = dict(charge=rng.normal(size=natoms), ival=rng.integers(-5, 50, natoms),
                 vel=rng.normal(size=(natoms, 3)), stress=rng.normal(size=(natoms, 3, 3)) * 0.01,
                 tag=gen_value(rng, 'vec', 'str')[:1].repeat(natoms) if natoms == 1 else np.array([f'{c}{c}x' for c in rng.choice(list('abcdefgh'), natoms)]),
                 flag=rng.random(natoms) < 0.5, imat=rng.integers(0, 9, (natoms, 2)))
    symclass = (i // 7) % 4
    syms = ['Al', 'Cu', 'Fe', 'Ni', 'Mg'][:ntypes]
    if symclass == 1:
        symbols = tuple([None] * ntypes)
    elif symclass == 2 and ntypes > 1:
        symbols = tuple(s if k != 1 else None for k, s in enumerate(syms))
    else:
        symbols = tuple(syms)
    massclass = (i // 11) % 4
    mvals = [float(x) for x in np.round(rng.uniform(1, 200, ntypes), 6)]
    if massclass == 0:
        masses = tuple(mvals)
    elif massclass == 1:
        masses = tuple([None] * ntypes)
    elif massclass == 2:
        masses = tuple([None] + mvals[1:])          # first missing, others present
    else:
        masses = tuple(mvals[:-1] + [None]) if ntypes > 1 else tuple(mvals)
    pbc = cells.PBCS[i % 8]
    box = am.Box(vects=cell['vects'], origin=cell['origin'])
    # hand the arrays over in a non-contiguous layout in two cases out of three (values kept in `truth` below)
    lay = ['C', 'F', 'transposed-view'][i % 3]
    pos = relayout(pos, lay)
    props['stress'] = relayout(props['stress'], lay)
    props['vel'] = relayout(props['vel'], lay)
    props['imat'] = relayout(props['imat'], lay)
    atoms = am.Atoms(atype=atype, pos=pos, **props)
    system = am.System(atoms=atoms, box=box, pbc=pbc, symbols=symbols, masses=masses, safecopy=True)
    truth = dict(vects=cell['vects'].copy(), origin=cell['origin'].copy(), atype=atype.copy(), pos=pos.copy(), rel=rel,
                 props={k: np.array(v, copy=True) for k, v in props.items()}, symbols=symbols, masses=masses,
                 pbc=pbc, natoms=natoms, kind=kind, L=cell['L'])
    return system, truth


def compare_system(rec, s2, truth, key, carried, tolpos, what):
    """s2 reproduces the ground truth for the carried properties."""
    L = truth['L']
    rec.close(1e-11 * (L + np.abs(truth['origin']).max()), s2.box.vects, truth['vects'], what + ': cell vectors', key + ':vects')
    rec.close(1e-11 * (L + np.abs(truth['origin']).max()), s2.box.origin, truth['origin'], what + ': origin', key + ':origin')
    rec.check(s2.natoms == truth['natoms'], what + ': atom count', key + ':natoms', got=s2.natoms)
    rec.check(bool(np.array_equal(np.asarray(s2.pbc, bool), np.asarray(truth['pbc'], bool))), what + ': periodic flags', key + ':pbc',
              got=s2.pbc, expected=truth['pbc'])
    rec.check(tuple(s2.symbols) == tuple(truth['symbols']), what + ': symbols', key + ':symbols', got=s2.symbols, expected=truth['symbols'])
    gm, em = tuple(s2.masses), tuple(truth['masses'])
    okm = len(gm) == len(em) and all((a is None and b is None) or (a is not None and b is not None and abs(a - b) <= 1e-12 * abs(b))
                                     for a, b in zip(gm, em))
    rec.check(okm, what + ': masses', key + ':masses', got=gm, expected=em)
    rec.check(list(s2.atoms.prop()) == list(carried), what + ': exactly the carried properties, in order', key + ':propnames',
              got=s2.atoms.prop(), expected=list(carried))
    for p in carried:
        if p not in s2.atoms.prop():
            continue
        exp = truth['atype'] if p == 'atype' else truth['pos'] if p == 'pos' else truth['props'][p]
        if p == 'pos':
            ok = rec.check(s2.atoms.pos.shape == exp.shape, what + ': pos shape', key + ':pos:shape')
            if ok:
                rec.close(tolpos, s2.atoms.pos, exp, what + ': positions', key + ':pos')
        else:
            same(rec, s2.atoms.view[p], exp, what + f': property {p}', key + f':prop:{p}', rtol=1e-11, atol=1e-13 if p == 'vel_scaled' else 0.0)


def run_box(ctx, am, uc, DM):
    rec = ctx.rec
    n = ctx.pick(162, 3240)
    for i in ctx.cases('box', n):
        rng = ctx.rng
        kind, oc, scale = cells.stratified(i)
        cell = cells.gen_cell(rng, kind, oc, [1.0, 1e-3, 1e3][(i // 27) % 3])
        enc = ENCS[i % 3]
        lu = U.names('length')[(i // 3) % len(U.names('length'))]
        box = am.Box(vects=cell['vects'], origin=cell['origin'])
        rec.case(('box', kind, oc, enc, lu), nontrivial=True, fp=fingerprint(cell['vects'], cell['origin'], lu, enc))
        b2 = None
        with ctx.guard('Box.model -> Box(model=...)', f'box:{enc}'):
            m = box.model(length_unit=lu)
            _, payload, text = through(DM, m, enc)
            b2 = am.Box(model=payload)
        if b2 is None:
            continue
        rec.count('monitor:box-roundtrip')
        tol = 1e-12 * (cell['L'] + np.abs(cell['origin']).max())
        rec.close(tol, b2.vects, cell['vects'], 'Box round trip: vectors', f'box:{enc}:vects', unit=lu)
        rec.close(tol, b2.origin, cell['origin'], 'Box round trip: origin', f'box:{enc}:origin', unit=lu)
        if enc == 'json':
            d = json.loads(text)['box']
            for name, exp in (('avect', cell['vects'][0]), ('bvect', cell['vects'][1]), ('cvect', cell['vects'][2]), ('origin', cell['origin'])):
                rec.close(1e-13 * cell['L'] * U.si('length', 'angstrom') / U.si('length', lu), np.asarray(d[name]['value'], float),
                          U.convert(exp, 'length', 'angstrom', lu), 'Box text: numbers are the vectors in the stated unit', 'box:text-numbers',
                          rtol=U.RTOL, name=name, unit=lu)
                rec.check(d[name].get('unit') == lu, 'Box text names the unit', 'box:text-unit')
    rec.floor('monitor:box-roundtrip', 50)


PROP_DIM = {'pos': 'length', 'charge': 'charge', 'vel': 'velocity', 'stress': 'pressure'}


def unit_choice(rng, i, carried, allow_scaled):
    """per-property unit: None, an explicit unit, or 'scaled' (vector properties of a System only)."""
    pu = {}
    for k, p in enumerate(carried):
        if p in ('atype', 'ival', 'tag', 'flag', 'imat'):
            pu[p] = None
            continue
        c = (i + k) % 4
        if p == 'pos':
            pu[p] = [None, 'angstrom', 'nm', 'scaled'][c] if allow_scaled else [None, 'angstrom', 'nm', 'pm'][c]
        elif p == 'vel':
            pu[p] = [None, 'scaled', None, 'scaled'][c] if allow_scaled else None
        elif p == 'charge':
            pu[p] = [None, 'e', 'C', 'e'][c]
        elif p == 'stress':
            pu[p] = [None, 'GPa', 'MPa', 'eV/angstrom^3'][c]
    return pu


def run_atoms_system(ctx, am, uc, DM):
    rec = ctx.rec
    n = ctx.pick(360, 7200)
    tmpdir = tempfile.mkdtemp(prefix='vf-c10-')
    try:
        for i in ctx.cases('system', n):
            rng = ctx.rng
            enc = ENCS[i % 3]
            obj = ['system-model', 'system-dump-load', 'atoms'][(i // 3) % 3]
            system, truth = gen_system(rng, am, i)
            extra = ['charge', 'ival', 'vel', 'stress', 'tag', 'flag', 'imat']
            sel = (i // 9) % 3
            if sel == 0:
                carried = ['atype', 'pos'] + extra
            elif sel == 1:
                keep = [e for e in extra if rng.random() < 0.5]
                carried = ['atype', 'pos'] + keep
            else:
                carried = ['atype', 'pos', 'vel', 'tag', 'stress']
            form = ['default', 'prop_name+unit', 'prop_unit'][(i // 27) % 3]
            pu = unit_choice(rng, i, carried, allow_scaled=(obj != 'atoms'))
            kw = {}
            if form == 'default':
                carried = ['atype', 'pos'] + extra
                pu = {p: None for p in carried}
            elif form == 'prop_name+unit':
                kw = dict(prop_name=list(carried), unit=[pu[p] for p in carried])
            else:
                kw = dict(prop_unit=dict((p, pu[p]) for p in carried))
            box_unit = [None, 'angstrom', 'nm', 'm'][(i // 5) % 4]
            sig = (obj, enc, form, truth['kind'], truth['natoms'], tuple(sorted(str(v) for v in pu.values())))
            rec.case(sig, nontrivial=True, fp=fingerprint(truth['vects'], truth['pos'], truth['props']['charge'], sig))
            if i < 27:
                rec.sample(dict(obj=obj, enc=enc, form=form, natoms=truth['natoms'], prop_unit=pu, box_unit=box_unit,
                                symbols=truth['symbols'], masses=truth['masses'], pbc=truth['pbc']))
            key = f'{obj}:{enc}'
            tolpos = 1e-10 * (truth['L'] + np.abs(truth['origin']).max())
            snapshot = {p: np.array(system.atoms.view[p], copy=True) for p in system.atoms.prop()}
            if obj == 'atoms':
                a2 = None
                with ctx.guard('Atoms.model -> Atoms(model=...)', key):
                    m = system.atoms.model(**{k: (list(v) if isinstance(v, list) else dict(v)) for k, v in kw.items()})
                    _, payload, text = through(DM, m, enc)
                    a2 = am.Atoms(model=payload)
                if a2 is None:
                    continue
                rec.count('monitor:atoms-roundtrip')
                rec.check(a2.natoms == truth['natoms'], 'Atoms round trip: atom count', key + ':natoms')
                rec.check(list(a2.prop()) == list(carried), 'Atoms round trip: exactly the carried properties', key + ':propnames', got=a2.prop(), expected=carried)
                for p in carried:
                    if p in a2.prop():
                        exp = truth['atype'] if p == 'atype' else truth['pos'] if p == 'pos' else truth['props'][p]
                        same(rec, a2.view[p], exp, f'Atoms round trip: property {p}', key + f':prop:{p}', rtol=1e-11)
                if form == 'default' and enc == 'json':
                    d = [q for q in json.loads(text)['atoms']['property'] if q['name'] == 'pos'][0]['data']
                    rec.check(d.get('unit') == 'angstrom', 'default Atoms model stores pos in angstrom (documented)', 'atoms:default-pos-unit', got=d.get('unit'))
            else:
                s2 = None
                with ctx.guard('System model round trip', key):
                    if obj == 'system-model':
                        m = system.model(box_unit=box_unit, **kw)
                        _, payload, text = through(DM, m, enc)
                        s2 = am.System(model=payload)
                    else:
                        via = ['return', 'path', 'fileobj'][(i // 81) % 3] if enc != 'dm' else 'return'
                        if enc == 'dm':
                            payload = system.dump('system_model', box_unit=box_unit, **kw)
                            text = None
                        elif via == 'return':
                            payload = text = system.dump('system_model', box_unit=box_unit, format=enc, **kw)
                        elif via == 'path':
                            path = os.path.join(tmpdir, f'case{i}.{enc}')
                            system.dump('system_model', f=path, box_unit=box_unit, **kw)      # format inferred from the extension
                            payload = path
                            text = open(path).read()
                        else:
                            buf = io.StringIO()
                            system.dump('system_model', f=buf, format=enc, box_unit=box_unit, **kw)
                            text = buf.getvalue()
                            payload = io.BytesIO(text.encode())
                        rec.count('via:' + via)
                        if text is not None:
                            head = text.lstrip()[:1]
                            rec.check(head == ('{' if enc == 'json' else '<'), 'dump wrote the requested encoding', 'system-dump:encoding', got=text[:40], enc=enc)
                        s2 = am.load('system_model', payload)
                        if via == 'path':
                            os.remove(path)
                if s2 is None:
                    continue
                rec.count('monitor:system-roundtrip')
                if any(v == 'scaled' for v in pu.values()):
                    rec.count('class:scaled-property')
                if any(m_ is None for m_ in truth['masses']) and any(m_ is not None for m_ in truth['masses']):
                    rec.count('class:partial-masses')
                if truth['masses'] and truth['masses'][0] is None and any(m_ is not None for m_ in truth['masses']):
                    rec.count('class:first-mass-missing')
                if any(s_ is None for s_ in truth['symbols']):
                    rec.count('class:missing-symbol')
                if truth['natoms'] == 1:
                    rec.count('class:one-atom')
                compare_system(rec, s2, truth, key, carried, tolpos, 'System round trip')
                # text observer for scaled positions: stored numbers are the relative coordinates
                if enc == 'json' and text is not None and pu.get('pos') == 'scaled':
                    node = [q for q in json.loads(text)['atomic-system']['atoms']['property'] if q['name'] == 'pos'][0]['data']
                    stored = np.asarray(node['value'], float).reshape(-1, 3)
                    rec.close(1e-9 * (1 + np.abs(truth['origin']).max() / truth['L']), stored, truth['rel'],
                              'scaled positions in the text are the box-relative coordinates', 'system:text-scaled')
                    rec.count('monitor:text-scaled')
            # the operand is left as it was
            for p, v in snapshot.items():
                if not np.array_equal(system.atoms.view[p], v):
                    rec.fail('writing a model leaves the object unchanged', f'{obj}:operand-changed', prop=p)
            rec.check(True, 'writing a model leaves the object unchanged', f'{obj}:operand-changed')
    finally:
        import shutil
        shutil.rmtree(tmpdir, ignore_errors=True)
    for name, mn in (('monitor:system-roundtrip', 100), ('monitor:atoms-roundtrip', 50), ('class:scaled-property', 10),
                     ('class:partial-masses', 5), ('class:first-mass-missing', 3), ('class:missing-symbol', 10),
                     ('class:one-atom', 5), ('via:path', 3), ('via:fileobj', 3), ('monitor:text-scaled', 1)):
        rec.floor(name, mn)


def spd6(rng):
    a = rng.normal(size=(6, 6))
    return a.T @ a + 0.5 * np.eye(6)


def system_cij(rng, cs):
    """Cij (in GPa) having the symmetry of crystal system cs, diagonally dominant (positive definite)."""
    c = np.zeros((6, 6))
    r = lambda lo, hi: float(rng.uniform(lo, hi))
    if cs == 'cubic':
        c11, c12, c44 = r(150, 300), r(50, 120), r(40, 120)
        c[:3, :3] = c12
        c[[0, 1, 2], [0, 1, 2]] = c11
        c[[3, 4, 5], [3, 4, 5]] = c44
    elif cs == 'hexagonal':
        c11, c12, c13, c33, c44 = r(150, 300), r(50, 100), r(40, 90), r(150, 300), r(30, 90)
        c[0, 0] = c[1, 1] = c11
        c[0, 1] = c[1, 0] = c12
        c[0, 2] = c[2, 0] = c[1, 2] = c[2, 1] = c13
        c[2, 2] = c33
        c[3, 3] = c[4, 4] = c44
        c[5, 5] = (c11 - c12) / 2
    elif cs == 'tetragonal':
        c11, c12, c13, c33, c44, c66 = r(150, 300), r(50, 100), r(40, 90), r(150, 300), r(30, 90), r(30, 90)
        c[0, 0] = c[1, 1] = c11
        c[0, 1] = c[1, 0] = c12
        c[0, 2] = c[2, 0] = c[1, 2] = c[2, 1] = c13
        c[2, 2] = c33
        c[3, 3] = c[4, 4] = c44
        c[5, 5] = c66
    elif cs == 'orthorhombic':
        d = [r(150, 300) for _ in range(3)] + [r(30, 90) for _ in range(3)]
        c[np.arange(6), np.arange(6)] = d
        for (a, b) in ((0, 1), (0, 2), (1, 2)):
            c[a, b] = c[b, a] = r(40, 100)
    else:
        raise ValueError(cs)
    return c


def run_elastic(ctx, am, uc, DM):
    rec = ctx.rec
    n = ctx.pick(120, 2400)
    systems = ['triclinic', 'cubic', 'hexagonal', 'tetragonal', 'orthorhombic']
    for i in ctx.cases('elastic', n):
        rng = ctx.rng
        enc = ENCS[i % 3]
        cs = systems[(i // 3) % len(systems)]
        unit = [None, 'GPa', 'MPa', 'eV/angstrom^3', 'bar'][(i // 15) % 5]
        cij_gpa = spd6(rng) * 40 if cs == 'triclinic' else system_cij(rng, cs)
        cij = uc.set_in_units(cij_gpa, 'GPa')
        rec.case(('elastic', cs, enc, str(unit)), nontrivial=True, fp=fingerprint(cij_gpa, cs, enc, unit))
        e2 = None
        with ctx.guard('ElasticConstants.model -> ElasticConstants(model=...)', f'elastic:{enc}'):
            ec = am.ElasticConstants(Cij=cij)
            m = ec.model(unit=unit, crystal_system=cs)
            _, payload, text = through(DM, m, enc)
            e2 = am.ElasticConstants(model=payload)
        if e2 is None:
            continue
        rec.count('monitor:elastic-roundtrip')
        rec.close(1e-10 * np.abs(cij).max(), e2.Cij, cij, 'ElasticConstants round trip: Cij', f'elastic:{enc}:Cij', unit=unit, crystal_system=cs)
        if enc == 'json' and unit is not None:
            node = json.loads(text)['elastic-constants']['Cij']
            stored = np.asarray(node['value'], float).reshape(6, 6)
            rec.close(1e-10 * np.abs(cij_gpa).max() * U.si('pressure', 'GPa') / U.si('pressure', unit), stored,
                      U.convert(cij_gpa, 'pressure', 'GPa', unit), 'ElasticConstants text: numbers are Cij in the stated unit',
                      'elastic:text-numbers', rtol=U.RTOL, unit=unit)
            rec.check(node.get('shape') == [6, 6], 'ElasticConstants text carries the shape', 'elastic:text-shape', got=node.get('shape'))
    rec.floor('monitor:elastic-roundtrip', 30)


def run_xconfig(ctx, am, uc, DM):
    """Write under working-unit configuration A, read under B: physical values agree for every quantity stored with a unit."""
    rec = ctx.rec
    n = ctx.pick(180, 3600)
    ncfg = len(CONFIGS)
    try:
        for i in ctx.cases('xconfig', n):
            rng = ctx.rng
            a = i % ncfg
            b = (a + 1 + (i // ncfg) % (ncfg - 1)) % ncfg            # always a different configuration
            (an, acfg), (bn, bcfg) = CONFIGS[a], CONFIGS[b]
            enc = ('json', 'xml')[(i // 2) % 2]
            obj = ['system', 'box', 'value', 'elastic'][(i // 4) % 4]
            rec.case(('xconfig', obj, enc, an, bn), nontrivial=True, fp=fingerprint(obj, enc, an, bn, i, ctx.seed))
            key = f'xconfig:{obj}:{enc}'
            # physical ground truth, in explicit units
            kind = cells.KINDS[i % len(cells.KINDS)]
            cell = cells.gen_cell(rng, kind, cells.ORIGINS[(i // 9) % 3], 1.0)        # angstrom
            natoms = [1, 2, 4, 7][(i // 3) % 4]
            rel = rng.uniform(-0.2, 1.2, (natoms, 3))
            pos_A = rel @ cell['vects'] + cell['origin']                                 # angstrom
            q_e = rng.normal(size=natoms)                                                # e
            s_gpa = rng.normal(size=(natoms, 3, 3))                                      # GPa
            vec_A = rng.normal(size=(natoms, 3)) @ cell['vects'] + cell['origin']        # a second position-like vector, angstrom
            cij_gpa = spd6(rng) * 30
            lu = ['angstrom', 'nm', 'pm', 'm'][i % 4]
            pu_pos = ['angstrom', 'nm', 'scaled'][(i // 5) % 3]
            pu_vec = ['scaled', 'nm'][(i // 7) % 2]
            pu_q = ['e', 'C'][i % 2]
            pu_s = ['GPa', 'MPa', 'eV/angstrom^3'][i % 3]
            imp_Ns = rng.normal(size=(natoms, 3)) * 1e-21                                # an impulse-like vector, N*s
            pu_imp = U.names('impulse')[i % len(U.names('impulse'))]                      # incl. 'eV/angstrom*ps': (a/b)*c
            k_Nm = rng.uniform(1, 50, natoms)                                             # a stiffness-like scalar, N/m
            pu_k = U.names('stiffness')[(i // 2) % len(U.names('stiffness'))]             # incl. 'eV/angstrom/angstrom'
            text = None
            la, lb = length_name(acfg), length_name(bcfg)

            def to_work(x):
                # lengths in working units of A: by the oracle's own factor when A names its length unit
                return U.convert(x, 'length', 'angstrom', la) if la else uc.set_in_units(x, 'angstrom')
            with ctx.guard('write a model under configuration A', key + ':write'):
                set_config(uc, acfg)
                if obj == 'system':
                    box = am.Box(vects=to_work(cell['vects']), origin=to_work(cell['origin']))
                    atoms = am.Atoms(atype=np.ones(natoms, int), pos=to_work(pos_A), charge=uc.set_in_units(q_e, 'e'),
                                     stress=uc.set_in_units(s_gpa, 'GPa'), site=to_work(vec_A),
                                     impulse=uc.set_in_units(imp_Ns, 'N*s'), spring=uc.set_in_units(k_Nm, 'N/m'))
                    sysA = am.System(atoms=atoms, box=box, symbols='Al')
                    text = sysA.dump('system_model', format=enc, box_unit=lu,
                                     prop_unit={'atype': None, 'pos': pu_pos, 'charge': pu_q, 'stress': pu_s, 'site': pu_vec,
                                                'impulse': pu_imp, 'spring': pu_k})
                elif obj == 'box':
                    m = am.Box(vects=to_work(cell['vects']), origin=to_work(cell['origin'])).model(length_unit=lu)
                    text = m.json() if enc == 'json' else m.xml()
                elif obj == 'value':
                    m = wrap_root(DM, uc.model(uc.set_in_units(s_gpa, 'GPa'), pu_s), 'q')
                    text = m.json() if enc == 'json' else m.xml()
                else:
                    m = am.ElasticConstants(Cij=uc.set_in_units(cij_gpa, 'GPa')).model(unit=pu_s)
                    text = m.json() if enc == 'json' else m.xml()
            if text is None:
                continue
            if enc == 'json':      # the text itself must not depend on the writer's configuration
                d = json.loads(text)
                if obj == 'box':
                    rec.close(1e-12 * cell['L'] * U.si('length', 'angstrom') / U.si('length', lu),
                              np.asarray(d['box']['bvect']['value'], float), U.convert(cell['vects'][1], 'length', 'angstrom', lu),
                              'text written under any configuration holds the physical value in the stated unit', 'xconfig:text-numbers',
                              rtol=1e-9, cfg=an)
                elif obj == 'system':
                    for q in d['atomic-system']['atoms']['property']:
                        if q['name'] == 'impulse':
                            rec.close(1e-12 * np.abs(imp_Ns).max() / U.si('impulse', pu_imp), np.asarray(q['data']['value'], float).reshape(-1, 3),
                                      U.convert(imp_Ns, 'impulse', 'N*s', pu_imp), 'text written under any configuration holds the physical value in the stated (compound) unit',
                                      'xconfig:text-numbers:compound', rtol=1e-8, cfg=an, unit=pu_imp)
                        elif q['name'] == 'spring':
                            rec.close(0.0, np.asarray(q['data']['value'], float).reshape(-1), U.convert(k_Nm, 'stiffness', 'N/m', pu_k),
                                      'text written under any configuration holds the physical value in the stated (compound) unit',
                                      'xconfig:text-numbers:compound', rtol=1e-8, cfg=an, unit=pu_k)
                    rec.count('monitor:xconfig-text-compound')
                elif obj == 'elastic':
                    rec.close(1e-9 * np.abs(cij_gpa).max() * U.si('pressure', 'GPa') / U.si('pressure', pu_s),
                              np.asarray(d['elastic-constants']['Cij']['value'], float).reshape(6, 6), U.convert(cij_gpa, 'pressure', 'GPa', pu_s),
                              'text written under any configuration holds the physical value in the stated unit', 'xconfig:text-numbers',
                              rtol=1e-9, cfg=an)
                rec.count('monitor:xconfig-text')
            with ctx.guard('read the model under configuration B', key + ':read'):
                set_config(uc, bcfg)
                tolL = 1e-9 * (cell['L'] + np.abs(cell['origin']).max())
                if lb and obj in ('system', 'box'):
                    # B names its length unit: the numbers read back are lengths in that unit (oracle's own factor table)
                    o2 = am.load('system_model', text) if obj == 'system' else am.Box(model=text)
                    b2_ = o2.box if obj == 'system' else o2
                    f = U.si('length', 'angstrom') / U.si('length', lb)
                    rec.close(tolL * f, b2_.vects, U.convert(cell['vects'], 'length', 'angstrom', lb),
                              'cell vectors read under B are the physical vectors in B\'s length unit', key + ':vects:named', rtol=U.RTOL, A=an, B=bn)
                    rec.close(tolL * f, b2_.origin, U.convert(cell['origin'], 'length', 'angstrom', lb),
                              'origin read under B is the physical origin in B\'s length unit', key + ':origin:named', rtol=U.RTOL, A=an, B=bn)
                    if obj == 'system':
                        rec.close(tolL * f, o2.atoms.pos, U.convert(pos_A, 'length', 'angstrom', lb),
                                  'positions read under B are the physical positions in B\'s length unit',
                                  key + ':pos:named:' + ('scaled' if pu_pos == 'scaled' else 'unit'), rtol=U.RTOL, A=an, B=bn)
                    rec.count('monitor:xconfig-named-length')
                if obj == 'system':
                    s2 = am.load('system_model', text)
                    rec.close(tolL, uc.get_in_units(s2.box.vects, 'angstrom'), cell['vects'], 'physical cell vectors independent of working units', key + ':vects', A=an, B=bn)
                    rec.close(tolL, uc.get_in_units(s2.box.origin, 'angstrom'), cell['origin'], 'physical origin independent of working units', key + ':origin', A=an, B=bn)
                    rec.close(tolL, uc.get_in_units(s2.atoms.pos, 'angstrom'), pos_A, 'physical positions independent of working units', key + ':pos:' + ('scaled' if pu_pos == 'scaled' else 'unit'), A=an, B=bn, unit=pu_pos)
                    rec.close(tolL * 3, uc.get_in_units(s2.atoms.site, 'angstrom'), vec_A, 'physical vector property independent of working units', key + ':site:' + ('scaled' if pu_vec == 'scaled' else 'unit'), A=an, B=bn, unit=pu_vec)
                    rec.close(1e-9 * np.abs(q_e).max(), uc.get_in_units(s2.atoms.charge, 'e'), q_e, 'physical charges independent of working units', key + ':charge', A=an, B=bn)
                    rec.close(1e-9 * np.abs(s_gpa).max(), uc.get_in_units(s2.atoms.stress, 'GPa'), s_gpa, 'physical tensor property independent of working units', key + ':stress', A=an, B=bn)
                    rec.close(1e-9 * np.abs(imp_Ns).max(), uc.get_in_units(s2.atoms.impulse, 'N*s'), imp_Ns, 'physical value stored with a compound unit independent of working units', key + ':compound-unit', A=an, B=bn, unit=pu_imp)
                    rec.close(0.0, uc.get_in_units(s2.atoms.spring, 'N/m'), k_Nm, 'physical value stored with a compound unit independent of working units', key + ':compound-unit', rtol=1e-9, A=an, B=bn, unit=pu_k)
                elif obj == 'box':
                    b2 = am.Box(model=text)
                    rec.close(tolL, uc.get_in_units(b2.vects, 'angstrom'), cell['vects'], 'physical cell vectors independent of working units', key + ':vects', A=an, B=bn)
                    rec.close(tolL, uc.get_in_units(b2.origin, 'angstrom'), cell['origin'], 'physical origin independent of working units', key + ':origin', A=an, B=bn)
                elif obj == 'value':
                    v2 = uc.value_unit(DM(text)['q'])
                    rec.close(1e-9 * np.abs(s_gpa).max(), uc.get_in_units(v2, 'GPa'), s_gpa, 'physical value independent of working units', key + ':value', A=an, B=bn)
                else:
                    e2 = am.ElasticConstants(model=text)
                    rec.close(1e-9 * np.abs(cij_gpa).max(), uc.get_in_units(e2.Cij, 'GPa'), cij_gpa, 'physical Cij independent of working units', key + ':Cij', A=an, B=bn)
                rec.count('monitor:xconfig-read')
                rec.count('xconfig:' + an + '->' + bn)
    finally:
        set_config(uc, DEFAULT_CFG)
    rec.floor('monitor:xconfig-read', 60)
    rec.floor('monitor:xconfig-text', 10)
    rec.floor('monitor:xconfig-named-length', 20)
    rec.floor('monitor:xconfig-text-compound', 5)


def run(ctx):
    import atomman as am
    import atomman.unitconvert as uc
    from DataModelDict import DataModelDict as DM
    set_config(uc, DEFAULT_CFG)
    run_values(ctx, am, uc, DM)
    run_box(ctx, am, uc, DM)
    run_atoms_system(ctx, am, uc, DM)
    run_elastic(ctx, am, uc, DM)
    run_xconfig(ctx, am, uc, DM)
    rec = ctx.rec
    rec.check(abs(uc.unit['angstrom'] - 1.0) < 1e-12 and abs(uc.unit['eV'] - 1.0) < 1e-12,
              'harness: default working units restored at the end of the run', 'harness:units-restored')
