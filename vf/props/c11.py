"""C11 - Elastic-constant representations are one tensor; rotation is a tensor rotation."""
from __future__ import annotations

import numpy as np

from ..core import fingerprint
from ..gen import c11_tensors as GEN
from ..gen import c11_buffers as BUF
from ..oracle import c11_elastic as O
from .. import cover, monitor

RULE = ('group "tensors": case i picks source = SOURCES[i % 16] (random SPD entered through each of the 5 '
        'representations; named constants of the 9 crystal-system keyword forms, keyword-name variants cycled; isotropic '
        'by a random modulus pair; SPD with one entry straddling the 1e-9 zeroing threshold), rotation class = '
        'ROTATIONS[(i // 16) % 8] (Haar, product of 2-3, cubic point-group element, angle 5e-9..1e-4, about a '
        'coordinate axis incl. pi-1e-7, orthogonal non-unit/integer rows, angle 1e-10..5e-9, exact half turn about a coordinate axis), scale 0.006/1/150, condition number '
        '10/300/1e4, strain class (5), ndarray/list containers.  group "isotropic": i enumerates the 15 modulus pairs '
        'x 5 Poisson classes (0, 1e-4..1e-2, <1/4, >1/4, 1/2-1e-4..1e-2) x 3 scales x alias names x keyword order.  '
        'group "histories": one object, 8 operations (first two = all 36 ordered pairs of read / read-then-overwrite-the-returned-'
        'array / modulus / transform / normalise / reassign through a random representation), all five representations '
        're-read in random order after every operation.  '
        'group "workbuffers": ONE caller-owned axes object per case (9 forms: float64 C / Fortran / window / strided view, float32, int64, '
        'nested list, list and tuple of row arrays), overwritten in place (5 write styles incl. in-place row negation / permutation / '
        'transposition) between 5 successive transform() calls; 6 call patterns (same object, two objects in turn, chain of results, '
        'fresh objects, default-constructed then set, deepcopy/copy/pickle/model copies) x 4 things done between calls (nothing, equal axes '
        'in another array, other axes in another array, same unchanged object again); every result judged against the oracle rotation for '
        'the axes held at call time, inverse written into the same object, first call repeated at the end, earlier results re-judged.  '
        'group "arguments": i -> entry representation (5) x caller-owned container form (9) x construction route (constructor, setter on a '
        'default / used / deep-copied object); object A built from the container, container overwritten with a second tensor and B built '
        'from it, container scribbled; A and B and every array read earlier re-judged; both used in turn; results of transform / '
        'normalized_as / copy / pickle / model given new values and the source re-judged.  '
        'group "paths": data model written (5 units, own-system normalisation) and read back as DataModelDict / JSON / XML / bytes file / '
        'old per-constant layout, by the constructor and by model() on a used object; named constants given as int, numpy float64, '
        '0-d arrays, float32 (placing-only constructors).  '
        'Every case is non-trivial (stiffness is SPD, never a multiple of the identity); distinct = distinct '
        'fingerprint of (stiffness, rotations) resp. (lambda, mu, pair, keywords).')
ASSUMPTIONS = ['stiffness matrices are symmetric positive definite with condition number <= 1e4',
               'entries below 1e-9*max (setter) / tol*max (transform) may be zeroed: such components are compared '
               'with their own magnitude as bound, and the Frobenius norm of what was zeroed is carried through chains',
               'isotropic pairs: (lambda,nu) and (M,E) are skipped at nu = 0 exactly (0/0, resp. branch point of the '
               'square root where the nu>0 and nu<0 solutions meet); elsewhere the bound is the propagated input rounding',
               'Poisson ratio in [0, 0.4999]; rotations are orthogonal to 1e-14',
               'normalized_as: only the six supported systems plus triclinic (monoclinic is refused by the code)',
               'oracle shares numpy/LAPACK (inv, eigvalsh) with the code under test',
               'float32 / int64 containers only hold exactly representable contents (signed permutations, integer Miller axes, integer-valued '
               'stiffness); float32 scalars only go to constructors that place their constants without arithmetic',
               'equal axes in arrays of different memory layout may differ by a few ulp in the result; the same object unchanged must give bitwise the same result',
               'unit conversion of a data model costs one division and one multiplication (8e-16 relative); the value of a unit is atomman.unitconvert\'s own']
CONFIG = {'quick': {'shards': 8, 'seeds': 1, 'timeout': 600},
          'thorough': {'shards': 16, 'seeds': 3, 'timeout': 3000}}

PRIV = '_ElasticConstants__c_ij'
BASE = 1e-12
THR_SET = 1.1e-9        # Cij setter zeroes |c|/max <= 1e-9
THR_TRF = 1.1e-8        # transform(tol=1e-8) zeroes |c|/max < 1e-8
NORMAL_SYSTEMS = ('isotropic', 'cubic', 'hexagonal', 'tetragonal', 'rhombohedral', 'orthorhombic')
NORMAL_GROUP = {'isotropic': 'isotropic', 'cubic': 'cubic', 'hexagonal': 'hexagonal', 'tetragonal': 'tetragonal-4',
                'rhombohedral': 'rhombohedral-3', 'orthorhombic': 'orthorhombic'}
METHOD_GROUP = dict(NORMAL_GROUP, monoclinic='monoclinic', triclinic='triclinic')
FILE = 'atomman/core/ElasticConstants.py'


def ztol(exp, thr, base=BASE, extra=0.0):
    """Per-component bound: rounding + (the component itself where it is small enough to be zeroed)."""
    a = np.abs(np.asarray(exp, float))
    m = a.max()
    return base * m + extra + np.where(a <= thr * m, a, 0.0)


def zslack(exp, thr):
    """Largest magnitude among components that may legitimately have been zeroed."""
    a = np.abs(np.asarray(exp, float))
    sub = a[a <= thr * a.max()]
    return float(sub.max()) if sub.size else 0.0


def container(arr, as_list):
    return np.asarray(arr, float).tolist() if as_list else np.array(arr, float)


def oracle_repr(c6, r):
    if r == 'Cij':
        return np.array(c6, float)
    if r == 'Sij':
        return O.compliance6(c6)
    if r == 'Cij9':
        return O.c9_from_voigt(c6)
    if r == 'Cijkl':
        return O.c4_from_voigt(c6)
    if r == 'Sijkl':
        return O.s4_from_voigt(O.compliance6(c6))
    raise ValueError(r)


def modulus_tol(style, val, cond, smax, cmax, dz=0.0):
    """Bound on a computed Voigt/Reuss/Hill modulus.  Voigt sums nine entries of C.  Reuss is the reciprocal of a
    weighted sum (weights adding up to <= 10) of entries of S = inv(C), each known to cond*eps*Smax, so that
    d(1/K_R) <= 10 dS and dK_R <= 10 K_R^2 dS - the cancellation in that sum (near-incompressible solids) is what
    makes the Reuss moduli sensitive like cond^2.  dz: relative perturbation of the entries of C themselves."""
    dS = (1e-13 * cond + 40 * cond * dz) * smax
    v = (1e-13 * cond + 10 * dz) * cmax        # cond: a stiffness entered as a compliance is inv(S), known to cond*eps
    r = 10 * val * val * dS + 1e-13 * abs(val)
    return {'Voigt': v, 'Reuss': r, 'Hill': v + r}[style]


def invariance_defect(c6, group):
    c6 = np.asarray(c6, float)
    return max([float(np.abs(O.rotate_voigt(c6, g) - c6).max()) for g in O.GENERATORS[group]] + [0.0])


# ==========================================================================
# monitors on the real class (fire on every call, including internal ones)
def install_monitors(rec, EC):
    state = {'busy': 0}

    def wrap(name, fn):
        def post(args, kwargs, result, exc, old):
            if exc is not None or state['busy']:
                return
            state['busy'] += 1
            try:
                fn(args, kwargs, result, old)
            except Exception as e:          # a monitor that cannot evaluate is reported, never silently dropped
                rec.fail('monitor ran to completion', 'monitor-error:' + name, exception=e)
            finally:
                state['busy'] -= 1
        return post

    def internal(obj):
        return np.array(getattr(obj, PRIV), float)

    def spd_cond(c):
        k = O.cond6(c)
        if not np.isfinite(k) or k > 1e8:
            rec.count('monitor:skipped-not-spd')
            return None
        return max(k, 10.0)

    # -- methods -------------------------------------------------------------
    def post_transform(args, kwargs, result, old):
        axes = args[1] if len(args) > 1 else kwargs['axes']
        tol = args[2] if len(args) > 2 else kwargs.get('tol', 1e-8)
        exp = O.rotate_voigt(old, O.unit_rows(np.asarray(axes, float)))
        rec.close(ztol(exp, 1.1 * max(tol, 1e-9)), internal(result), exp,
                  'monitor: transform(axes) returns R R R R C with R = unit rows of axes', 'monitor:transform')

    def post_modulus(which):
        def post(args, kwargs, result, old):
            style = args[1] if len(args) > 1 else kwargs.get('style', 'Hill')
            c = internal(args[0])
            k = spd_cond(c)
            if k is None:
                return
            exp = O.vrh(c)[(which, style)]
            rec.close(modulus_tol(style, exp, k, np.abs(O.compliance6(c)).max(), np.abs(c).max()), result, exp,
                      f'monitor: {which}() equals the isotropic projection of C (Voigt), of S (Reuss), their mean (Hill)',
                      f'monitor:{which}:{style}')
        return post

    def post_normalized(args, kwargs, result, old):
        system = args[1] if len(args) > 1 else kwargs['crystal_system']
        n1 = internal(result)
        try:
            n2 = internal(result.normalized_as(system))
        except Exception as e:
            rec.fail('monitor: a normalised tensor can be normalised again', 'monitor:normalized:again:' + system, exception=e)
            return
        rec.close(ztol(n1, THR_SET), n2, n1, 'monitor: normalized_as(s).normalized_as(s) == normalized_as(s)', 'monitor:normalized:idempotent:' + system)
        rec.count('normalized:idempotent-evaluations')
        rec.count('normalized:idempotent:' + system)
        g = NORMAL_GROUP.get(system)
        if g is not None:
            rec.check(invariance_defect(n1, g) <= 1e-11 * np.abs(n1).max(),
                      'monitor: normalized_as(system) returns a tensor with that system\'s symmetry',
                      'monitor:normalized:symmetry:' + system, Cij=n1)

    def post_is_normal(args, kwargs, result, old):
        self = args[0]
        system = args[1] if len(args) > 1 else kwargs['crystal_system']
        atol = args[2] if len(args) > 2 else kwargs.get('atol', 1e-4)
        rtol = args[3] if len(args) > 3 else kwargs.get('rtol', 1e-4)
        c = internal(self)
        n = internal(self.normalized_as(system))
        err = np.abs(c - n) - (atol + rtol * np.abs(n))
        if np.abs(err).min() < 1e-12 * np.abs(c).max():
            rec.count('monitor:is_normal:exempt-on-tolerance-edge')
            return
        rec.check(bool(result) == bool((err <= 0).all()),
                  'monitor: is_normal(system) iff every Cij matches the normalised value within atol + rtol*|value|',
                  'monitor:is_normal', system=system, result=result)

    def post_system(method):
        group = METHOD_GROUP[method]

        def post(args, kwargs, result, old):
            c = internal(args[0])
            m = np.abs(c).max()
            for name, val in kwargs.items():
                i, j = O.named_position(name)
                tol = BASE * m + (abs(val) if abs(val) <= THR_SET * m else 0.0)
                rec.close(tol, [c[i, j], c[j, i]], [val, val],
                          'monitor: the constant named Cij is entry (i,j) and (j,i) of the stiffness matrix',
                          f'monitor:{method}:named', name=name)
            rec.check(invariance_defect(c, group) <= 1e-11 * m,
                      'monitor: a tensor built from a crystal system\'s constants is invariant under that system\'s rotations',
                      f'monitor:{method}:invariant', kwargs=kwargs, Cij=c)
        return post

    inv_alias = {v: k for k, v in O.ISO_ALIAS.items()}

    def post_isotropic(args, kwargs, result, old):
        c = internal(args[0])
        m = np.abs(c).max()
        lam, mu = c[0, 1], c[3, 3]
        rec.close(BASE * m, c, O.iso_c6(lam, mu), 'monitor: isotropic() builds lambda dd + mu(dd+dd)', 'monitor:isotropic:form')
        mod = O.iso_moduli(lam, mu)
        for name, val in kwargs.items():
            n = inv_alias.get(name, name)
            tol = 1e-10 if n == 'nu' else 1e-10 * (abs(val) + m)
            rec.close(tol, mod[n], val, 'monitor: the isotropic tensor built from a modulus pair has those two moduli',
                      'monitor:isotropic:residual:' + n, given=kwargs)

    monitor.observe(EC, 'transform', wrap('transform', post_transform),
                    pre=lambda args, kwargs: np.array(getattr(args[0], PRIV), float))
    monitor.observe(EC, 'bulk', wrap('bulk', post_modulus('bulk')))
    monitor.observe(EC, 'shear', wrap('shear', post_modulus('shear')))
    monitor.observe(EC, 'normalized_as', wrap('normalized_as', post_normalized))
    monitor.observe(EC, 'is_normal', wrap('is_normal', post_is_normal))
    for meth in ('cubic', 'hexagonal', 'tetragonal', 'rhombohedral', 'orthorhombic', 'monoclinic', 'triclinic'):
        monitor.observe(EC, meth, wrap(meth, post_system(meth)))
    monitor.observe(EC, 'isotropic', wrap('isotropic', post_isotropic))

    # -- representation properties --------------------------------------------
    def get_Cij(self, r):
        rec.check(np.array_equal(r, getattr(self, PRIV)) and r is not getattr(self, PRIV),
                  'monitor: Cij getter returns a copy of the stored matrix', 'monitor:get:Cij')

    def get_Sij(self, r):
        c = internal(self)
        k = spd_cond(c)
        if k is not None:
            rec.close(1e-13 * k, r @ c, np.eye(6), 'monitor: Sij getter times stored Cij is the identity', 'monitor:get:Sij')

    def get_Cij9(self, r):
        rec.check(np.array_equal(r, O.c9_from_voigt(internal(self))), 'monitor: Cij9 getter places c_(ij)(kl) over the nine ordered pairs', 'monitor:get:Cij9')

    def get_Cijkl(self, r):
        rec.check(np.array_equal(r, O.c4_from_voigt(internal(self))), 'monitor: Cijkl getter is C_ijkl = c_(ij)(kl)', 'monitor:get:Cijkl')

    def get_Sijkl(self, r):
        c = internal(self)
        k = spd_cond(c)
        if k is not None:
            exp = O.s4_from_voigt(O.compliance6(c))
            rec.close(1e-13 * k * np.abs(exp).max(), r, exp, 'monitor: Sijkl getter is S_ijkl = s_(ij)(kl)/(w w)', 'monitor:get:Sijkl')

    def set_Cij(self, v):
        rec.close(ztol(v, THR_SET, base=1e-15), internal(self), v, 'monitor: Cij setter stores the matrix', 'monitor:set:Cij')

    def set_Sij(self, v):
        k = spd_cond((v + v.T) / 2)
        if k is not None:
            exp = np.linalg.inv(v)
            rec.close(ztol(exp, THR_SET, base=1e-13 * k), internal(self), exp, 'monitor: Sij setter stores the inverse', 'monitor:set:Sij')

    def set_Cij9(self, v):
        rec.close(ztol(v[:6, :6], THR_SET, base=1e-15), internal(self), O.voigt_from_c9(v), 'monitor: Cij9 setter stores the leading 6x6 block', 'monitor:set:Cij9')

    def set_Cijkl(self, v):
        exp = O.voigt_from_c4(v)
        rec.close(ztol(exp, THR_SET, base=1e-15), internal(self), exp, 'monitor: Cijkl setter stores c_(ij)(kl) = C_ijkl', 'monitor:set:Cijkl')

    def set_Sijkl(self, v):
        s6 = O.voigt_from_s4(v)
        k = spd_cond((s6 + s6.T) / 2)
        if k is not None:
            exp = np.linalg.inv(s6)
            rec.close(ztol(exp, THR_SET, base=1e-13 * k), internal(self), exp, 'monitor: Sijkl setter stores inv(w w S_ijkl)', 'monitor:set:Sijkl')

    def wrap_property(name, post_get, post_set):
        prop = EC.__dict__[name]

        def run_monitor(kind, fn, *a):
            if state['busy']:
                return
            state['busy'] += 1
            try:
                fn(*a)
                rec.count(f'monitor_calls:{kind}:{name}')
            except Exception as e:
                rec.fail('monitor ran to completion', f'monitor-error:{kind}:{name}', exception=e)
            finally:
                state['busy'] -= 1

        def fget(self):
            r = prop.fget(self)
            run_monitor('get', post_get, self, r)
            return r

        def fset(self, value):
            try:
                v0 = np.array(value, dtype=float)        # snapshot: the setter may edit its argument in place
            except Exception:
                v0 = None
            prop.fset(self, value)
            if v0 is not None:
                run_monitor('set', post_set, self, v0)
        setattr(EC, name, property(fget, fset, prop.fdel, prop.__doc__))

    wrap_property('Cij', get_Cij, set_Cij)
    wrap_property('Sij', get_Sij, set_Sij)
    wrap_property('Cij9', get_Cij9, set_Cij9)
    wrap_property('Cijkl', get_Cijkl, set_Cijkl)
    wrap_property('Sijkl', get_Sijkl, set_Sijkl)


# ==========================================================================
# direct clauses
class Case:
    """Ground truth and derived bounds of one stiffness."""

    def __init__(self, c6, zs=None, pert=0.0):
        self.c6 = np.array(c6, float)
        self.pert = pert        # relative size of a dense perturbation the entry route may add (conditioning of a modulus pair)
        self.cmax = float(np.abs(self.c6).max())
        self.cond = max(O.cond6(self.c6), 10.0)
        self.s6 = O.compliance6(self.c6)
        self.smax = float(np.abs(self.s6).max())
        # zs: relative size of a truth entry that the setter may zero (0 when there is none)
        self.zs = zslack(self.c6, THR_SET) / self.cmax if zs is None else zs
        self.dz = self.zs + self.pert
        self.exp = {r: oracle_repr(self.c6, r) for r in GEN.REPRS}

    def tol(self, r, extra_rel=0.0):
        """Bound for a value of representation r read from an object holding this stiffness."""
        if r.startswith('C'):
            return ztol(self.exp[r], THR_SET, extra=(extra_rel + self.pert) * self.cmax)
        return (1e-13 * self.cond + 40 * self.cond * (self.zs + self.pert) + extra_rel * self.cond) * self.smax


def read_all(ctx, obj, tag):
    got = {}
    for r in GEN.REPRS:
        with ctx.guard(f'reading {r}', f'get:{r}:{tag}'):
            got[r] = np.asarray(getattr(obj, r))
    return got


def check_reprs(rec, got, case, src):
    for r, val in got.items():
        rec.close(case.tol(r), val, case.exp[r], f'{r} read from a tensor entered as {src.split(":")[0]} equals the oracle\'s {r}',
                  f'convert:{src}->{r}')
        rec.count('conversions')


def check_tensor_laws(rec, got, case, eps, tag):
    """Symmetries, C:S = I_sym and 'one stress-strain law' across the representations (real getters, oracle contraction)."""
    if len(got) < 5:
        return
    c4, s4, c6, s6, c9 = got['Cijkl'], got['Sijkl'], got['Cij'], got['Sij'], got['Cij9']
    d = O.symmetry_defect(c4)
    rec.check(max(d[:2]) <= 1e-15 * case.cmax, 'Cijkl has the minor symmetries', 'symmetry:minor:Cijkl', defect=d)
    # a stiffness entered as a compliance is inv(S): symmetric to the rounding of the inverse, and the setter accepts that
    rec.check(d[2] <= 1e-14 * case.cond * case.cmax, 'Cijkl has the major symmetry', 'symmetry:major:Cijkl', defect=d)
    ds = O.symmetry_defect(s4)
    ts = case.tol('Sijkl')
    rec.check(max(ds[:2]) <= 1e-15 * case.smax, 'Sijkl has the minor symmetries', 'symmetry:minor:Sijkl', defect=ds)
    rec.check(ds[2] <= 2 * ts, 'Sijkl has the major symmetry', 'symmetry:major:Sijkl', defect=ds, tol=ts)
    tid = 1e-12 * case.cond + 100 * case.cond * case.dz
    rec.close(tid, O.contract(c4, s4), O.sym_identity(), 'Cijkl : Sklmn is the symmetric identity', 'identity:C:S', tag=tag)
    rec.close(tid, O.contract(s4, c4), O.sym_identity(), 'Sijkl : Cklmn is the symmetric identity', 'identity:S:C', tag=tag)
    # the same linear law through every representation
    en = float(np.abs(eps).max())
    sig = O.stress(c4, eps)
    tsig = 40 * (1e-13 + case.dz) * case.cmax * en
    rec.close(tsig, c6 @ O.strain_voigt(eps), O.stress_voigt(sig), 'Cij . (engineering strain vector) equals Cijkl : strain', 'law:Cij', eps=eps)
    rec.close(tsig, c9 @ O.nine_vector(eps), O.nine_vector(sig), 'Cij9 . (nine strain components) equals Cijkl : strain', 'law:Cij9', eps=eps)
    teps = (1e-11 * case.cond + 400 * case.cond * case.dz) * en
    rec.close(teps, O.strain_from_voigt(s6 @ O.stress_voigt(sig)), eps, 'Sij . stress vector returns the strain', 'law:Sij', eps=eps)
    rec.close(teps, np.tensordot(s4, sig, axes=([2, 3], [0, 1])), eps, 'Sijkl : stress returns the strain', 'law:Sijkl', eps=eps)
    e6 = O.strain_voigt(eps)
    rec.close(40 * (1e-13 + case.dz) * case.cmax * en * en, 0.5 * e6 @ c6 @ e6, O.energy(c4, eps),
              'strain-energy density is the same through Cij and Cijkl', 'law:energy')


def run_tensor_case(ctx, EC, i):
    rec, rng = ctx.rec, ctx.rng
    nS, nR = len(GEN.SOURCES), len(GEN.ROTATIONS)
    src = GEN.SOURCES[i % nS]
    sweep = i // nS
    rotc = GEN.ROTATIONS[sweep % nR]
    q = sweep // nR
    scale = GEN.SCALES[q % 3] * float(rng.uniform(0.5, 2.0))
    condc = GEN.CONDS[(q // 3 + sweep) % 3]
    strainc = GEN.STRAINS[sweep % 5]
    as_list = bool((q + sweep) % 2)
    variant = sweep // 5

    # ---- ground truth and the keyword arguments that enter it ---------------
    group = None
    zs = None
    direct_method = None
    if src.startswith('spd:'):
        entry = src[4:]
        c6 = GEN.spd_generic(rng, condc) * scale
        kw = None
    elif src == 'tiny-entry':
        c6, t = GEN.tiny_entry(rng, sweep % 3)
        c6 = c6 * scale
        entry = ('Cij', 'Cij9', 'Cijkl')[variant % 3]
        kw = None
        zs = t if t <= THR_SET else 0.0
        rec.count('hostile:tiny-entry:' + ('below-threshold' if t < 0.9e-9 else 'above-threshold' if t > THR_SET else 'at-threshold'))
    elif src == 'isotropic':
        group = 'isotropic'
        lam, mu, nu = GEN.iso_truth(rng, GEN.NU_CLASSES[1 + variant % 4], scale)
        c6 = O.iso_c6(lam, mu)
        pair = O.ISO_PAIRS[sweep % 15]
        kw = GEN.iso_kwargs(O.iso_moduli(lam, mu), pair, alias=bool(variant % 2), reverse=False)
        dl, dm = O.iso_pair_condition(lam, mu, *pair)
        entry = 'pair'
        zs = 10 * (dl + 2 * dm) / np.abs(c6).max()      # conditioning of the pair: a dense relative perturbation of the truth
    else:
        group, variants = GEN.SYSTEMS[src]
        names = variants[variant % len(variants)]
        raw, _ = GEN.system_tensor(rng, src)
        kw, c6 = GEN.named_constants(raw * scale, names, group)
        entry = 'named'
        if src in ('hexagonal', 'rhombohedral', 'rhombohedral+C15') and 'C66' in kw and 'C11' in kw and 'C12' in kw:
            direct_method = GEN.SYSTEM_METHOD[src]       # the keyword count would dispatch elsewhere: also call the method itself
    if src == 'isotropic':
        case = Case(c6, 0.0, pert=zs)
    else:
        case = Case(c6, zs)

    R1 = GEN.rotation(rng, rotc)
    R2 = GEN.rotation(rng, GEN.ROTATIONS[(sweep + 1 + variant) % nR])
    eps = GEN.strain(rng, strainc)
    rec.case((src, rotc, strainc, 'list' if as_list else 'array'), nontrivial=True, fp=fingerprint(c6, R1, R2))
    rec.count('class:source:' + src)
    rec.count('class:rotation:' + rotc)
    rec.count('class:container:' + ('list' if as_list else 'array'))
    if case.cond >= 3e3:
        rec.count('hostile:cond>=3e3')
    if i < 2 * nS:
        rec.sample(dict(source=src, keywords=kw, Cij=c6, rotation_class=rotc, axes=R1))

    # ---- construction ------------------------------------------------------
    C = None
    with ctx.guard(f'ElasticConstants can be built from {entry}', f'build:{src}'):
        if kw is None:
            C = EC(**{entry: container(case.exp[entry], as_list)})
        else:
            C = EC(**kw)
    if C is None:
        return
    rec.count('built')
    got = read_all(ctx, C, src)
    check_reprs(rec, got, case, src)
    check_tensor_laws(rec, got, case, eps, src)
    if direct_method is not None:
        with ctx.guard(f'{direct_method}() accepts the redundant C66', f'build:{src}:method'):
            D = EC()
            getattr(D, direct_method)(**kw)
            rec.close(case.tol('Cij'), D.Cij, c6, f'{direct_method}(**constants) equals the invariant tensor with those constants', f'build:{src}:method:Cij')

    # ---- pairwise conversions through the real setters ----------------------------
    if src.startswith('spd:') or src == 'tiny-entry' or i % 4 == 0:
        for A in GEN.REPRS:
            if src == 'tiny-entry' and A.startswith('S'):
                continue
            X = None
            with ctx.guard(f'ElasticConstants({A}=...)', f'build:{A}'):
                X = EC(**{A: container(case.exp[A], as_list and A != entry)})
            if X is None:
                continue
            gx = read_all(ctx, X, A)
            for r, val in gx.items():
                extra = 0.0 if A.startswith('C') else 1e-13 * case.cond      # a compliance entered and inverted carries cond*eps more
                rec.close(case.tol(r, extra), val, case.exp[r], f'{r} read from a tensor entered as {A} equals the oracle\'s {r}', f'convert:{A}->{r}')
                rec.count('conversions')
        # round trip through the real getters alone (no oracle map involved)
        for B in GEN.REPRS:
            if B in got:
                with ctx.guard(f'ElasticConstants({B}=C.{B})', f'roundtrip:{B}'):
                    Y = EC(**{B: got[B]})
                    extra = 0.0 if B.startswith('C') else 1e-12 * case.cond
                    rec.close(ztol(got['Cij'], THR_SET, extra=(extra + 40 * case.cond * case.dz * (0 if B.startswith('C') else 1)) * case.cmax), Y.Cij, got['Cij'],
                              f'ElasticConstants({B}=C.{B}).Cij == C.Cij', f'roundtrip:{B}')
                    rec.count('roundtrips')

    # ---- symmetry of crystal-system tensors ----------------------------------
    if group is not None and group != 'triclinic':
        for k, g in enumerate(O.symmetry_rotations(group, rng)):
            if 'Cijkl' in got:
                rec.close(BASE * case.cmax + 20 * case.dz * case.cmax, O.rotate4(got['Cijkl'], g), got['Cijkl'],
                          'Cijkl built from a crystal system\'s constants is invariant under the system\'s rotations', f'invariant:{src}')
            with ctx.guard('transform by a symmetry rotation', f'invariant:{src}:transform'):
                T = C.transform(container(g, as_list))
                rec.close(ztol(c6, THR_TRF, extra=20 * case.dz * case.cmax), T.Cij, c6, 'transform by a symmetry rotation of the crystal system returns the same Cij', f'invariant:{src}:transform')
            rec.count('symmetry-rotations')

    check_transform(ctx, C, case, R1, R2, eps, rotc, as_list)
    check_moduli(ctx, C, case)
    check_normalized(ctx, C, case, src, group, sweep)


def check_transform(ctx, C, case, R1, R2, eps, rotc, as_list):
    rec = ctx.rec
    c6, cmax = case.c6, case.cmax
    zc = case.dz * cmax                                   # what the construction itself may have zeroed
    R1u, R2u = O.unit_rows(R1), O.unit_rows(R2)
    E1 = O.rotate_voigt(c6, R1u)
    E12 = O.rotate_voigt(c6, R2u @ R1u)
    z1 = zslack(E1, THR_TRF)
    z12 = zslack(E12, THR_TRF)
    if z1 > 1e-13 * cmax:
        rec.count('hostile:transform-zeroing-possible')
    carried = 9 * (z1 + zc) + 9 * zc                      # Frobenius norm of everything zeroed so far is rotation invariant
    key = 'transform:' + rotc
    with ctx.guard('transform(identity)', 'transform:identity'):
        T0 = C.transform(container(np.eye(3), as_list))
        rec.close(ztol(c6, THR_TRF, extra=9 * zc), T0.Cij, c6, 'transform(identity) returns the same tensor', 'transform:identity')
    T1 = None
    with ctx.guard('transform(axes)', key):
        T1 = C.transform(container(R1, as_list))
    if T1 is None:
        return
    t1 = T1.Cij
    rec.close(ztol(E1, THR_TRF, extra=9 * zc), t1, E1, 'transform(A) equals the oracle\'s rotation A A A A C', key + ':value', axes=R1)
    rec.count('transforms')
    with ctx.guard('composition of transforms', 'transform:composition'):
        T12 = T1.transform(container(R2, not as_list))
        T21 = C.transform(container(R2u @ R1u, as_list))
        rec.close(ztol(E12, THR_TRF, extra=carried), T12.Cij, E12, 'C.transform(A).transform(B) equals the oracle\'s rotation by B.A', 'transform:composition:oracle')
        rec.close(2 * ztol(E12, THR_TRF, extra=carried), T12.Cij, T21.Cij, 'C.transform(A).transform(B) == C.transform(B.A)', 'transform:composition', A=R1, B=R2)
        rec.count('compositions')
    with ctx.guard('inverse transform', 'transform:inverse'):
        Tinv = T1.transform(container(R1u.T, as_list))
        rec.close(ztol(c6, THR_TRF, extra=carried), Tinv.Cij, c6, 'C.transform(A).transform(A^T) == C', 'transform:inverse', A=R1)
    # strain-energy density of the co-rotated strain
    dC = carried + 9 * BASE * cmax
    en2 = float((eps * eps).sum())
    with ctx.guard('energy of co-rotated strain', 'transform:energy'):
        w0 = O.energy(C.Cijkl, eps)
        w1 = O.energy(T1.Cijkl, O.rotate_strain(eps, R1u))
        rec.close(0.5 * en2 * dC + 1e-13 * abs(w0), w1, w0, 'eps:C:eps/2 is unchanged when tensor and strain are rotated together', 'transform:energy', rotation=rotc)
        e6 = O.strain_voigt(O.rotate_strain(eps, R1u))
        rec.close(0.5 * en2 * dC + 1e-13 * abs(w0), 0.5 * e6 @ t1 @ e6, w0, 'Voigt-form energy of the rotated tensor equals the original energy', 'transform:energy:voigt')
    # polycrystal moduli are invariants
    with ctx.guard('moduli of the rotated tensor', 'transform:moduli'):
        for which in ('bulk', 'shear'):
            for style in ('Voigt', 'Reuss', 'Hill'):
                a, b = getattr(T1, which)(style), getattr(C, which)(style)
                tol = (dC if style == 'Voigt' else 20 * case.cond * dC) + 8 * modulus_tol(style, b, case.cond, case.smax, cmax)    # Voigt condition number grows <= 4x on rotation
                rec.close(tol, a, b, f'{style} {which} modulus is unchanged by transform', f'transform:moduli:{which}:{style}', rotation=rotc)
        rec.count('moduli-invariance')


def check_moduli(ctx, C, case):
    rec = ctx.rec
    ref = O.vrh(case.c6)
    with ctx.guard('bulk()/shear()', 'moduli'):
        for which in ('bulk', 'shear'):
            vals = {}
            for style in ('Voigt', 'Reuss', 'Hill'):
                vals[style] = getattr(C, which)(style)
                tol = modulus_tol(style, ref[which, style], case.cond, case.smax, case.cmax, case.dz)
                rec.close(tol, vals[style], ref[which, style], f'{which}({style}) equals the oracle\'s tensor contraction', f'moduli:{which}:{style}')
            rec.close(1e-14 * abs(vals['Hill']), getattr(C, which)(), vals['Hill'], f'{which}() defaults to Hill', f'moduli:{which}:default')
            slack = modulus_tol('Hill', ref[which, 'Reuss'], case.cond, case.smax, case.cmax, case.dz)
            rec.check(vals['Reuss'] <= vals['Voigt'] + 2 * slack, f'Reuss {which} <= Voigt {which}', f'moduli:{which}:order')


OWN_SYSTEM = {'isotropic': 'isotropic', 'cubic': 'cubic', 'hexagonal': 'hexagonal', 'tetragonal-4': 'tetragonal',
              'tetragonal-4mm': 'tetragonal', 'rhombohedral-3': 'rhombohedral', 'rhombohedral-32': 'rhombohedral',
              'orthorhombic': 'orthorhombic'}


def check_normalized(ctx, C, case, src, group, sweep):
    """Idempotency itself is decided by the monitor on normalized_as (every call); here: which systems are
    asked for, the fixed points and is_normal."""
    rec = ctx.rec
    c6, cmax = case.c6, case.cmax
    own = OWN_SYSTEM.get(group)
    systems = [own] if own else []
    for s in (NORMAL_SYSTEMS[sweep % 6], NORMAL_SYSTEMS[(sweep + 3) % 6]) + (('triclinic',) if sweep % 4 == 0 else ()):
        if s not in systems:
            systems.append(s)
    for system in systems:
        key = 'normalized:' + system
        with ctx.guard(f'normalized_as({system})', key):
            N1 = C.normalized_as(system)
            n1 = N1.Cij
            rec.count('normalized:calls-from-workload')
            if system == own or system == 'triclinic':
                N2 = N1.normalized_as(system)
                rec.close(ztol(n1, THR_SET), N2.Cij, n1, 'normalized_as(s).normalized_as(s) == normalized_as(s)', key + ':idempotent', source=src)
                rec.check(N1.is_normal(system), 'a normalised tensor is_normal', key + ':is_normal-after', source=src)
            fixed = system == 'triclinic' or invariance_defect(c6, NORMAL_GROUP[system]) <= 1e-12 * cmax
            if fixed:
                # the tensor already has the system's form: normalising must not change it
                extra = (20 * case.dz) * cmax
                rec.close(ztol(c6, THR_SET, extra=extra), n1, c6, 'normalized_as(s) leaves a tensor with the symmetry of s unchanged', key + ':fixed-point', source=src)
                rec.check(C.is_normal(system), 'is_normal(s) is True for a tensor with the symmetry of s', key + ':is_normal', source=src)
                rec.count('normalized:fixed-point-evaluations')
            else:
                dev = np.abs(n1 - c6) - (1e-4 + 1e-4 * np.abs(n1))
                if dev.max() > 1e-6 * cmax:
                    rec.check(not C.is_normal(system), 'is_normal(s) is False when normalising changes an entry beyond atol + rtol*|value|', key + ':is_normal-false', source=src)
                    rec.count('normalized:is_normal-false-evaluations')


# ==========================================================================
def run_iso_case(ctx, EC, i):
    rec, rng = ctx.rec, ctx.rng
    pair = O.ISO_PAIRS[i % 15]
    nuc = GEN.NU_CLASSES[(i // 15) % 5]
    scale = GEN.SCALES[(i // 75) % 3]
    alias = bool((i // 225) % 2)
    reverse = bool((i // 450) % 2)
    lam, mu, nu = GEN.iso_truth(rng, nuc, scale)
    mod = O.iso_moduli(lam, mu)
    kw = GEN.iso_kwargs(mod, pair, alias, reverse)
    pname = ','.join(pair)
    rec.case(('isotropic', pname, nuc, 'alias' if alias else 'names'), nontrivial=True, fp=fingerprint(lam, mu, pair, sorted(kw)))
    rec.count('iso:class:' + nuc)
    if i < 30:
        rec.sample(dict(pair=pname, nu_class=nuc, keywords=kw, lam=lam, mu=mu))
    if nuc == 'nu=0' and pair in GEN.UNDEFINED_AT_NU0:
        rec.count('iso:skipped-undefined-at-nu=0:' + pname)
        return
    c6 = O.iso_c6(lam, mu)
    cmax = float(np.abs(c6).max())
    dl, dm = O.iso_pair_condition(lam, mu, *pair)
    bound = 10 * (dl + 2 * dm) + BASE * cmax
    if not bound <= 1e-7 * cmax:
        rec.count('iso:exempt-ill-conditioned:' + pname)
        return
    C = None
    with ctx.guard(f'ElasticConstants from the isotropic pair ({pname})', f'iso:build:{pname}'):
        C = EC(**kw)
    if C is None:
        return
    got = None
    with ctx.guard('Cij of an isotropic tensor', f'iso:get:{pname}'):
        got = C.Cij
    if got is None:
        return
    rec.count('iso:pair:' + pname)
    rec.close(bound, got, c6, 'the pair reproduces C(lambda, mu) = lambda dd + mu (dd + dd)', f'iso:pair:{pname}', nu=nu, given=kw, lam=lam, mu=mu)
    with ctx.guard('moduli of an isotropic tensor', f'iso:moduli:{pname}'):
        relb = bound / cmax
        kc = max(O.cond6(c6), 10.0)
        sm = float(np.abs(O.compliance6(c6)).max())
        for style in ('Voigt', 'Reuss', 'Hill'):
            rec.close(modulus_tol(style, mod['K'], kc, sm, cmax, relb), C.bulk(style), mod['K'], 'every bulk estimate of an isotropic tensor is K', f'iso:bulk:{pname}')
            rec.close(modulus_tol(style, mu, kc, sm, cmax, relb), C.shear(style), mu, 'every shear estimate of an isotropic tensor is mu', f'iso:shear:{pname}')
    with ctx.guard('invariance of an isotropic tensor', f'iso:invariant:{pname}'):
        R = O.random_rotation(rng)
        rec.close(ztol(c6, THR_TRF, extra=20 * bound), C.transform(R).Cij, c6, 'an isotropic tensor is unchanged by any rotation', f'iso:invariant:{pname}')


# ==========================================================================
def run_history_case(ctx, EC, i):
    """One object, a sequence of operations; after every operation all five representations (read in a fresh
    random order, so that any read may precede any other) must still be those of the tensor it holds."""
    rec, rng = ctx.rec, ctx.rng
    ops_tbl = GEN.HISTORY_OPS
    nops = 8
    ops = [ops_tbl[i % 6], ops_tbl[(i // 6) % 6]] + [ops_tbl[int(k)] for k in rng.integers(0, 6, nops - 2)]
    scale = GEN.SCALES[(i // 36) % 3]
    case = Case(GEN.spd_generic(rng, GEN.CONDS[i % 3]) * scale)
    entry = GEN.REPRS[(i // 3) % 5]
    rec.case(('history', ops[0], ops[1], entry), nontrivial=True, fp=fingerprint(case.c6, ops))
    if i < 12:
        rec.sample(dict(entered_as=entry, ops=ops, Cij=case.c6))
    C = None
    with ctx.guard(f'ElasticConstants({entry}=...)', f'history:build:{entry}'):
        C = EC(**{entry: container(case.exp[entry], bool(i % 2))})
    if C is None:
        return
    done = []
    for op in ops:
        done.append(op)
        rec.count('history:op:' + op)
        key = 'history:' + op
        with ctx.guard(f'history step {op}', key):
            if op in ('read', 'read-and-scribble'):
                r = GEN.REPRS[int(rng.integers(0, 5))]
                val = getattr(C, r)
                rec.close(case.tol(r, 1e-13 * case.cond), val, case.exp[r], f'history: {r} equals the oracle\'s {r}', key + ':' + r, ops=done)
                if op == 'read-and-scribble':       # what a caller may do with an array it was handed
                    val *= 3.0
                    val += 1.0
            elif op == 'moduli':
                ref = O.vrh(case.c6)
                which = ('bulk', 'shear')[int(rng.integers(0, 2))]
                style = ('Voigt', 'Reuss', 'Hill')[int(rng.integers(0, 3))]
                rec.close(modulus_tol(style, ref[which, style], case.cond, case.smax, case.cmax), getattr(C, which)(style), ref[which, style],
                          f'history: {which}({style}) equals the oracle\'s value', f'{key}:{which}:{style}', ops=done)
            elif op == 'transform':
                R = GEN.rotation(rng, GEN.ROTATIONS[int(rng.integers(0, len(GEN.ROTATIONS)))])
                E = O.rotate_voigt(case.c6, O.unit_rows(R))
                rec.close(ztol(E, THR_TRF, extra=1e-13 * case.cond * case.cmax), C.transform(R).Cij, E, 'history: transform equals the oracle\'s rotation', key, ops=done)
            elif op == 'normalized':
                system = NORMAL_SYSTEMS[int(rng.integers(0, 6))]
                C.normalized_as(system)
                C.is_normal(system)
            elif op == 'reassign':
                case = Case(GEN.spd_generic(rng, GEN.CONDS[int(rng.integers(0, 3))]) * scale)
                r = GEN.REPRS[int(rng.integers(0, 5))]
                setattr(C, r, container(case.exp[r], bool(rng.integers(0, 2))))
        # the object still is the tensor it holds, whatever was read or computed before
        for r in rng.permutation(GEN.REPRS):
            with ctx.guard(f'reading {r} after {op}', f'history:after:{r}'):
                rec.close(case.tol(r, 1e-13 * case.cond), getattr(C, r), case.exp[r],
                          f'history: after every operation {r} is still the oracle\'s {r} of the tensor held', f'history:after:{r}', ops=done)
        rec.count('history:steps')


# ==========================================================================
# call histories with caller-owned argument objects that are re-used (round 4)
WB_PATTERNS = ('same-object', 'two-objects', 'chain', 'fresh-objects', 'default-then-set', 'copies')
WB_GAPS = ('none', 'equal-values-other-array', 'other-values-other-array', 'repeat-unchanged')
WB_KINDS = ('spd', 'cubic', 'hexagonal', 'rhombohedral+C15', 'monoclinic', 'orthorhombic', 'tetragonal+C16')
WB_STEPS = 5


def make_truth(rng, kind, scale):
    """(Case, keyword constants or None) of an anisotropic stiffness of the given kind."""
    if kind == 'spd':
        return Case(GEN.spd_generic(rng, GEN.CONDS[int(rng.integers(0, 3))]) * scale), None
    group, variants = GEN.SYSTEMS[kind]
    raw, _ = GEN.system_tensor(rng, kind)
    kw, c6 = GEN.named_constants(raw * scale, variants[0], group)
    return Case(c6), kw


def build_object(ctx, EC, case, kw, kind, route, k, tag):
    """A fresh object holding case.c6.  route: 'constructor' | 'default-then-set'; k picks the representation."""
    rec = ctx.rec
    obj = None
    r = GEN.REPRS[k % 5]
    with ctx.guard(f'building an object ({route})', f'{tag}:build:{route}'):
        if route == 'constructor':
            obj = EC(**kw) if (kw is not None and k % 2 == 0) else EC(**{r: container(case.exp[r], bool(k % 3 == 0))})
        else:
            obj = EC()
            rec.check(not np.asarray(obj.Cij).any(), 'ElasticConstants() holds the zero matrix whatever other objects were built before',
                      f'{tag}:default-instance-zero')
            rec.count('default-instances')
            if kw is not None and k % 2 == 0:
                getattr(obj, GEN.SYSTEM_METHOD[kind])(**kw)
            else:
                setattr(obj, r, container(case.exp[r], bool(k % 3 == 0)))
    extra = 0.0 if (r.startswith('C') or (kw is not None and k % 2 == 0)) else 1e-13 * case.cond
    return obj, extra


def copies_of(ctx, EC, obj, k, tag):
    """Alternative construction paths that must give an equal, independent object."""
    import copy
    import pickle
    what = ('deepcopy', 'copy', 'pickle', 'model', 'Cij-of')[k % 5]
    out = None
    with ctx.guard(f'{what} of an ElasticConstants object', f'{tag}:{what}'):
        if what == 'deepcopy':
            out = copy.deepcopy(obj)
        elif what == 'copy':
            out = copy.copy(obj)
        elif what == 'pickle':
            out = pickle.loads(pickle.dumps(obj))
        elif what == 'model':
            out = EC(model=obj.model())
        else:
            out = EC(Cij=obj.Cij)
    ctx.rec.count('path:' + what)
    return out, what


def run_workbuffer_case(ctx, EC, i):
    """One caller-owned axes object, overwritten in place between successive transform() calls."""
    rec, rng = ctx.rec, ctx.rng
    form = BUF.FORMS[i % 9]
    pattern = WB_PATTERNS[(i // 9) % 6]
    gap = WB_GAPS[(i + i // 54) % 4]
    style0 = (i // 2) % 5
    exact = form in BUF.EXACT_ONLY
    scale = GEN.SCALES[(i // 3) % 3] * float(rng.uniform(0.5, 2.0))
    kindA = WB_KINDS[i % 7]
    kindB = WB_KINDS[(i + 1 + (i // 7) % 5) % 7]
    caseA, kwA = make_truth(rng, kindA, scale)
    caseB, kwB = make_truth(rng, kindB, scale)
    eps = GEN.strain(rng, GEN.STRAINS[i % 5])
    en2 = float((eps * eps).sum())
    tag = 'workbuffer'
    rec.case((tag, form, pattern, gap), nontrivial=True, fp=fingerprint(caseA.c6, caseB.c6, form, pattern, gap))
    rec.count('workbuffer:form:' + form)
    rec.count('workbuffer:pattern:' + pattern)
    rec.count('workbuffer:gap:' + gap)
    rec.count(f'workbuffer:form-x-pattern:{form}:{pattern}')
    if i < 18:
        rec.sample(dict(buffer=form, pattern=pattern, between_calls=gap, Cij_A=caseA.c6, kind_A=kindA, kind_B=kindB))

    def next_rotation(k):
        if exact:
            return GEN.exact_rotation(rng, GEN.EXACT_ROTATIONS[(i + k) % 3])
        return GEN.rotation(rng, GEN.ROTATIONS[(i + 3 * k) % len(GEN.ROTATIONS)])

    A, xA = build_object(ctx, EC, caseA, kwA, kindA, 'constructor', i, tag)
    B, xB = build_object(ctx, EC, caseB, kwB, kindB, 'constructor', i + 1, tag)
    if A is None or B is None:
        return
    buf = BUF.Buffer(form, (3, 3), rng)
    kept = []                      # (object returned, array read from it, copy of that array)
    first = None

    def judge(obj, case, extra_rel, rot_before, step, zin):
        """transform(buf.obj) on obj, which holds case.c6 rotated by rot_before (after ``step`` earlier transforms that
        may have zeroed components of total magnitude zin); returns (result, total rotation, zin + what this call may zero)."""
        snap = buf.values()
        Ru = O.unit_rows(snap)
        T = None
        with ctx.guard('transform(axes held in a re-used object)', f'{tag}:{pattern}:call'):
            T = obj.transform(buf.obj)
        now = buf.values()
        rec.check(np.array_equal(now, snap) and (not buf.is_nd or buf.obj.dtype == np.dtype(BUF_DTYPE[form])),
                  'transform leaves the axes object it was handed unchanged', f'{tag}:args-untouched', form=form, before=snap, after=now)
        if T is None:
            return None, rot_before, zin
        total = Ru @ rot_before
        E = O.rotate_voigt(case.c6, total)
        extra = (extra_rel + 9 * case.dz + step * BASE) * case.cmax + 9 * zin
        t = T.Cij
        rec.close(ztol(E, THR_TRF, extra=extra), t, E,
                  'transform(axes) is the tensor rotation for the axes the object holds at the time of the call, whatever it held during earlier calls',
                  f'{tag}:{pattern}:value', form=form, step=step, between_calls=gap, axes=snap)
        with ctx.guard('energy of the co-rotated strain', f'{tag}:{pattern}:energy'):
            w0 = O.energy(O.c4_from_voigt(case.c6), eps)
            w1 = O.energy(T.Cijkl, O.rotate_strain(eps, total))
            rec.close(0.5 * en2 * 9 * (extra + zslack(E, THR_TRF) + BASE * case.cmax) + 1e-13 * abs(w0), w1, w0,
                      'eps:C:eps/2 is unchanged when tensor and strain are rotated together (axes handed over in a re-used object)',
                      f'{tag}:{pattern}:energy', form=form, step=step)
        kept.append((T, t, t.copy()))
        rec.count('workbuffer:transforms')
        rec.count('workbuffer:transforms:' + form)
        return T, total, zin + zslack(E, THR_TRF)

    X, xX, rotX, zX = A, xA, np.eye(3), 0.0    # running object of the 'chain' pattern
    last = None
    for k in range(WB_STEPS):
        style = BUF.WRITE_STYLES[(style0 + k) % 5]
        if style == 'inplace-op' and k > 0:
            op = BUF.INPLACE_OPS[(i + k) % 4]
            cur = buf.values()
            if op == 'transpose' and np.abs(cur @ cur.T - np.eye(3)).max() > 1e-15:
                op = 'cycle-rows'                  # the transpose of axes with rows of unequal length is not a set of orthogonal axes
            buf.inplace(op)
            rec.count('workbuffer:inplace:' + op)
        else:
            buf.write(next_rotation(k), style)
        rec.count('workbuffer:write:' + style)
        R = buf.values()
        if pattern == 'same-object':
            targets = [(A, caseA, xA, np.eye(3))]
        elif pattern == 'two-objects':
            targets = [(A, caseA, xA, np.eye(3)), (B, caseB, xB, np.eye(3))]
            if k % 2:
                targets.reverse()
        elif pattern == 'chain':
            targets = [(X, caseA, xX, rotX)]
        elif pattern in ('fresh-objects', 'default-then-set'):
            kind = WB_KINDS[(i + k) % 7]
            cs, kw = make_truth(rng, kind, scale)
            obj, x = build_object(ctx, EC, cs, kw, kind, 'constructor' if pattern == 'fresh-objects' else 'default-then-set', i + k, tag)
            if obj is None:
                continue
            targets = [(obj, cs, x, np.eye(3))]
        else:
            obj, what = copies_of(ctx, EC, A, i + k, tag)
            if obj is None:
                continue
            rec.check(obj is not A, f'{what} gives another object', f'{tag}:copies:distinct', what=what)
            targets = [(obj, caseA, xA + (4e-16 if what == 'model' else 0.0), np.eye(3))]
        for (obj, cs, x, rot0) in targets:
            chain = pattern == 'chain'
            T, total, z = judge(obj, cs, x, rot0, k if chain else 0, zX if chain else 0.0)
            if T is None:
                continue
            last = (T, cs, x, total, z)
            if first is None:
                first = (obj, cs, R.copy(), T.Cij)
            zobj = zX if chain else 0.0         # what obj itself may have lost to zeroing before this step
            if chain:
                X, rotX, zX = T, total, z
            if gap == 'equal-values-other-array':
                with ctx.guard('transform(equal axes in another array)', f'{tag}:{pattern}:equal-values'):
                    T2 = obj.transform(R.copy())
                    # another memory layout may round the unit vectors differently: a few ulp, not bitwise
                    rec.close(2 * ztol(T.Cij, THR_TRF, base=1e-13), T2.Cij, T.Cij, 'equal axes in another array give the same result', f'{tag}:{pattern}:equal-values', form=form)
            elif gap == 'other-values-other-array':
                with ctx.guard('transform(other axes in another array)', f'{tag}:{pattern}:other-values'):
                    R2 = next_rotation(k + 1)
                    T2 = obj.transform(container(R2, bool(k % 2)))
                    E2 = O.rotate_voigt(cs.c6, O.unit_rows(R2) @ rot0)
                    st = k if chain else 0
                    rec.close(ztol(E2, THR_TRF, extra=(x + 9 * cs.dz + st * BASE) * cs.cmax + 9 * zobj), T2.Cij, E2,
                              'transform with other axes in between is the rotation for those axes', f'{tag}:{pattern}:other-values', form=form)
            elif gap == 'repeat-unchanged':
                with ctx.guard('transform(the same unchanged object again)', f'{tag}:{pattern}:repeat'):
                    T2 = obj.transform(buf.obj)
                    rec.check(np.array_equal(T2.Cij, T.Cij), 'the same call repeated with the unchanged object gives the same result', f'{tag}:{pattern}:repeat', form=form)
                    rec.count('workbuffer:repeats')

        # a call that is refused (left-handed axes: outside the quantifier, documented ValueError) must not leave anything behind
        if k == 2 and (i // 4) % 3 == 0 and last is not None:
            cur = buf.values()
            flipped = cur.copy()
            flipped[2] = -flipped[2]
            buf.write(flipped, 'row-by-row')
            with ctx.guard('transform(left-handed axes)', f'{tag}:{pattern}:improper', accept=(ValueError,)):
                last[0].transform(buf.obj)
                rec.count('workbuffer:improper-axes-accepted')       # no verdict: the statement speaks of proper rotations only
            rec.count('workbuffer:improper-axes-in-between')
            buf.write(cur, 'copyto')
            with ctx.guard('transform after a refused call', f'{tag}:{pattern}:after-refusal'):
                T, cs, x, total, z = last
                again = A.transform(buf.obj)
                E = O.rotate_voigt(caseA.c6, O.unit_rows(cur))
                rec.close(ztol(E, THR_TRF, extra=(xA + 9 * caseA.dz) * caseA.cmax), again.Cij, E,
                          'transform after a refused call is the rotation for the axes given', f'{tag}:{pattern}:after-refusal', form=form)

    # inverse rotation written into the same object
    if last is not None:
        T, cs, x, total, z = last
        Rinv = O.unit_rows(buf.values()).T.copy()
        if buf.representable(Rinv):
            buf.write(Rinv, 'slice-assign')
            st = WB_STEPS if pattern == 'chain' else 1
            back = None
            with ctx.guard('inverse transform through the re-used object', f'{tag}:{pattern}:inverse'):
                back = T.transform(buf.obj)
            if back is not None:
                E = O.rotate_voigt(cs.c6, Rinv @ total)
                rec.close(ztol(E, THR_TRF, extra=(x + 9 * cs.dz + st * BASE) * cs.cmax + 9 * z), back.Cij, E,
                          'transform(A) followed by transform(A^T), A^T written into the object that held A, undoes the rotation', f'{tag}:{pattern}:inverse', form=form)
                rec.count('workbuffer:inverses')
        else:
            rec.count('workbuffer:inverse-skipped-not-representable')
    # the same call with an equal argument gives the same value whatever happened in between
    if first is not None:
        obj, cs, R0, t0 = first
        buf.write(R0, 'elementwise')
        with ctx.guard('first call repeated at the end', f'{tag}:{pattern}:repeat-equal-argument'):
            again = obj.transform(buf.obj).Cij
            rec.check(np.array_equal(again, t0), 'the first call repeated with equal axes gives the first result again, whatever was computed in between',
                      f'{tag}:{pattern}:repeat-equal-argument', form=form, max_dev=float(np.abs(again - t0).max()))
            rec.count('workbuffer:repeat-equal-argument')
    # results handed out earlier are not touched by later calls
    for (T, t, tc) in kept:
        rec.check(np.array_equal(t, tc), 'an array read from an earlier result is not changed by later calls', f'{tag}:kept-array-stable', form=form)
        with ctx.guard('re-reading an earlier result', f'{tag}:kept-object-stable'):
            rec.check(np.array_equal(T.Cij, tc), 'an earlier result still holds the tensor it was returned with', f'{tag}:kept-object-stable', form=form)
        rec.count('workbuffer:kept-results-rejudged')


BUF_DTYPE = {'f64-c': 'float64', 'f64-fortran': 'float64', 'f64-view': 'float64', 'f64-strided': 'float64', 'f32': 'float32', 'i64': 'int64'}


# ==========================================================================
ARG_ROUTES = ('constructor', 'setter-on-default', 'setter-on-used', 'setter-on-copy')
ARG_SHAPE = {'Cij': (6, 6), 'Sij': (6, 6), 'Cij9': (9, 9), 'Cijkl': (3, 3, 3, 3), 'Sijkl': (3, 3, 3, 3)}
ARG_RESULTS = ('transform-identity', 'transform', 'normalized-triclinic', 'normalized-other', 'deepcopy', 'copy', 'pickle', 'model')


def voigt_of(vals, r):
    """Stiffness 6x6 that the values of representation r stand for (oracle maps only)."""
    if r == 'Cij':
        return np.array(vals, float)
    if r == 'Sij':
        return np.linalg.inv(vals)
    if r == 'Cij9':
        return O.voigt_from_c9(vals)
    if r == 'Cijkl':
        return O.voigt_from_c4(vals)
    return np.linalg.inv(O.voigt_from_s4(vals))


def argument_values(rng, r, form, scale, tiny):
    """(values to put into the caller's object, Case of the stiffness they stand for)."""
    for _ in range(50):
        zs = None
        if form == 'i64' or (form == 'f32' and r.startswith('C')):
            c0 = BUF.exact_spd6(rng, GEN.CONDS[int(rng.integers(0, 2))])
        elif tiny:
            c0, t = GEN.tiny_entry(rng, 0)
            c0, zs = c0 * scale, t
        else:
            c0 = GEN.spd_generic(rng, GEN.CONDS[int(rng.integers(0, 3))]) * scale
        vals = oracle_repr(c0, r)
        if form == 'f32':
            vals = vals.astype(np.float32).astype(float)
        c6 = voigt_of(vals, r)
        c6 = (c6 + c6.T) / 2
        if O.is_spd(c6) and O.cond6(c6) <= 2e4:
            return vals, Case(c6, zs)
    raise RuntimeError('argument_values: no draw accepted')


def run_argument_case(ctx, EC, i):
    """Constructors and setters fed from one caller-owned object that is overwritten in place afterwards; two
    instances alive at the same time; results handed out must stay what they were."""
    import copy
    import pickle
    rec, rng = ctx.rec, ctx.rng
    r = GEN.REPRS[i % 5]
    form = BUF.FORMS[(i // 5) % 9]
    if form == 'i64' and r.startswith('S'):
        form = 'f32'                        # a compliance is never integer valued
    routeA = ARG_ROUTES[(i // 45) % 4]
    routeB = ARG_ROUTES[(i // 45 + 1 + i % 3) % 4]
    tiny = r.startswith('C') and form not in BUF.EXACT_ONLY and (i // 5) % 2 == 0 and (i // 90) % 2 == 0
    scale = GEN.SCALES[(i // 2) % 3] * float(rng.uniform(0.5, 2.0))
    valsA, caseA = argument_values(rng, r, form, scale, tiny)
    valsB, caseB = argument_values(rng, r, form, scale, False)
    tag = 'arguments'
    rec.case((tag, r, form, routeA, routeB, 'tiny' if tiny else '-'), nontrivial=True, fp=fingerprint(valsA, valsB, r, form))
    rec.count('arguments:entry:' + r)
    rec.count('arguments:form:' + form)
    rec.count('arguments:route:' + routeA)
    rec.count(f'arguments:entry-x-form:{r}:{form}')
    if tiny:
        rec.count('arguments:tiny-entry')
    if i < 16:
        rec.sample(dict(entry=r, container=form, first_route=routeA, second_route=routeB, values_A=valsA))
    xtra = 0.0 if r.startswith('C') else 1e-13

    def build(route, arg, case_unused):
        obj = None
        with ctx.guard(f'{route} with {r} from a re-used object', f'{tag}:build:{route}:{r}'):
            if route == 'constructor':
                obj = EC(**{r: arg})
            elif route == 'setter-on-default':
                obj = EC()
                setattr(obj, r, arg)
            elif route == 'setter-on-used':
                obj = EC(Cij=GEN.spd_generic(rng, 10.0))
                obj.Sijkl, obj.bulk(), obj.shear()          # an object that has been read before it is given new values
                setattr(obj, r, arg)
            else:
                obj = copy.deepcopy(EC(Cijkl=O.c4_from_voigt(GEN.spd_generic(rng, 10.0))))
                setattr(obj, r, arg)
        return obj

    def holds(obj, case, key, clause, full=True):
        """obj still is the tensor case.c6: Cij first (one clause, one key), then the other representations."""
        got = None
        with ctx.guard('reading Cij', key):
            got = obj.Cij
        if got is None:
            return False
        ok = rec.close(case.tol('Cij', xtra * case.cond), got, case.exp['Cij'], clause, key, entry=r, form=form)
        if ok and full:
            for rr in GEN.REPRS[1:]:
                with ctx.guard(f'reading {rr}', f'{key}:{rr}'):
                    rec.close(case.tol(rr, xtra * case.cond), getattr(obj, rr), case.exp[rr], clause + f' ({rr})', f'{key}:{rr}', entry=r, form=form)
        return ok

    buf = BUF.Buffer(form, ARG_SHAPE[r], rng)
    buf.write(valsA, BUF.WRITE_STYLES[i % 4])
    A = build(routeA, buf.obj, caseA)
    if A is None:
        return
    rec.check(np.array_equal(buf.values(), valsA), f'the object handed over as {r} still holds the caller\'s values after the call',
              f'{tag}:arg-edited:{r}', form=form, tiny=tiny, changed=int((buf.values() != valsA).sum()))
    rec.count('arguments:arg-untouched-evaluations')
    if not holds(A, caseA, f'{tag}:first:{r}', f'an object given {r} in a caller-owned {form} holds that tensor'):
        return
    keptA = [(rr, arr, arr.copy()) for rr, arr in ((rr, getattr(A, rr)) for rr in GEN.REPRS)]

    # the caller re-uses its object for the next tensor; a second instance is built from it
    buf.write(valsB, BUF.WRITE_STYLES[(i + 1) % 4])
    aliveA = holds(A, caseA, f'{tag}:arg-alias:{r}', 'an object keeps its tensor when the caller overwrites the array it was built from', full=False)
    B = build(routeB, buf.obj, caseB)
    if B is None:
        return
    aliveB = holds(B, caseB, f'{tag}:second-instance:{r}', 'a second object built from the re-used array holds the second tensor')
    if aliveA:
        aliveA = holds(A, caseA, f'{tag}:first-after-second:{r}', 'the first object is unchanged by building a second one')
    for rr, arr, cp in keptA:
        rec.check(np.array_equal(arr, cp), 'arrays read from the first object are unchanged by building the second', f'{tag}:kept-arrays:{rr}', entry=r, form=form)
    rec.count('arguments:second-instances')
    buf.scribble(rng, ('zeros', 'asymmetric', 'random')[i % 3])
    if aliveA:
        aliveA = holds(A, caseA, f'{tag}:arg-alias:{r}', 'an object keeps its tensor when the caller overwrites the array it was built from', full=False)
    if aliveB:
        aliveB = holds(B, caseB, f'{tag}:arg-alias:{r}', 'an object keeps its tensor when the caller overwrites the array it was built from', full=False)
    rec.count('arguments:alias-evaluations')
    if not (aliveA and aliveB):
        rec.count('arguments:stopped-after-alias')
        return

    # two live instances used in turn
    R = GEN.rotation(rng, GEN.ROTATIONS[i % len(GEN.ROTATIONS)])
    Ru = O.unit_rows(R)
    with ctx.guard('two instances used in turn', f'{tag}:interleaved'):
        TA = A.transform(R)
        kB = B.bulk('Reuss')
        TB = B.transform(R)
        gA = A.shear('Hill')
        NB = B.normalized_as(NORMAL_SYSTEMS[i % 6])
        for obj, T, case in ((A, TA, caseA), (B, TB, caseB)):
            E = O.rotate_voigt(case.c6, Ru)
            rec.close(ztol(E, THR_TRF, extra=(xtra * case.cond + 9 * case.dz) * case.cmax), T.Cij, E,
                      'transform of one instance is unaffected by the other instance', f'{tag}:interleaved:transform', entry=r)
        refA, refB = O.vrh(caseA.c6), O.vrh(caseB.c6)
        rec.close(modulus_tol('Reuss', refB['bulk', 'Reuss'], caseB.cond, caseB.smax, caseB.cmax, caseB.dz + xtra * caseB.cond), kB, refB['bulk', 'Reuss'],
                  'bulk(Reuss) of one instance is unaffected by the other instance', f'{tag}:interleaved:bulk')
        rec.close(modulus_tol('Hill', refA['shear', 'Hill'], caseA.cond, caseA.smax, caseA.cmax, caseA.dz + xtra * caseA.cond), gA, refA['shear', 'Hill'],
                  'shear(Hill) of one instance is unaffected by the other instance', f'{tag}:interleaved:shear')
        rec.check(NB is not B and NB is not A, 'normalized_as returns a new object', f'{tag}:interleaved:normalized-new-object')
    holds(A, caseA, f'{tag}:after-interleaving:{r}', 'the first of two instances still holds its tensor after both were used in turn')
    holds(B, caseB, f'{tag}:after-interleaving:{r}', 'the second of two instances still holds its tensor after both were used in turn')
    rec.count('arguments:interleavings')

    # what a method returns is an object of its own: giving it new values does not reach the object it came from
    for k in range(3):
        what = ARG_RESULTS[(i + 3 * k) % 8]
        X, E, same = None, None, True
        with ctx.guard(f'result of {what}', f'{tag}:result:{what}'):
            if what == 'transform-identity':
                X = A.transform(container(np.eye(3), bool(i % 2)))
            elif what == 'transform':
                X, same = A.transform(R), False
            elif what == 'normalized-triclinic':
                X = A.normalized_as('triclinic')
            elif what == 'normalized-other':
                X, same = A.normalized_as(NORMAL_SYSTEMS[(i + k) % 6]), False
            elif what == 'deepcopy':
                X = copy.deepcopy(A)
            elif what == 'copy':
                X = copy.copy(A)
            elif what == 'pickle':
                X = pickle.loads(pickle.dumps(A))
            else:
                X = EC(model=A.model())
        if X is None:
            continue
        rec.check(X is not A, f'{what} returns an object of its own', f'{tag}:result-distinct:{what}')
        if same:
            with ctx.guard(f'reading the result of {what}', f'{tag}:result-value:{what}'):
                rec.close(ztol(caseA.c6, THR_TRF, extra=(xtra * caseA.cond + 9 * caseA.dz + 4e-16) * caseA.cmax), X.Cij, caseA.c6,
                          f'{what} returns the same tensor', f'{tag}:result-value:{what}', entry=r)
        with ctx.guard(f'giving the result of {what} new values', f'{tag}:result-independent:{what}'):
            rr = GEN.REPRS[(i + k) % 5]
            setattr(X, rr, container(caseB.exp[rr], bool(k % 2)))
            rec.close(caseB.tol('Cij', 1e-13 * caseB.cond), X.Cij, caseB.c6, f'the result of {what} takes new values', f'{tag}:result-reassigned:{what}')
        holds(A, caseA, f'{tag}:result-independent:{what}', f'giving the result of {what} new values leaves the object it came from unchanged', full=False)
        rec.count('arguments:result:' + what)
    for rr, arr, cp in keptA:
        rec.check(np.array_equal(arr, cp), 'arrays read from an object are unchanged by everything done afterwards', f'{tag}:kept-arrays:{rr}', entry=r, form=form)


# ==========================================================================
PATHS = ('model-DM', 'model-json', 'model-xml', 'model-bytes-file', 'model-old-format', 'model-normalised',
         'named-int', 'named-float64-scalar', 'named-0d-array', 'named-float32-exact')
PATH_UNITS = (None, 'GPa', 'Pa', 'eV/angstrom^3', 'mJ/mm^3')
PATH_KINDS = ('spd', 'cubic', 'hexagonal', 'tetragonal', 'rhombohedral', 'orthorhombic', 'monoclinic', 'triclinic')
NO_ARITHMETIC = ('cubic', 'orthorhombic', 'monoclinic', 'triclinic')       # constructors that only place the constants given


def run_path_case(ctx, EC, i):
    """Alternative construction paths: data model written and read back in every accepted form (new and old layout,
    with and without units, constructor and method on a used object), named constants given as other scalar types."""
    import io
    import atomman.unitconvert as uc
    from DataModelDict import DataModelDict as DM
    rec, rng = ctx.rec, ctx.rng
    path = PATHS[i % 10]
    unit = PATH_UNITS[(i // 10) % 5]
    kind = PATH_KINDS[(i // 10 + i // 50) % 8]
    on_used = bool((i // 10) % 2)
    scale = GEN.SCALES[(i // 20) % 3] * float(rng.uniform(0.5, 2.0))
    tag = 'paths'
    named = path.startswith('named')
    if named and kind == 'spd':
        kind = 'triclinic'
    if path == 'named-float32-exact' and kind not in NO_ARITHMETIC:
        kind = NO_ARITHMETIC[(i // 10) % 4]
    if path == 'model-old-format' and kind == 'spd':
        kind = 'triclinic'
    if path == 'model-normalised' and kind in ('spd', 'monoclinic', 'triclinic'):
        kind = ('cubic', 'hexagonal', 'tetragonal', 'rhombohedral', 'orthorhombic')[(i // 10) % 5]

    # ---- truth ------------------------------------------------------------------
    if kind == 'spd':
        case, kw, group = Case(GEN.spd_generic(rng, GEN.CONDS[i % 3]) * scale), None, None
    else:
        group, variants = GEN.SYSTEMS[kind]
        names = variants[(i // 80) % len(variants)]
        if path in ('named-int', 'named-float32-exact') and len({'C11', 'C12', 'C66'} & set(names)) == 3 and kind in ('hexagonal', 'rhombohedral'):
            names = variants[0]            # rounded constants: a redundant C66 would no longer equal (C11-C12)/2
        raw, _ = GEN.system_tensor(rng, kind, cond=1e3)
        raw = raw * scale
        if path == 'named-int':
            raw = np.round(raw / np.abs(raw).max() * 20000)            # constants in units of their last digit
        elif path == 'named-float32-exact':
            raw = raw.astype(np.float32).astype(float)
        kw, c6 = GEN.named_constants(raw, names, group)
        if not (O.is_spd(c6) and O.cond6(c6) <= 1e4):
            rec.count('paths:skipped-rounded-constants-not-spd')
            return
        case = Case(c6)
    rec.case((tag, path, kind, str(unit), 'used' if on_used else 'new'), nontrivial=True, fp=fingerprint(case.c6, path, str(unit)))
    rec.count('paths:path:' + path)
    rec.count('paths:kind:' + kind)
    if i < 20:
        rec.sample(dict(path=path, kind=kind, unit=unit, keywords=kw, Cij=case.c6))

    def target():
        if not on_used:
            return None
        X = EC(Cij=GEN.spd_generic(rng, 10.0))
        X.Sij, X.bulk()
        return X

    def judge(obj, rel, key, clause):
        got = read_all(ctx, obj, key)
        for rr, val in got.items():
            rec.close(case.tol(rr, rel * (1 if rr.startswith('C') else 40 * case.cond)), val, case.exp[rr], clause + f' ({rr})', f'{key}:{rr}', path=path, unit=unit)
        R = GEN.rotation(rng, GEN.ROTATIONS[i % len(GEN.ROTATIONS)])
        with ctx.guard('transform of an object built on an alternative path', key + ':transform'):
            E = O.rotate_voigt(case.c6, O.unit_rows(R))
            rec.close(ztol(E, THR_TRF, extra=(9 * rel + 9 * case.dz) * case.cmax), obj.transform(R).Cij, E, clause + ' (transform)', key + ':transform', path=path)

    # ---- named constants as other scalar types -------------------------------------
    if named:
        conv = {'named-int': int, 'named-float64-scalar': np.float64, 'named-0d-array': lambda v: np.array(v, float),
                'named-float32-exact': np.float32}[path]
        kw2 = {n: conv(v) for n, v in kw.items()}
        assert all(float(kw2[n]) == kw[n] for n in kw)
        obj = None
        with ctx.guard(f'constants of a crystal system given as {path[6:]}', f'{tag}:{path}:build'):
            if on_used:
                obj = target()
                getattr(obj, GEN.SYSTEM_METHOD[kind])(**kw2)
            else:
                obj = EC(**kw2)
        if obj is None:
            return
        judge(obj, 0.0, f'{tag}:{path}', f'named constants given as {path[6:]} build the invariant tensor carrying them')
        with ctx.guard('dtype of the stored matrix', f'{tag}:{path}:dtype'):
            rec.check(obj.Cij.dtype == np.float64, 'Cij is a float64 array whatever scalar type the constants had', f'{tag}:{path}:dtype')
        for n in kw2:                     # what the caller does with its own numbers afterwards
            if isinstance(kw2[n], np.ndarray):
                kw2[n][...] = -1.0
        with ctx.guard('re-reading', f'{tag}:{path}:after'):
            rec.close(case.tol('Cij'), obj.Cij, case.c6, 'the object keeps its tensor when the caller overwrites the 0-d arrays it passed', f'{tag}:{path}:after')
        rec.count('paths:named-evaluations')
        return

    # ---- data model -----------------------------------------------------------------
    src = None
    with ctx.guard('building the source object', f'{tag}:source'):
        src = EC(**kw) if kw is not None else EC(Cijkl=case.exp['Cijkl'])
    if src is None:
        return
    factor = 1.0 if unit is None else float(uc.set_in_units(1.0, unit))
    rel = 0.0 if unit is None else 8e-16          # one division and one multiplication by the unit's value
    if path == 'model-old-format':
        # layout of older records: one entry per named constant, 'ij' = "i j", value with unit
        u = unit or 'GPa'
        f = float(uc.set_in_units(1.0, u))
        model = DM()
        model['elastic-constants'] = DM()
        for n, v in kw.items():
            c = DM()
            c['stiffness'] = DM([('value', v / f), ('unit', u)])
            c['ij'] = f'{n[1]} {n[2]}'
            model['elastic-constants'].append('C', c)
        rel = 8e-16
        arg = (model, model.json(), model.xml(), io.BytesIO(model.json().encode()))[(i // 10) % 4]
    else:
        model = None
        with ctx.guard('model()', f'{tag}:{path}:dump'):
            if path == 'model-normalised':
                model = src.model(unit=unit, crystal_system=OWN_SYSTEM[group])
            else:
                model = src.model(unit=unit)
        if model is None:
            return
        with ctx.guard('content of the data model', f'{tag}:{path}:content'):
            el = model['elastic-constants']['Cij']
            val = np.array(el['value'], float).reshape(tuple(el['shape'])) * factor
            rec.close(ztol(case.c6, THR_SET, extra=(rel + 20 * case.dz) * case.cmax), val, case.c6,
                      'the data model holds Cij in the unit it names', f'{tag}:{path}:content', unit=unit)
            rec.check(el.get('unit', None) == unit, 'the data model names the unit asked for', f'{tag}:{path}:unit', unit=unit, got=el.get('unit', None))
        arg = {'model-DM': model, 'model-json': model.json(), 'model-xml': model.xml(), 'model-normalised': model.json(),
               'model-bytes-file': io.BytesIO(model.json().encode())}[path]
        with ctx.guard('source after model()', f'{tag}:{path}:source-after'):
            rec.close(case.tol('Cij'), src.Cij, case.c6, 'model() leaves the object unchanged', f'{tag}:{path}:source-after')
    obj = None
    with ctx.guard(f'reading the data model ({path})', f'{tag}:{path}:load'):
        if on_used:
            obj = target()
            obj.model(model=arg)
        else:
            obj = EC(model=arg)
    if obj is None:
        return
    judge(obj, rel + (20 * case.dz if path == 'model-normalised' else 0.0), f'{tag}:{path}', 'a tensor written to a data model and read back is the same tensor')
    # the model the caller holds and the object read from it are independent
    if isinstance(arg, DM):
        with ctx.guard('overwriting the model after it was read', f'{tag}:{path}:model-independent'):
            el = arg['elastic-constants']
            if 'Cij' in el:
                el['Cij']['value'] = [0.0] * 36
            else:
                for c in el.aslist('C'):
                    c['stiffness']['value'] = 0.0
            rec.close(case.tol('Cij', rel + (20 * case.dz if path == 'model-normalised' else 0.0)), obj.Cij, case.c6, 'the object keeps its tensor when the caller edits the data model it was read from', f'{tag}:{path}:model-independent')
    rec.count('paths:model-evaluations')


# ==========================================================================
def run(ctx):
    import atomman as am
    EC = am.ElasticConstants
    rec = ctx.rec
    O.selfcheck()
    cover.start([FILE, 'atomman/tools/axes_check.py'])
    install_monitors(rec, EC)

    for i in ctx.cases('tensors', ctx.pick(1920, 10000)):
        run_tensor_case(ctx, EC, i)
    for i in ctx.cases('isotropic', ctx.pick(900, 4500)):
        run_iso_case(ctx, EC, i)
    for i in ctx.cases('histories', ctx.pick(216, 2160)):
        run_history_case(ctx, EC, i)
    for i in ctx.cases('workbuffers', ctx.pick(216, 1296)):
        run_workbuffer_case(ctx, EC, i)
    for i in ctx.cases('arguments', ctx.pick(180, 1080)):
        run_argument_case(ctx, EC, i)
    for i in ctx.cases('paths', ctx.pick(200, 1200)):
        run_path_case(ctx, EC, i)

    for k, v in monitor.calls.items():
        if isinstance(v, int):
            rec.count('monitor_calls:' + k, v)
    for name, lo, hi in (('index-tables', 137, 202), ('compliance-weights', 204, 245), ('transform', 247, 273),
                         ('isotropic-pairs', 301, 396), ('system-constructors', 409, 830), ('normalise-and-moduli', 832, 1037)):
        rec.count('reach:lines:' + name, cover.hits(FILE, lo, hi))
    rec.count('reach:lines:axes_check', cover.hits('atomman/tools/axes_check.py', 30, 47))

    # floors: every monitor and every hostile class was reached (deterministic by construction)
    for m in ('transform', 'bulk', 'shear', 'normalized_as', 'is_normal', 'isotropic', 'cubic', 'hexagonal',
              'tetragonal', 'rhombohedral', 'orthorhombic', 'monoclinic', 'triclinic'):
        rec.floor('monitor_calls:ElasticConstants.' + m, 40)
    for r in GEN.REPRS:
        rec.floor('monitor_calls:get:' + r, 200)
        rec.floor('monitor_calls:set:' + r, 100)
    for s in GEN.SOURCES:
        rec.floor('class:source:' + s, 50)
    for r in GEN.ROTATIONS:
        rec.floor('class:rotation:' + r, 100)
    for p in O.ISO_PAIRS:
        rec.floor('iso:pair:' + ','.join(p), 36)
    for c in GEN.NU_CLASSES:
        rec.floor('iso:class:' + c, 100)
    rec.floor('iso:skipped-undefined-at-nu=0:lambda,nu', 1)
    for op in GEN.HISTORY_OPS:
        rec.floor('history:op:' + op, 150)
    rec.floor('history:steps', 1500)
    rec.floor('conversions', 5000)
    rec.floor('roundtrips', 1000)
    rec.floor('symmetry-rotations', 500)
    rec.floor('compositions', 800)
    rec.floor('moduli-invariance', 800)
    rec.floor('normalized:idempotent-evaluations', 5000)
    rec.floor('normalized:fixed-point-evaluations', 500)
    rec.floor('normalized:is_normal-false-evaluations', 300)
    rec.floor('hostile:cond>=3e3', 50)
    rec.floor('hostile:transform-zeroing-possible', 40)
    rec.floor('hostile:tiny-entry:below-threshold', 15)
    rec.floor('hostile:tiny-entry:above-threshold', 15)
    rec.floor('class:container:list', 300)
    rec.floor('reach:lines:isotropic-pairs', 60)
    rec.floor('reach:lines:transform', 5)
    rec.floor('reach:lines:index-tables', 20)
    # round 4: caller-owned argument objects re-used between calls
    for f in BUF.FORMS:
        rec.floor('workbuffer:form:' + f, 20)
        rec.floor('workbuffer:transforms:' + f, 100)
        for pt in WB_PATTERNS:
            rec.floor(f'workbuffer:form-x-pattern:{f}:{pt}', 3)
    for pt in WB_PATTERNS:
        rec.floor('workbuffer:pattern:' + pt, 30)
    for g in WB_GAPS:
        rec.floor('workbuffer:gap:' + g, 40)
    for w in BUF.WRITE_STYLES:
        rec.floor('workbuffer:write:' + w, 100)
    rec.floor('workbuffer:transforms', 1000)
    rec.floor('workbuffer:repeats', 200)
    rec.floor('workbuffer:inverses', 120)
    rec.floor('workbuffer:improper-axes-in-between', 40)
    rec.floor('workbuffer:repeat-equal-argument', 200)
    rec.floor('workbuffer:kept-results-rejudged', 1000)
    rec.floor('default-instances', 150)
    for w in ('deepcopy', 'copy', 'pickle', 'model', 'Cij-of'):
        rec.floor('path:' + w, 30)
    for op in BUF.INPLACE_OPS:
        rec.floor('workbuffer:inplace:' + op, 8)           # 'transpose' needs rows of unit length: 19..27 observed
    for r in GEN.REPRS:
        rec.floor('arguments:entry:' + r, 30)
        for f in BUF.FORMS:
            if not (f == 'i64' and r.startswith('S')):
                rec.floor(f'arguments:entry-x-form:{r}:{f}', 3)
    for f in BUF.FORMS:
        rec.floor('arguments:form:' + f, 10)
    for rt in ARG_ROUTES:
        rec.floor('arguments:route:' + rt, 40)
    rec.floor('arguments:tiny-entry', 15)
    rec.floor('arguments:arg-untouched-evaluations', 170)
    rec.floor('arguments:alias-evaluations', 170)
    rec.floor('arguments:second-instances', 170)
    rec.floor('arguments:interleavings', 120)          # reachable with and without the staged finding (which stops 32 cases early)
    for w in ARG_RESULTS:
        rec.floor('arguments:result:' + w, 35)
    for pth in PATHS:
        rec.floor('paths:path:' + pth, 18)
    for kd in PATH_KINDS:
        rec.floor('paths:kind:' + kd, 10)
    rec.floor('paths:model-evaluations', 100)
    rec.floor('paths:named-evaluations', 60)
