"""C11 - Elastic-constant representations are one tensor; rotation is a tensor rotation."""
from __future__ import annotations

import numpy as np

from ..core import fingerprint
from ..gen import c11_tensors as GEN
from ..oracle import c11_elastic as O
from .. import cover, monitor

RULE = ('group "tensors": case i picks source = SOURCES[i % 16] (random SPD entered through each of the 5 '
        'representations; named constants of the 9 crystal-system keyword forms, keyword-name variants cycled; isotropic '
        'by a random modulus pair; SPD with one entry straddling the 1e-9 zeroing threshold), rotation class = '
        'ROTATIONS[(i // 16) % 8] (Haar, product of 2-3, cubic point-group element, angle 5e-9..1e-4, about a '
        'coordinate axis incl. pi-1e-7, orthogonal non-unit/integer rows, angle 1e-10..5e-9, exact half turn about a coordinate axis), scale 0.006/1/150, condition number '
        '10/300/1e4, strain class (5), ndarray/list containers.  group "isotropic": i enumerates the 15 modulus pairs '
        'x 5 Poisson classes (0, 1e-4..1e-2, <1/4, >1/4, 1/2-1e-4..1e-2) x 3 scales x alias names x keyword order.  '
        'group "histories": one object, 8 operations (first two = all 36 ordered pairs of read / read-then-overwrite-the-returned-'
        'array / modulus / transform / normalise / reassign through a random representation), all five representations '
        're-read in random order after every operation.  '
        'Every case is non-trivial (stiffness is SPD, never a multiple of the identity); distinct = distinct '
        'fingerprint of (stiffness, rotations) resp. (lambda, mu, pair, keywords).')
ASSUMPTIONS = ['stiffness matrices are symmetric positive definite with condition number <= 1e4',
               'entries below 1e-9*max (setter) / tol*max (transform) may be zeroed: such components are compared '
               'with their own magnitude as bound, and the Frobenius norm of what was zeroed is carried through chains',
               'isotropic pairs: (lambda,nu) and (M,E) are skipped at nu = 0 exactly (0/0, resp. branch point of the '
               'square root where the nu>0 and nu<0 solutions meet); elsewhere the bound is the propagated input rounding',
               'Poisson ratio in [0, 0.4999]; rotations are orthogonal to 1e-14',
               'normalized_as: only the six supported systems plus triclinic (monoclinic is refused by the code)',
               'oracle shares numpy/LAPACK (inv, eigvalsh) with the code under test']
CONFIG = {'quick': {'shards': 8, 'seeds': 1, 'timeout': 600},
          'thorough': {'shards': 16, 'seeds': 3, 'timeout': 3000}}

PRIV = '_ElasticConstants__c_ij'
BASE = 1e-12
THR_SET = 1.1e-9        # Cij setter zeroes |c|/max <= 1e-9
THR_TRF = 1.1e-8        # transform(tol=1e-8) zeroes |c|/max < 1e-8
NORMAL_SYSTEMS = ('isotropic', 'cubic', 'hexagonal', 'tetragonal', 'rhombohedral', 'orthorhombic')
NORMAL_GROUP = {'isotropic': 'isotropic', 'cubic': 'cubic', 'hexagonal': 'hexagonal', 'tetragonal': 'tetragonal-4',
                'rhombohedral': 'rhombohedral-3', 'orthorhombic': 'orthorhombic'}
METHOD_GROUP = dict(NORMAL_GROUP, monoclinic='monoclinic', triclinic='triclinic')
FILE = 'atomman/core/ElasticConstants.py'


def ztol(exp, thr, base=BASE, extra=0.0):
    """Per-component bound: rounding + (the component itself where it is small enough to be zeroed)."""
    a = np.abs(np.asarray(exp, float))
    m = a.max()
    return base * m + extra + np.where(a <= thr * m, a, 0.0)


def zslack(exp, thr):
    """Largest magnitude among components that may legitimately have been zeroed."""
    a = np.abs(np.asarray(exp, float))
    sub = a[a <= thr * a.max()]
    return float(sub.max()) if sub.size else 0.0


def container(arr, as_list):
    return np.asarray(arr, float).tolist() if as_list else np.array(arr, float)


def oracle_repr(c6, r):
    if r == 'Cij':
        return np.array(c6, float)
    if r == 'Sij':
        return O.compliance6(c6)
    if r == 'Cij9':
        return O.c9_from_voigt(c6)
    if r == 'Cijkl':
        return O.c4_from_voigt(c6)
    if r == 'Sijkl':
        return O.s4_from_voigt(O.compliance6(c6))
    raise ValueError(r)


def modulus_tol(style, val, cond, smax, cmax, dz=0.0):
    """Bound on a computed Voigt/Reuss/Hill modulus.  Voigt sums nine entries of C.  Reuss is the reciprocal of a
    weighted sum (weights adding up to <= 10) of entries of S = inv(C), each known to cond*eps*Smax, so that
    d(1/K_R) <= 10 dS and dK_R <= 10 K_R^2 dS - the cancellation in that sum (near-incompressible solids) is what
    makes the Reuss moduli sensitive like cond^2.  dz: relative perturbation of the entries of C themselves."""
    dS = (1e-13 * cond + 40 * cond * dz) * smax
    v = (1e-13 * cond + 10 * dz) * cmax        # cond: a stiffness entered as a compliance is inv(S), known to cond*eps
    r = 10 * val * val * dS + 1e-13 * abs(val)
    return {'Voigt': v, 'Reuss': r, 'Hill': v + r}[style]


def invariance_defect(c6, group):
    c6 = np.asarray(c6, float)
    return max([float(np.abs(O.rotate_voigt(c6, g) - c6).max()) for g in O.GENERATORS[group]] + [0.0])


# ==========================================================================
# monitors on the real class (fire on every call, including internal ones)
def install_monitors(rec, EC):
    state = {'busy': 0}

    def wrap(name, fn):
        def post(args, kwargs, result, exc, old):
            if exc is not None or state['busy']:
                return
            state['busy'] += 1
            try:
                fn(args, kwargs, result, old)
            except Exception as e:          # a monitor that cannot evaluate is reported, never silently dropped
                rec.fail('monitor ran to completion', 'monitor-error:' + name, exception=e)
            finally:
                state['busy'] -= 1
        return post

    def internal(obj):
        return np.array(getattr(obj, PRIV), float)

    def spd_cond(c):
        k = O.cond6(c)
        if not np.isfinite(k) or k > 1e8:
            rec.count('monitor:skipped-not-spd')
            return None
        return max(k, 10.0)

    # -- methods -------------------------------------------------------------
    def post_transform(args, kwargs, result, old):
        axes = args[1] if len(args) > 1 else kwargs['axes']
        tol = args[2] if len(args) > 2 else kwargs.get('tol', 1e-8)
        exp = O.rotate_voigt(old, O.unit_rows(np.asarray(axes, float)))
        rec.close(ztol(exp, 1.1 * max(tol, 1e-9)), internal(result), exp,
                  'monitor: transform(axes) returns R R R R C with R = unit rows of axes', 'monitor:transform')

    def post_modulus(which):
        def post(args, kwargs, result, old):
            style = args[1] if len(args) > 1 else kwargs.get('style', 'Hill')
            c = internal(args[0])
            k = spd_cond(c)
            if k is None:
                return
            exp = O.vrh(c)[(which, style)]
            rec.close(modulus_tol(style, exp, k, np.abs(O.compliance6(c)).max(), np.abs(c).max()), result, exp,
                      f'monitor: {which}() equals the isotropic projection of C (Voigt), of S (Reuss), their mean (Hill)',
                      f'monitor:{which}:{style}')
        return post

    def post_normalized(args, kwargs, result, old):
        system = args[1] if len(args) > 1 else kwargs['crystal_system']
        n1 = internal(result)
        try:
            n2 = internal(result.normalized_as(system))
        except Exception as e:
            rec.fail('monitor: a normalised tensor can be normalised again', 'monitor:normalized:again:' + system, exception=e)
            return
        rec.close(ztol(n1, THR_SET), n2, n1, 'monitor: normalized_as(s).normalized_as(s) == normalized_as(s)', 'monitor:normalized:idempotent:' + system)
        rec.count('normalized:idempotent-evaluations')
        rec.count('normalized:idempotent:' + system)
        g = NORMAL_GROUP.get(system)
        if g is not None:
            rec.check(invariance_defect(n1, g) <= 1e-11 * np.abs(n1).max(),
                      'monitor: normalized_as(system) returns a tensor with that system\'s symmetry',
                      'monitor:normalized:symmetry:' + system, Cij=n1)

    def post_is_normal(args, kwargs, result, old):
        self = args[0]
        system = args[1] if len(args) > 1 else kwargs['crystal_system']
        atol = args[2] if len(args) > 2 else kwargs.get('atol', 1e-4)
        rtol = args[3] if len(args) > 3 else kwargs.get('rtol', 1e-4)
        c = internal(self)
        n = internal(self.normalized_as(system))
        err = np.abs(c - n) - (atol + rtol * np.abs(n))
        if np.abs(err).min() < 1e-12 * np.abs(c).max():
            rec.count('monitor:is_normal:exempt-on-tolerance-edge')
            return
        rec.check(bool(result) == bool((err <= 0).all()),
                  'monitor: is_normal(system) iff every Cij matches the normalised value within atol + rtol*|value|',
                  'monitor:is_normal', system=system, result=result)

    def post_system(method):
        group = METHOD_GROUP[method]

        def post(args, kwargs, result, old):
            c = internal(args[0])
            m = np.abs(c).max()
            for name, val in kwargs.items():
                i, j = O.named_position(name)
                tol = BASE * m + (abs(val) if abs(val) <= THR_SET * m else 0.0)
                rec.close(tol, [c[i, j], c[j, i]], [val, val],
                          'monitor: the constant named Cij is entry (i,j) and (j,i) of the stiffness matrix',
                          f'monitor:{method}:named', name=name)
            rec.check(invariance_defect(c, group) <= 1e-11 * m,
                      'monitor: a tensor built from a crystal system\'s constants is invariant under that system\'s rotations',
                      f'monitor:{method}:invariant', kwargs=kwargs, Cij=c)
        return post

    inv_alias = {v: k for k, v in O.ISO_ALIAS.items()}

    def post_isotropic(args, kwargs, result, old):
        c = internal(args[0])
        m = np.abs(c).max()
        lam, mu = c[0, 1], c[3, 3]
        rec.close(BASE * m, c, O.iso_c6(lam, mu), 'monitor: isotropic() builds lambda dd + mu(dd+dd)', 'monitor:isotropic:form')
        mod = O.iso_moduli(lam, mu)
        for name, val in kwargs.items():
            n = inv_alias.get(name, name)
            tol = 1e-10 if n == 'nu' else 1e-10 * (abs(val) + m)
            rec.close(tol, mod[n], val, 'monitor: the isotropic tensor built from a modulus pair has those two moduli',
                      'monitor:isotropic:residual:' + n, given=kwargs)

    monitor.observe(EC, 'transform', wrap('transform', post_transform),
                    pre=lambda args, kwargs: np.array(getattr(args[0], PRIV), float))
    monitor.observe(EC, 'bulk', wrap('bulk', post_modulus('bulk')))
    monitor.observe(EC, 'shear', wrap('shear', post_modulus('shear')))
    monitor.observe(EC, 'normalized_as', wrap('normalized_as', post_normalized))
    monitor.observe(EC, 'is_normal', wrap('is_normal', post_is_normal))
    for meth in ('cubic', 'hexagonal', 'tetragonal', 'rhombohedral', 'orthorhombic', 'monoclinic', 'triclinic'):
        monitor.observe(EC, meth, wrap(meth, post_system(meth)))
    monitor.observe(EC, 'isotropic', wrap('isotropic', post_isotropic))

    # -- representation properties --------------------------------------------
    def get_Cij(self, r):
        rec.check(np.array_equal(r, getattr(self, PRIV)) and r is not getattr(self, PRIV),
                  'monitor: Cij getter returns a copy of the stored matrix', 'monitor:get:Cij')

    def get_Sij(self, r):
        c = internal(self)
        k = spd_cond(c)
        if k is not None:
            rec.close(1e-13 * k, r @ c, np.eye(6), 'monitor: Sij getter times stored Cij is the identity', 'monitor:get:Sij')

    def get_Cij9(self, r):
        rec.check(np.array_equal(r, O.c9_from_voigt(internal(self))), 'monitor: Cij9 getter places c_(ij)(kl) over the nine ordered pairs', 'monitor:get:Cij9')

    def get_Cijkl(self, r):
        rec.check(np.array_equal(r, O.c4_from_voigt(internal(self))), 'monitor: Cijkl getter is C_ijkl = c_(ij)(kl)', 'monitor:get:Cijkl')

    def get_Sijkl(self, r):
        c = internal(self)
        k = spd_cond(c)
        if k is not None:
            exp = O.s4_from_voigt(O.compliance6(c))
            rec.close(1e-13 * k * np.abs(exp).max(), r, exp, 'monitor: Sijkl getter is S_ijkl = s_(ij)(kl)/(w w)', 'monitor:get:Sijkl')

    def set_Cij(self, v):
        rec.close(ztol(v, THR_SET, base=1e-15), internal(self), v, 'monitor: Cij setter stores the matrix', 'monitor:set:Cij')

    def set_Sij(self, v):
        k = spd_cond((v + v.T) / 2)
        if k is not None:
            exp = np.linalg.inv(v)
            rec.close(ztol(exp, THR_SET, base=1e-13 * k), internal(self), exp, 'monitor: Sij setter stores the inverse', 'monitor:set:Sij')

    def set_Cij9(self, v):
        rec.close(ztol(v[:6, :6], THR_SET, base=1e-15), internal(self), O.voigt_from_c9(v), 'monitor: Cij9 setter stores the leading 6x6 block', 'monitor:set:Cij9')

    def set_Cijkl(self, v):
        exp = O.voigt_from_c4(v)
        rec.close(ztol(exp, THR_SET, base=1e-15), internal(self), exp, 'monitor: Cijkl setter stores c_(ij)(kl) = C_ijkl', 'monitor:set:Cijkl')

    def set_Sijkl(self, v):
        s6 = O.voigt_from_s4(v)
        k = spd_cond((s6 + s6.T) / 2)
        if k is not None:
            exp = np.linalg.inv(s6)
            rec.close(ztol(exp, THR_SET, base=1e-13 * k), internal(self), exp, 'monitor: Sijkl setter stores inv(w w S_ijkl)', 'monitor:set:Sijkl')

    def wrap_property(name, post_get, post_set):
        prop = EC.__dict__[name]

        def run_monitor(kind, fn, *a):
            if state['busy']:
                return
            state['busy'] += 1
            try:
                fn(*a)
                rec.count(f'monitor_calls:{kind}:{name}')
            except Exception as e:
                rec.fail('monitor ran to completion', f'monitor-error:{kind}:{name}', exception=e)
            finally:
                state['busy'] -= 1

        def fget(self):
            r = prop.fget(self)
            run_monitor('get', post_get, self, r)
            return r

        def fset(self, value):
            try:
                v0 = np.array(value, dtype=float)        # snapshot: the setter may edit its argument in place
            except Exception:
                v0 = None
            prop.fset(self, value)
            if v0 is not None:
                run_monitor('set', post_set, self, v0)
        setattr(EC, name, property(fget, fset, prop.fdel, prop.__doc__))

    wrap_property('Cij', get_Cij, set_Cij)
    wrap_property('Sij', get_Sij, set_Sij)
    wrap_property('Cij9', get_Cij9, set_Cij9)
    wrap_property('Cijkl', get_Cijkl, set_Cijkl)
    wrap_property('Sijkl', get_Sijkl, set_Sijkl)


# ==========================================================================
# direct clauses
class Case:
    """Ground truth and derived bounds of one stiffness."""

    def __init__(self, c6, zs=None, pert=0.0):
        self.c6 = np.array(c6, float)
        self.pert = pert        # relative size of a dense perturbation the entry route may add (conditioning of a modulus pair)
        self.cmax = float(np.abs(self.c6).max())
        self.cond = max(O.cond6(self.c6), 10.0)
        self.s6 = O.compliance6(self.c6)
        self.smax = float(np.abs(self.s6).max())
        # zs: relative size of a truth entry that the setter may zero (0 when there is none)
        self.zs = zslack(self.c6, THR_SET) / self.cmax if zs is None else zs
        self.dz = self.zs + self.pert
        self.exp = {r: oracle_repr(self.c6, r) for r in GEN.REPRS}

    def tol(self, r, extra_rel=0.0):
        """Bound for a value of representation r read from an object holding this stiffness."""
        if r.startswith('C'):
            return ztol(self.exp[r], THR_SET, extra=(extra_rel + self.pert) * self.cmax)
        return (1e-13 * self.cond + 40 * self.cond * (self.zs + self.pert) + extra_rel * self.cond) * self.smax


def read_all(ctx, obj, tag):
    got = {}
    for r in GEN.REPRS:
        with ctx.guard(f'reading {r}', f'get:{r}:{tag}'):
            got[r] = np.asarray(getattr(obj, r))
    return got


def check_reprs(rec, got, case, src):
    for r, val in got.items():
        rec.close(case.tol(r), val, case.exp[r], f'{r} read from a tensor entered as {src.split(":")[0]} equals the oracle\'s {r}',
                  f'convert:{src}->{r}')
        rec.count('conversions')


def check_tensor_laws(rec, got, case, eps, tag):
    """Symmetries, C:S = I_sym and 'one stress-strain law' across the representations (real getters, oracle contraction)."""
    if len(got) < 5:
        return
    c4, s4, c6, s6, c9 = got['Cijkl'], got['Sijkl'], got['Cij'], got['Sij'], got['Cij9']
    d = O.symmetry_defect(c4)
    rec.check(max(d[:2]) <= 1e-15 * case.cmax, 'Cijkl has the minor symmetries', 'symmetry:minor:Cijkl', defect=d)
    # a stiffness entered as a compliance is inv(S): symmetric to the rounding of the inverse, and the setter accepts that
    rec.check(d[2] <= 1e-14 * case.cond * case.cmax, 'Cijkl has the major symmetry', 'symmetry:major:Cijkl', defect=d)
    ds = O.symmetry_defect(s4)
    ts = case.tol('Sijkl')
    rec.check(max(ds[:2]) <= 1e-15 * case.smax, 'Sijkl has the minor symmetries', 'symmetry:minor:Sijkl', defect=ds)
    rec.check(ds[2] <= 2 * ts, 'Sijkl has the major symmetry', 'symmetry:major:Sijkl', defect=ds, tol=ts)
    tid = 1e-12 * case.cond + 100 * case.cond * case.dz
    rec.close(tid, O.contract(c4, s4), O.sym_identity(), 'Cijkl : Sklmn is the symmetric identity', 'identity:C:S', tag=tag)
    rec.close(tid, O.contract(s4, c4), O.sym_identity(), 'Sijkl : Cklmn is the symmetric identity', 'identity:S:C', tag=tag)
    # the same linear law through every representation
    en = float(np.abs(eps).max())
    sig = O.stress(c4, eps)
    tsig = 40 * (1e-13 + case.dz) * case.cmax * en
    rec.close(tsig, c6 @ O.strain_voigt(eps), O.stress_voigt(sig), 'Cij . (engineering strain vector) equals Cijkl : strain', 'law:Cij', eps=eps)
    rec.close(tsig, c9 @ O.nine_vector(eps), O.nine_vector(sig), 'Cij9 . (nine strain components) equals Cijkl : strain', 'law:Cij9', eps=eps)
    teps = (1e-11 * case.cond + 400 * case.cond * case.dz) * en
    rec.close(teps, O.strain_from_voigt(s6 @ O.stress_voigt(sig)), eps, 'Sij . stress vector returns the strain', 'law:Sij', eps=eps)
    rec.close(teps, np.tensordot(s4, sig, axes=([2, 3], [0, 1])), eps, 'Sijkl : stress returns the strain', 'law:Sijkl', eps=eps)
    e6 = O.strain_voigt(eps)
    rec.close(40 * (1e-13 + case.dz) * case.cmax * en * en, 0.5 * e6 @ c6 @ e6, O.energy(c4, eps),
              'strain-energy density is the same through Cij and Cijkl', 'law:energy')


def run_tensor_case(ctx, EC, i):
    rec, rng = ctx.rec, ctx.rng
    nS, nR = len(GEN.SOURCES), len(GEN.ROTATIONS)
    src = GEN.SOURCES[i % nS]
    sweep = i // nS
    rotc = GEN.ROTATIONS[sweep % nR]
    q = sweep // nR
    scale = GEN.SCALES[q % 3] * float(rng.uniform(0.5, 2.0))
    condc = GEN.CONDS[(q // 3 + sweep) % 3]
    strainc = GEN.STRAINS[sweep % 5]
    as_list = bool((q + sweep) % 2)
    variant = sweep // 5

    # ---- ground truth and the keyword arguments that enter it ---------------
    group = None
    zs = None
    direct_method = None
    if src.startswith('spd:'):
        entry = src[4:]
        c6 = GEN.spd_generic(rng, condc) * scale
        kw = None
    elif src == 'tiny-entry':
        c6, t = GEN.tiny_entry(rng, sweep % 3)
        c6 = c6 * scale
        entry = ('Cij', 'Cij9', 'Cijkl')[variant % 3]
        kw = None
        zs = t if t <= THR_SET else 0.0
        rec.count('hostile:tiny-entry:' + ('below-threshold' if t < 0.9e-9 else 'above-threshold' if t > THR_SET else 'at-threshold'))
    elif src == 'isotropic':
        group = 'isotropic'
        lam, mu, nu = GEN.iso_truth(rng, GEN.NU_CLASSES[1 + variant % 4], scale)
        c6 = O.iso_c6(lam, mu)
        pair = O.ISO_PAIRS[sweep % 15]
        kw = GEN.iso_kwargs(O.iso_moduli(lam, mu), pair, alias=bool(variant % 2), reverse=False)
        dl, dm = O.iso_pair_condition(lam, mu, *pair)
        entry = 'pair'
        zs = 10 * (dl + 2 * dm) / np.abs(c6).max()      # conditioning of the pair: a dense relative perturbation of the truth
    else:
        group, variants = GEN.SYSTEMS[src]
        names = variants[variant % len(variants)]
        raw, _ = GEN.system_tensor(rng, src)
        kw, c6 = GEN.named_constants(raw * scale, names, group)
        entry = 'named'
        if src in ('hexagonal', 'rhombohedral', 'rhombohedral+C15') and 'C66' in kw and 'C11' in kw and 'C12' in kw:
            direct_method = GEN.SYSTEM_METHOD[src]       # the keyword count would dispatch elsewhere: also call the method itself
    if src == 'isotropic':
        case = Case(c6, 0.0, pert=zs)
    else:
        case = Case(c6, zs)

    R1 = GEN.rotation(rng, rotc)
    R2 = GEN.rotation(rng, GEN.ROTATIONS[(sweep + 1 + variant) % nR])
    eps = GEN.strain(rng, strainc)
    rec.case((src, rotc, strainc, 'list' if as_list else 'array'), nontrivial=True, fp=fingerprint(c6, R1, R2))
    rec.count('class:source:' + src)
    rec.count('class:rotation:' + rotc)
    rec.count('class:container:' + ('list' if as_list else 'array'))
    if case.cond >= 3e3:
        rec.count('hostile:cond>=3e3')
    if i < 2 * nS:
        rec.sample(dict(source=src, keywords=kw, Cij=c6, rotation_class=rotc, axes=R1))

    # ---- construction ------------------------------------------------------
    C = None
    with ctx.guard(f'ElasticConstants can be built from {entry}', f'build:{src}'):
        if kw is None:
            C = EC(**{entry: container(case.exp[entry], as_list)})
        else:
            C = EC(**kw)
    if C is None:
        return
    rec.count('built')
    got = read_all(ctx, C, src)
    check_reprs(rec, got, case, src)
    check_tensor_laws(rec, got, case, eps, src)
    if direct_method is not None:
        with ctx.guard(f'{direct_method}() accepts the redundant C66', f'build:{src}:method'):
            D = EC()
            getattr(D, direct_method)(**kw)
            rec.close(case.tol('Cij'), D.Cij, c6, f'{direct_method}(**constants) equals the invariant tensor with those constants', f'build:{src}:method:Cij')

    # ---- pairwise conversions through the real setters ----------------------------
    if src.startswith('spd:') or src == 'tiny-entry' or i % 4 == 0:
        for A in GEN.REPRS:
            if src == 'tiny-entry' and A.startswith('S'):
                continue
            X = None
            with ctx.guard(f'ElasticConstants({A}=...)', f'build:{A}'):
                X = EC(**{A: container(case.exp[A], as_list and A != entry)})
            if X is None:
                continue
            gx = read_all(ctx, X, A)
            for r, val in gx.items():
                extra = 0.0 if A.startswith('C') else 1e-13 * case.cond      # a compliance entered and inverted carries cond*eps more
                rec.close(case.tol(r, extra), val, case.exp[r], f'{r} read from a tensor entered as {A} equals the oracle\'s {r}', f'convert:{A}->{r}')
                rec.count('conversions')
        # round trip through the real getters alone (no oracle map involved)
        for B in GEN.REPRS:
            if B in got:
                with ctx.guard(f'ElasticConstants({B}=C.{B})', f'roundtrip:{B}'):
                    Y = EC(**{B: got[B]})
                    extra = 0.0 if B.startswith('C') else 1e-12 * case.cond
                    rec.close(ztol(got['Cij'], THR_SET, extra=(extra + 40 * case.cond * case.dz * (0 if B.startswith('C') else 1)) * case.cmax), Y.Cij, got['Cij'],
                              f'ElasticConstants({B}=C.{B}).Cij == C.Cij', f'roundtrip:{B}')
                    rec.count('roundtrips')

    # ---- symmetry of crystal-system tensors ----------------------------------
    if group is not None and group != 'triclinic':
        for k, g in enumerate(O.symmetry_rotations(group, rng)):
            if 'Cijkl' in got:
                rec.close(BASE * case.cmax + 20 * case.dz * case.cmax, O.rotate4(got['Cijkl'], g), got['Cijkl'],
                          'Cijkl built from a crystal system\'s constants is invariant under the system\'s rotations', f'invariant:{src}')
            with ctx.guard('transform by a symmetry rotation', f'invariant:{src}:transform'):
                T = C.transform(container(g, as_list))
                rec.close(ztol(c6, THR_TRF, extra=20 * case.dz * case.cmax), T.Cij, c6, 'transform by a symmetry rotation of the crystal system returns the same Cij', f'invariant:{src}:transform')
            rec.count('symmetry-rotations')

    check_transform(ctx, C, case, R1, R2, eps, rotc, as_list)
    check_moduli(ctx, C, case)
    check_normalized(ctx, C, case, src, group, sweep)


def check_transform(ctx, C, case, R1, R2, eps, rotc, as_list):
    rec = ctx.rec
    c6, cmax = case.c6, case.cmax
    zc = case.dz * cmax                                   # what the construction itself may have zeroed
    R1u, R2u = O.unit_rows(R1), O.unit_rows(R2)
    E1 = O.rotate_voigt(c6, R1u)
    E12 = O.rotate_voigt(c6, R2u @ R1u)
    z1 = zslack(E1, THR_TRF)
    z12 = zslack(E12, THR_TRF)
    if z1 > 1e-13 * cmax:
        rec.count('hostile:transform-zeroing-possible')
    carried = 9 * (z1 + zc) + 9 * zc                      # Frobenius norm of everything zeroed so far is rotation invariant
    key = 'transform:' + rotc
    with ctx.guard('transform(identity)', 'transform:identity'):
        T0 = C.transform(container(np.eye(3), as_list))
        rec.close(ztol(c6, THR_TRF, extra=9 * zc), T0.Cij, c6, 'transform(identity) returns the same tensor', 'transform:identity')
    T1 = None
    with ctx.guard('transform(axes)', key):
        T1 = C.transform(container(R1, as_list))
    if T1 is None:
        return
    t1 = T1.Cij
    rec.close(ztol(E1, THR_TRF, extra=9 * zc), t1, E1, 'transform(A) equals the oracle\'s rotation A A A A C', key + ':value', axes=R1)
    rec.count('transforms')
    with ctx.guard('composition of transforms', 'transform:composition'):
        T12 = T1.transform(container(R2, not as_list))
        T21 = C.transform(container(R2u @ R1u, as_list))
        rec.close(ztol(E12, THR_TRF, extra=carried), T12.Cij, E12, 'C.transform(A).transform(B) equals the oracle\'s rotation by B.A', 'transform:composition:oracle')
        rec.close(2 * ztol(E12, THR_TRF, extra=carried), T12.Cij, T21.Cij, 'C.transform(A).transform(B) == C.transform(B.A)', 'transform:composition', A=R1, B=R2)
        rec.count('compositions')
    with ctx.guard('inverse transform', 'transform:inverse'):
        Tinv = T1.transform(container(R1u.T, as_list))
        rec.close(ztol(c6, THR_TRF, extra=carried), Tinv.Cij, c6, 'C.transform(A).transform(A^T) == C', 'transform:inverse', A=R1)
    # strain-energy density of the co-rotated strain
    dC = carried + 9 * BASE * cmax
    en2 = float((eps * eps).sum())
    with ctx.guard('energy of co-rotated strain', 'transform:energy'):
        w0 = O.energy(C.Cijkl, eps)
        w1 = O.energy(T1.Cijkl, O.rotate_strain(eps, R1u))
        rec.close(0.5 * en2 * dC + 1e-13 * abs(w0), w1, w0, 'eps:C:eps/2 is unchanged when tensor and strain are rotated together', 'transform:energy', rotation=rotc)
        e6 = O.strain_voigt(O.rotate_strain(eps, R1u))
        rec.close(0.5 * en2 * dC + 1e-13 * abs(w0), 0.5 * e6 @ t1 @ e6, w0, 'Voigt-form energy of the rotated tensor equals the original energy', 'transform:energy:voigt')
    # polycrystal moduli are invariants
    with ctx.guard('moduli of the rotated tensor', 'transform:moduli'):
        for which in ('bulk', 'shear'):
            for style in ('Voigt', 'Reuss', 'Hill'):
                a, b = getattr(T1, which)(style), getattr(C, which)(style)
                tol = (dC if style == 'Voigt' else 20 * case.cond * dC) + 8 * modulus_tol(style, b, case.cond, case.smax, cmax)    # Voigt condition number grows <= 4x on rotation
                rec.close(tol, a, b, f'{style} {which} modulus is unchanged by transform', f'transform:moduli:{which}:{style}', rotation=rotc)
        rec.count('moduli-invariance')


def check_moduli(ctx, C, case):
    rec = ctx.rec
    ref = O.vrh(case.c6)
    with ctx.guard('bulk()/shear()', 'moduli'):
        for which in ('bulk', 'shear'):
            vals = {}
            for style in ('Voigt', 'Reuss', 'Hill'):
                vals[style] = getattr(C, which)(style)
                tol = modulus_tol(style, ref[which, style], case.cond, case.smax, case.cmax, case.dz)
                rec.close(tol, vals[style], ref[which, style], f'{which}({style}) equals the oracle\'s tensor contraction', f'moduli:{which}:{style}')
            rec.close(1e-14 * abs(vals['Hill']), getattr(C, which)(), vals['Hill'], f'{which}() defaults to Hill', f'moduli:{which}:default')
            slack = modulus_tol('Hill', ref[which, 'Reuss'], case.cond, case.smax, case.cmax, case.dz)
            rec.check(vals['Reuss'] <= vals['Voigt'] + 2 * slack, f'Reuss {which} <= Voigt {which}', f'moduli:{which}:order')


OWN_SYSTEM = {'isotropic': 'isotropic', 'cubic': 'cubic', 'hexagonal': 'hexagonal', 'tetragonal-4': 'tetragonal',
              'tetragonal-4mm': 'tetragonal', 'rhombohedral-3': 'rhombohedral', 'rhombohedral-32': 'rhombohedral',
              'orthorhombic': 'orthorhombic'}


def check_normalized(ctx, C, case, src, group, sweep):
    """Idempotency itself is decided by the monitor on normalized_as (every call); here: which systems are
    asked for, the fixed points and is_normal."""
    rec = ctx.rec
    c6, cmax = case.c6, case.cmax
    own = OWN_SYSTEM.get(group)
    systems = [own] if own else []
    for s in (NORMAL_SYSTEMS[sweep % 6], NORMAL_SYSTEMS[(sweep + 3) % 6]) + (('triclinic',) if sweep % 4 == 0 else ()):
        if s not in systems:
            systems.append(s)
    for system in systems:
        key = 'normalized:' + system
        with ctx.guard(f'normalized_as({system})', key):
            N1 = C.normalized_as(system)
            n1 = N1.Cij
            rec.count('normalized:calls-from-workload')
            if system == own or system == 'triclinic':
                N2 = N1.normalized_as(system)
                rec.close(ztol(n1, THR_SET), N2.Cij, n1, 'normalized_as(s).normalized_as(s) == normalized_as(s)', key + ':idempotent', source=src)
                rec.check(N1.is_normal(system), 'a normalised tensor is_normal', key + ':is_normal-after', source=src)
            fixed = system == 'triclinic' or invariance_defect(c6, NORMAL_GROUP[system]) <= 1e-12 * cmax
            if fixed:
                # the tensor already has the system's form: normalising must not change it
                extra = (20 * case.dz) * cmax
                rec.close(ztol(c6, THR_SET, extra=extra), n1, c6, 'normalized_as(s) leaves a tensor with the symmetry of s unchanged', key + ':fixed-point', source=src)
                rec.check(C.is_normal(system), 'is_normal(s) is True for a tensor with the symmetry of s', key + ':is_normal', source=src)
                rec.count('normalized:fixed-point-evaluations')
            else:
                dev = np.abs(n1 - c6) - (1e-4 + 1e-4 * np.abs(n1))
                if dev.max() > 1e-6 * cmax:
                    rec.check(not C.is_normal(system), 'is_normal(s) is False when normalising changes an entry beyond atol + rtol*|value|', key + ':is_normal-false', source=src)
                    rec.count('normalized:is_normal-false-evaluations')


# ==========================================================================
def run_iso_case(ctx, EC, i):
    rec, rng = ctx.rec, ctx.rng
    pair = O.ISO_PAIRS[i % 15]
    nuc = GEN.NU_CLASSES[(i // 15) % 5]
    scale = GEN.SCALES[(i // 75) % 3]
    alias = bool((i // 225) % 2)
    reverse = bool((i // 450) % 2)
    lam, mu, nu = GEN.iso_truth(rng, nuc, scale)
    mod = O.iso_moduli(lam, mu)
    kw = GEN.iso_kwargs(mod, pair, alias, reverse)
    pname = ','.join(pair)
    rec.case(('isotropic', pname, nuc, 'alias' if alias else 'names'), nontrivial=True, fp=fingerprint(lam, mu, pair, sorted(kw)))
    rec.count('iso:class:' + nuc)
    if i < 30:
        rec.sample(dict(pair=pname, nu_class=nuc, keywords=kw, lam=lam, mu=mu))
    if nuc == 'nu=0' and pair in GEN.UNDEFINED_AT_NU0:
        rec.count('iso:skipped-undefined-at-nu=0:' + pname)
        return
    c6 = O.iso_c6(lam, mu)
    cmax = float(np.abs(c6).max())
    dl, dm = O.iso_pair_condition(lam, mu, *pair)
    bound = 10 * (dl + 2 * dm) + BASE * cmax
    if not bound <= 1e-7 * cmax:
        rec.count('iso:exempt-ill-conditioned:' + pname)
        return
    C = None
    with ctx.guard(f'ElasticConstants from the isotropic pair ({pname})', f'iso:build:{pname}'):
        C = EC(**kw)
    if C is None:
        return
    got = None
    with ctx.guard('Cij of an isotropic tensor', f'iso:get:{pname}'):
        got = C.Cij
    if got is None:
        return
    rec.count('iso:pair:' + pname)
    rec.close(bound, got, c6, 'the pair reproduces C(lambda, mu) = lambda dd + mu (dd + dd)', f'iso:pair:{pname}', nu=nu, given=kw, lam=lam, mu=mu)
    with ctx.guard('moduli of an isotropic tensor', f'iso:moduli:{pname}'):
        relb = bound / cmax
        kc = max(O.cond6(c6), 10.0)
        sm = float(np.abs(O.compliance6(c6)).max())
        for style in ('Voigt', 'Reuss', 'Hill'):
            rec.close(modulus_tol(style, mod['K'], kc, sm, cmax, relb), C.bulk(style), mod['K'], 'every bulk estimate of an isotropic tensor is K', f'iso:bulk:{pname}')
            rec.close(modulus_tol(style, mu, kc, sm, cmax, relb), C.shear(style), mu, 'every shear estimate of an isotropic tensor is mu', f'iso:shear:{pname}')
    with ctx.guard('invariance of an isotropic tensor', f'iso:invariant:{pname}'):
        R = O.random_rotation(rng)
        rec.close(ztol(c6, THR_TRF, extra=20 * bound), C.transform(R).Cij, c6, 'an isotropic tensor is unchanged by any rotation', f'iso:invariant:{pname}')


# ==========================================================================
def run_history_case(ctx, EC, i):
    """One object, a sequence of operations; after every operation all five representations (read in a fresh
    random order, so that any read may precede any other) must still be those of the tensor it holds."""
    rec, rng = ctx.rec, ctx.rng
    ops_tbl = GEN.HISTORY_OPS
    nops = 8
    ops = [ops_tbl[i % 6], ops_tbl[(i // 6) % 6]] + [ops_tbl[int(k)] for k in rng.integers(0, 6, nops - 2)]
    scale = GEN.SCALES[(i // 36) % 3]
    case = Case(GEN.spd_generic(rng, GEN.CONDS[i % 3]) * scale)
    entry = GEN.REPRS[(i // 3) % 5]
    rec.case(('history', ops[0], ops[1], entry), nontrivial=True, fp=fingerprint(case.c6, ops))
    if i < 12:
        rec.sample(dict(entered_as=entry, ops=ops, Cij=case.c6))
    C = None
    with ctx.guard(f'ElasticConstants({entry}=...)', f'history:build:{entry}'):
        C = EC(**{entry: container(case.exp[entry], bool(i % 2))})
    if C is None:
        return
    done = []
    for op in ops:
        done.append(op)
        rec.count('history:op:' + op)
        key = 'history:' + op
        with ctx.guard(f'history step {op}', key):
            if op in ('read', 'read-and-scribble'):
                r = GEN.REPRS[int(rng.integers(0, 5))]
                val = getattr(C, r)
                rec.close(case.tol(r, 1e-13 * case.cond), val, case.exp[r], f'history: {r} equals the oracle\'s {r}', key + ':' + r, ops=done)
                if op == 'read-and-scribble':       # what a caller may do with an array it was handed
                    val *= 3.0
                    val += 1.0
            elif op == 'moduli':
                ref = O.vrh(case.c6)
                which = ('bulk', 'shear')[int(rng.integers(0, 2))]
                style = ('Voigt', 'Reuss', 'Hill')[int(rng.integers(0, 3))]
                rec.close(modulus_tol(style, ref[which, style], case.cond, case.smax, case.cmax), getattr(C, which)(style), ref[which, style],
                          f'history: {which}({style}) equals the oracle\'s value', f'{key}:{which}:{style}', ops=done)
            elif op == 'transform':
                R = GEN.rotation(rng, GEN.ROTATIONS[int(rng.integers(0, len(GEN.ROTATIONS)))])
                E = O.rotate_voigt(case.c6, O.unit_rows(R))
                rec.close(ztol(E, THR_TRF, extra=1e-13 * case.cond * case.cmax), C.transform(R).Cij, E, 'history: transform equals the oracle\'s rotation', key, ops=done)
            elif op == 'normalized':
                system = NORMAL_SYSTEMS[int(rng.integers(0, 6))]
                C.normalized_as(system)
                C.is_normal(system)
            elif op == 'reassign':
                case = Case(GEN.spd_generic(rng, GEN.CONDS[int(rng.integers(0, 3))]) * scale)
                r = GEN.REPRS[int(rng.integers(0, 5))]
                setattr(C, r, container(case.exp[r], bool(rng.integers(0, 2))))
        # the object still is the tensor it holds, whatever was read or computed before
        for r in rng.permutation(GEN.REPRS):
            with ctx.guard(f'reading {r} after {op}', f'history:after:{r}'):
                rec.close(case.tol(r, 1e-13 * case.cond), getattr(C, r), case.exp[r],
                          f'history: after every operation {r} is still the oracle\'s {r} of the tensor held', f'history:after:{r}', ops=done)
        rec.count('history:steps')


# ==========================================================================
def run(ctx):
    import atomman as am
    EC = am.ElasticConstants
    rec = ctx.rec
    O.selfcheck()
    cover.start([FILE, 'atomman/tools/axes_check.py'])
    install_monitors(rec, EC)

    for i in ctx.cases('tensors', ctx.pick(1920, 10000)):
        run_tensor_case(ctx, EC, i)
    for i in ctx.cases('isotropic', ctx.pick(900, 4500)):
        run_iso_case(ctx, EC, i)
    for i in ctx.cases('histories', ctx.pick(216, 2160)):
        run_history_case(ctx, EC, i)

    for k, v in monitor.calls.items():
        if isinstance(v, int):
            rec.count('monitor_calls:' + k, v)
    for name, lo, hi in (('index-tables', 137, 202), ('compliance-weights', 204, 245), ('transform', 247, 273),
                         ('isotropic-pairs', 301, 396), ('system-constructors', 409, 830), ('normalise-and-moduli', 832, 1037)):
        rec.count('reach:lines:' + name, cover.hits(FILE, lo, hi))
    rec.count('reach:lines:axes_check', cover.hits('atomman/tools/axes_check.py', 30, 47))

    # floors: every monitor and every hostile class was reached (deterministic by construction)
    for m in ('transform', 'bulk', 'shear', 'normalized_as', 'is_normal', 'isotropic', 'cubic', 'hexagonal',
              'tetragonal', 'rhombohedral', 'orthorhombic', 'monoclinic', 'triclinic'):
        rec.floor('monitor_calls:ElasticConstants.' + m, 40)
    for r in GEN.REPRS:
        rec.floor('monitor_calls:get:' + r, 200)
        rec.floor('monitor_calls:set:' + r, 100)
    for s in GEN.SOURCES:
        rec.floor('class:source:' + s, 50)
    for r in GEN.ROTATIONS:
        rec.floor('class:rotation:' + r, 100)
    for p in O.ISO_PAIRS:
        rec.floor('iso:pair:' + ','.join(p), 36)
    for c in GEN.NU_CLASSES:
        rec.floor('iso:class:' + c, 100)
    rec.floor('iso:skipped-undefined-at-nu=0:lambda,nu', 1)
    for op in GEN.HISTORY_OPS:
        rec.floor('history:op:' + op, 150)
    rec.floor('history:steps', 1500)
    rec.floor('conversions', 5000)
    rec.floor('roundtrips', 1000)
    rec.floor('symmetry-rotations', 500)
    rec.floor('compositions', 800)
    rec.floor('moduli-invariance', 800)
    rec.floor('normalized:idempotent-evaluations', 5000)
    rec.floor('normalized:fixed-point-evaluations', 500)
    rec.floor('normalized:is_normal-false-evaluations', 300)
    rec.floor('hostile:cond>=3e3', 50)
    rec.floor('hostile:transform-zeroing-possible', 40)
    rec.floor('hostile:tiny-entry:below-threshold', 15)
    rec.floor('hostile:tiny-entry:above-threshold', 15)
    rec.floor('class:container:list', 300)
    rec.floor('reach:lines:isotropic-pairs', 60)
    rec.floor('reach:lines:transform', 5)
    rec.floor('reach:lines:index-tables', 20)
