"""C12 - Volterra dislocation fields satisfy elasticity and carry the Burgers vector.

Monitors on the results of ``Stroh``, ``IsotropicVolterraDislocation`` and
``solve_volterra_dislocation``.  Every clause is decided with the oracle in
``vf/oracle/c12_volterra.py`` (field equations by finite differences on the
returned fields, Barnett-Lothe integral for K, polar closed forms for the
isotropic medium, reciprocal lattice for Miller orientations); nothing is
compared with a re-implementation of the Stroh eigenvector sums.
"""
from __future__ import annotations

import zlib

import numpy as np

from ..core import fingerprint
from ..gen import c12_problems as P
from ..oracle import c12_volterra as O
from ..oracle import geometry as G
from .. import cover

RULE = ('four case groups, classes chosen round-robin from the case index: "stroh" = 9 stiffness classes (random SPD tensor '
        'group-averaged over the class point group: cubic, hexagonal, tetragonal 6/7 constants, rhombohedral 6/7 constants, orthorhombic, '
        'monoclinic, triclinic) x 10 m/n assignments (six axis-letter pairs, signed axes, oblique arrays, oblique lists, one letter + one array) '
        'x 5 Burgers classes (screw, edge, mixed, slip-plane-normal, general) x 4 orientation inputs (none, transform, '
        'un-normalised axes=, list) x stiffness magnitudes (1, 6e-3, 160; 1e-6 and 1e9 with refusal accepted) x length scales (1, 1e-10, 1e4); '
        '"iso" = isotropic solver (direct and through the wrapper), 4 Poisson-ratio classes (typical, 0, negative, 0.45-0.495) x 10 m/n x 4 in-plane '
        'Burgers classes x 4 orientation inputs x 3 length scales x 3 ways of stating the moduli; "limit" = Stroh on C_iso + eta*mu*D_cubic for '
        'eta = 3e-2, 1e-2, 3e-3 and the wrapper at eta = 3e-5 / 1e-5; "miller" = line/plane Miller input in 8 cell classes (hostile fixed pairs such '
        'as tetragonal (101)/[010], orthorhombic (110)/[001], hexagonal (10-11)/[-12-10] first, then random zone-law pairs with |index| <= 3; '
        '3-index and Miller-Bravais 4-index) for both solvers, Burgers vector in lattice coordinates.  Each solution is probed at 40 off-line '
        'points (hostile polar angles incl. the axes and 0.03 rad from the cut, radii over 4 decades, any position along the line), at 20 radii '
        'on the cut, on its continuation and on 5 other rays, on a 256-point circuit, and (Miller) at 12 points built from in-plane lattice vectors. '
        'A case is non-trivial when the solver returned a solution and all field monitors were evaluated on it; '
        'distinct = distinct fingerprint of (stiffness, Burgers vector, transform or cell+indices, m, n).  '
        '"resolve" = histories on ONE solution object (2 Stroh : 1 isotropic; constructed directly or through the wrapper): 14 templates = start orientation '
        '(identity, transform, axes=, list, Miller) + 1-3 successive obj.solve() calls each changing one argument (C; Burgers vector new class / negated; '
        'm,n new assignment / omitted = defaults; a solve() the solver refuses in between; new transform; transform <-> Miller <-> none; new line/plane in the same cell; new cell with the same indices); '
        'the first read after each solve is stratified (nothing, u, strain, stress, K, preln/K_coeff, single points); after EVERY solve the object goes through '
        'all monitors of a fresh solution (incl. covariance against a partner object that is itself re-solved) and is compared with a freshly constructed '
        'object for the same arguments; one history in four reads only one kind of quantity at the intermediate steps; on every second re-solve the previous '
        'ElasticConstants object is handed in again (re-assigned through its Cij= / Cijkl= setters when the stiffness changes) and an unchanged cell is the same Box object.  Every probed solution of every group '
        'is re-evaluated at the end (bit-identical results required) and the caller\'s arrays (positions, C, b, transform, m, n, indices, cell) are compared with copies.  '
        '"alias" = every way of stating the reference orientation (no orientation; identity as float array / int array / list / un-normalised axes=; Miller [00s]/(0s0) with m=x, n=y in a unit cubic, '
        'a cubic and an orthorhombic cell) and a symmetry rotation of a cubic medium, for Stroh, the isotropic solver and the wrapper, judged in full.  '
        'AFTER solving (every fresh solution of the stroh / iso / miller / alias groups incl. the wrapper\'s and the explicit-transform reference; every step of every re-solve history incl. the partner object) '
        'the harness changes the objects it still holds, one at a time, re-reads every attribute and re-evaluates every field after each change (bit-identical to the baseline required) and undoes the change in place: '
        'the caller\'s ElasticConstants object (in place through the array it was built from and through the arrays its getters return; re-assigned through Cij= / Cijkl= / Sij= / cubic() / isotropic()), the Burgers array, '
        'the transform / axes array or nested list, the m and n arrays or lists, the Miller index arrays, the Box (vects=, set(a,b,c,angles), origin= + vects=), the positions array and list after an evaluation, '
        'the arrays and the ElasticConstants object the solution handed back (K_tensor, burgers, transform, m, n, xi, C, p/A/L/k, displacement / strain / stress arrays); in-place changes rotate over scale / overwrite / NaN, '
        'the order of the five families of changes and the setter used rotate with the case index; all five families for fresh solutions, two per step of a history.  '
        'FORM OF THE POSITIONS (every probed solution of every group, i.e. Stroh / isotropic, constructed directly / through the wrapper / re-solved / stated in the reference orientation / from Miller indices, '
        'plus the wrapper\'s Stroh solution of every second "stroh" case): displacement, strain and stress are evaluated with the positions handed over as '
        '(a) the same float64 numbers (12 of the field points, hostile polar angles first) as list of lists / tuple of tuples / list of tuples / list of row arrays / Fortran-ordered / row-strided / column-strided / '
        'negative-stride / read-only / float128 arrays and with duplicated rows; (b) float32 (C and Fortran order, list of float32 scalars; at the length scale of the case) and float16 (unit scale) roundings of them, the '
        'reference being the float64 array of exactly the rounded numbers; (c) integer grid nodes |coordinate| <= 12 (axis nodes +-3 e_k first, then random) as int64 / int32 / int16 / int8 / uint8 / uint16 (non-negative nodes) arrays, '
        'lists / tuples of Python ints, strided / read-only / Fortran-ordered int64 arrays and integer-valued float32; (d) single points as int list / int tuple / int64 / int8 / float32 arrays / float tuple / row view of a 2-D '
        'integer array / (1,3) int64 and float32 arrays / list holding one list; (e) (0,3) arrays of float64 / int64 / float32.  Every form must be accepted, return real arrays of the float64 shapes, agree with the float64 '
        'evaluation to 1e-12 relative, leave the argument untouched and not alias it.  The fields of the int64 nodes are also judged on their own (strain = Richardson symmetric gradient of u, Hooke, stress = C : grad u, '
        'eps(k x) = eps(x)/k for k = 2 (int8), -1 (list), 3 (int64), isotropic closed forms), nodes lying exactly on the cut half-plane (axis-aligned m, n) must have the strain / stress of both one-sided limits; '
        'the arrays handed out by the first evaluation are compared with copies after all other calls and the first evaluation is repeated bit for bit.')
ASSUMPTIONS = [
    'Stroh inputs are kept away from sextic-root degeneracy: distinct upper-half-plane roots of the oracle\'s own sextic '
    'differ by >= 0.05 and have imaginary part >= 0.08 (resampled otherwise; the near-isotropic limit family is exempt and '
    'its refusals are counted)',
    'Burgers vectors handed to the isotropic solver lie in the slip plane (its documented model has no b.n term)',
    'field points are off the line; finite-difference stencils (step 2e-4 r) do not cross the cut (points are >= 0.03 rad from it)',
    'stiffness eigenvalue ratio >= 0.03; magnitudes 6e-3 ... 2e2 (absolute 1e-8 thresholds inside the solver are not probed '
    'with stiffness magnitudes above 1e3)',
    'arrays of points have N >= 2 rows: both solvers deliberately squeeze a (1,3) input to a single-point result',
    'oracle shares numpy/LAPACK with the code under test',
    're-solve histories: the state of an object between a refused solve() (ValueError) and the next accepted one is not judged; '
    'a re-solved object and a fresh object for the same arguments must agree to 1e-12 relative (same arithmetic; the moduli may be stated in two ways)',
    'independence from later changes: re-binding a name is not a change of an object and is not generated; letters, tuples and numbers cannot be changed in place (counted as not applicable); '
    'a change that shows is undone in place and the baseline must come back before the next change is made (otherwise the rest of the sequence is skipped and counted); '
    'results are compared bit for bit, which presupposes that evaluation is deterministic (the repeat clause checks that separately)',
    'form of the positions: rows that a narrow floating type rounds onto the line, onto the cut or to a point five times nearer to the line are dropped (float16 is generated at unit length scale whatever the scale of the '
    'Burgers vector); unsigned types get nodes of the non-negative octant (counted as exempt when fewer than two are off the line and the cut); a (1,3) argument may give a one-row or a squeezed result; arrays of more than '
    'two dimensions are not generated (Stroh.eta flattens them); the DISPLACEMENT at a point lying exactly on the cut half-plane is not judged (the statement leaves the value there open), strain and stress there are; '
    'an array of zero points is taken to be an array in the sense of the quantifier',
]
CONFIG = {'quick': dict(shards=8, seeds=1, timeout=900), 'thorough': dict(shards=16, seeds=3, timeout=3600)}

H_REL = 2e-4          # finite-difference step relative to the distance from the line
D_REL = 1e-7          # half-separation of the two limits across a ray, relative to r
GAP_MIN, IM_MIN = 0.05, 0.08


# ----------------------------------------------------------------------------
def _real(rec, a, what, key):
    a = np.asarray(a)
    ok = a.dtype.kind == 'f'
    rec.check(ok, f'{what} is returned as a real array', f'{key}:real-dtype', dtype=str(a.dtype))
    return np.real(a).astype(float) if not ok else a


FORM_ACCEPT = 'displacement, strain and stress accept positions as nested lists / tuples, integer arrays of any width, float32 / float16 / float128 arrays, Fortran-ordered, strided and read-only arrays, single points of these kinds and arrays of 0 or 1 rows'
FORM_VALUE = ('displacement, strain and stress do not depend on the form in which the positions are given: the result equals that of the float64 array holding the same numbers '
              'to float64 rounding (1e-12 relative; nothing is stored or computed in the type of the positions)')
FORM_REAL = 'fields of positions given in another form are returned as real floating-point arrays'
FORM_SHAPE = 'fields of positions given in another form have the shape of the float64 result ((N,3)/(N,3,3); (3,)/(3,3) for one point; (0,3)/(0,3,3) for none)'
FORM_INPUT = 'evaluating a field does not modify the positions handed in, whatever their form'
FORM_ALIAS = 'a returned field does not share memory with the positions handed in'


def _same_arg(a, b):
    if isinstance(a, np.ndarray) or isinstance(b, np.ndarray):
        return (isinstance(a, np.ndarray) and isinstance(b, np.ndarray) and a.dtype == b.dtype and a.shape == b.shape
                and np.array_equal(a, b, equal_nan=a.dtype.kind == 'f'))
    if isinstance(a, (list, tuple)):
        return type(a) is type(b) and len(a) == len(b) and all(_same_arg(p, q) for p, q in zip(a, b))
    return type(a) is type(b) and a == b


class Probe:
    """All field / tensor monitors for one solved problem.

    spec: solver ('stroh'|'iso'), key (mechanism-key prefix), c4 (oracle
    stiffness in the dislocation frame), b (expected Burgers vector in the
    dislocation frame), T (expected transform), m, n (unit vectors)."""

    def __init__(self, ctx, sol, spec):
        self.ctx, self.rec, self.sol, self.s = ctx, ctx.rec, sol, spec
        self.key = spec['key']
        self.m, self.n = spec['m'], spec['n']
        self.xi = np.cross(self.m, self.n)
        self.b = spec['b']
        self.bmag = float(np.linalg.norm(self.b))
        self.c4 = spec['c4']
        self.cmax = float(np.abs(self.c4).max())
        self.ls = float(spec.get('ls', 1.0))          # length scale applied to every field point (b is already scaled)
        self.ok = True
        self.nodes = None                              # integer grid nodes judged by forms(): (float64 nodes, fields of the int64 array, scales)

    # -- point sets, scaled -------------------------------------------------------
    def _field_points(self):
        x, r, t = P.field_points(self.ctx.rng, self.m, self.n, 40)
        return x * self.ls, r * self.ls, t

    def _cut_points(self):
        neg, pos, r = P.cut_points(self.ctx.rng, self.m, self.n)
        return neg * self.ls, pos * self.ls, r * self.ls

    def _ray_points(self, angles):
        return [(a, p * self.ls, r * self.ls, tang) for a, p, r, tang in P.ray_points(self.ctx.rng, self.m, self.n, angles)]

    # -- real-code field callables (arrays of >= 2 points) --------------------
    def u(self, x):
        return np.real(np.asarray(self.sol.displacement(x)))

    def eps(self, x):
        return np.real(np.asarray(self.sol.strain(x)))

    def sig(self, x):
        return np.real(np.asarray(self.sol.stress(x)))

    # -- attributes -----------------------------------------------------------
    def attributes(self):
        rec, sol, s, key = self.rec, self.sol, self.s, self.key
        rec.close(1e-7 * self.bmag, sol.burgers, self.b,
                  'burgers attribute is the Burgers vector expressed in the dislocation frame (transform . b_cartesian)', f'{key}:burgers')
        rec.close(1e-9, sol.transform, s['T'], 'transform attribute is the rotation crystal -> dislocation frame', f'{key}:transform')
        rec.check(O.is_rotation(sol.transform, 1e-8), 'transform is a proper rotation', f'{key}:transform-proper')
        rec.close(1e-12, sol.m, self.m, 'm attribute is the requested m axis', f'{key}:m')
        rec.close(1e-12, sol.n, self.n, 'n attribute is the requested n axis', f'{key}:n')
        rec.close(1e-12, sol.ξ, self.xi, 'line direction is m x n', f'{key}:xi')
        rec.close(2e-7 * self.cmax, sol.C.Cij, O.voigt_from_c4(self.c4),
                  'C attribute is the stiffness rotated into the dislocation frame', f'{key}:C-rotated')
        exp = O.angle_deg(self.b, self.xi)
        rec.close(1e-5, sol.characterangle(), exp, 'characterangle is the angle between Burgers vector and line (degrees)', f'{key}:characterangle')
        rec.close(2e-7, sol.characterangle(unit='radian'), np.radians(exp), 'characterangle in radians', f'{key}:characterangle-rad')

    # -- energy coefficient tensor ---------------------------------------------
    def ktensor(self):
        rec, sol, key = self.rec, self.sol, self.key
        K = np.asarray(sol.K_tensor)
        rec.check(K.shape == (3, 3) and K.dtype.kind == 'f', 'K_tensor is a real 3x3 array', f'{key}:K-real', dtype=str(K.dtype), shape=K.shape)
        if K.shape != (3, 3):
            self.ok = False
            return None
        K = np.real(K).astype(float)
        kmax = np.abs(K).max()
        rec.close(1e-8 * kmax, K, K.T, 'K_tensor is symmetric', f'{key}:K-symmetric')
        w = np.linalg.eigvalsh((K + K.T) / 2)
        rec.check(w[0] > 0, 'K_tensor is positive-definite', f'{key}:K-posdef', eig=w)
        Kref, err = O.K_integral(self.c4, self.m, self.n, 128)
        if err > 1e-9 * np.abs(Kref).max():
            Kref, err = O.K_integral(self.c4, self.m, self.n, 1024)
        rec.count('K:integral-oracle-evaluated')
        rec.close(3e-7 * np.abs(Kref).max() + 10 * err, K, Kref,
                  'K_tensor equals 4 pi B of the integral formalism (Barnett-Lothe) for the same C, m, n', f'{key}:K-integral', m=self.m, n=self.n)
        bKb = float(self.b @ K @ self.b)
        rec.close(0, sol.preln, bKb / (4 * np.pi), 'preln = b.K.b / 4 pi', f'{key}:preln', rtol=1e-7)
        rec.close(0, sol.K_coeff, bKb / self.bmag ** 2, 'K_coeff = b.K.b / b.b', f'{key}:K_coeff', rtol=1e-7)
        if self.s['solver'] == 'stroh':
            # the eigenvalues Stroh works with are the six roots of the sextic of (C, m, n)
            # judged by the residual at the eigenvalues themselves: the 3x3 matrix (mm) + p((mn)+(nm)) + p^2 (nn) must be
            # singular (smallest/largest singular value <= 1e-6; the eigen-solver of the non-symmetric 6x6 problem delivers ~1e-8 in unfavourable cases, which the field clauses with their own bounds tolerate), and the six values must be three conjugate pairs that
            # lie next to the roots of the oracle's own sextic.  (A distance bound of 1e-8 to polynomial roots obtained
            # with numpy.roots fired once in a thorough run at 1.27e-8: that was the root finder's own error for two
            # roots 0.05 apart, not the code under test.)
            pref = O.sextic_roots(self.c4, self.m, self.n)
            pgot = np.asarray(sol.p)
            if pgot.shape == (6,):
                mm, mn, nm, nn = (O._ab(self.c4, a_, b_) for a_, b_ in ((self.m, self.m), (self.m, self.n), (self.n, self.m), (self.n, self.n)))
                sv = [np.linalg.svd(mm + q * (mn + nm) + q * q * nn, compute_uv=False) for q in pgot]
                resid = np.array([x[-1] / x[0] for x in sv])
                dist = np.abs(pref[:, None] - pgot[None, :]).min(axis=1)
            else:
                resid, dist = np.full(6, np.inf), np.full(6, np.inf)
            rec.close(1e-6, resid, np.zeros(6), 'Stroh eigenvalues p are the six roots of det[(mm) + p((mn)+(nm)) + p^2 (nn)] = 0', f'{key}:sextic-roots',
                      p=pgot, roots=pref)
            rec.close(1e-5, dist, np.zeros(6), 'every root of the sextic is among the Stroh eigenvalues', f'{key}:sextic-roots:all-six', p=pgot, roots=pref)
            rec.count('stroh:sextic-roots-compared')
        return K

    def energy(self):
        """preln against the strain energy of the solution's own fields, and
        zero net force through a circuit around the line."""
        rec, key = self.rec, self.key
        pts, rhat, _t = O.ring(self.m, self.n, 256, r=self.ls, z=0.3 * self.ls)
        e, s = self.eps(pts), self.sig(pts)
        a256 = O.energy_prefactor(e, s) * self.ls ** 2
        a128 = O.energy_prefactor(e[::2], s[::2]) * self.ls ** 2
        tol = 1e-7 * abs(a256) + 10 * abs(a256 - a128)
        if abs(a256 - a128) > 1e-6 * abs(a256):
            rec.count('energy:quadrature-not-converged-exempt')
            return
        rec.close(tol, self.sol.preln, a256,
                  'preln equals the energy prefactor of the solution\'s own fields: int 1/2 sigma:eps r^2 dtheta', f'{key}:preln-energy')
        F = O.circuit_force(s, rhat, r=self.ls)
        rec.close(1e-7 * self.cmax * self.bmag, F, np.zeros(3), 'no net force is transmitted through a circuit round the line (pure dislocation)',
                  f'{key}:line-force')

    # -- jump and continuity -----------------------------------------------------
    def jump(self):
        rec, key, rng = self.rec, self.key, self.ctx.rng
        neg, pos, r = self._cut_points()
        d = (D_REL * r)[:, None] * self.n
        tol = 2e-5 * self.bmag
        J = self.u(neg + d) - self.u(neg - d)
        rec.close(tol, J, np.broadcast_to(self.b, J.shape),
                  'u(upper limit) - u(lower limit) across the cut half-plane (x.m<0, x.n=0) equals +b at 20 radii', f'{key}:jump')
        rec.count('jump:points', len(r))
        J0 = self.u(pos + d) - self.u(pos - d)
        rec.close(tol, J0, np.zeros_like(J0), 'u is continuous across the continuation of the cut (x.m>0, x.n=0)', f'{key}:continuity-x>0')
        angles = [np.pi / 2, -np.pi / 2, np.pi - 0.03, -np.pi + 0.03, float(rng.uniform(-3.0, 3.0))]
        for a, p, rr, tang in self._ray_points(angles):
            dd = (D_REL * rr)[:, None] * tang
            Jr = self.u(p + dd) - self.u(p - dd)
            name = {0: 'pi/2', 1: '-pi/2', 2: 'pi-0.03', 3: '-pi+0.03'}.get(angles.index(a), 'random')
            rec.close(tol, Jr, np.zeros_like(Jr), 'u is continuous across every ray other than the cut', f'{key}:continuity-ray:{name}', angle=a)
            rec.count('continuity:points', len(rr))

    # -- differential clauses ------------------------------------------------------
    def fields(self):
        rec, key, rng = self.rec, self.key, self.ctx.rng
        x, r, t = self._field_points()
        x0 = x.copy()
        u = _real(rec, self.sol.displacement(x), 'displacement', key)
        e = _real(rec, self.sol.strain(x), 'strain', key)
        s = _real(rec, self.sol.stress(x), 'stress', key)
        rec.check(np.array_equal(x, x0), 'evaluating displacement, strain and stress does not modify the array of positions handed in',
                  f'{key}:input-unmodified:pos')
        ok = rec.check(u.shape == (len(x), 3) and e.shape == (len(x), 3, 3) and s.shape == (len(x), 3, 3),
                       'fields of an (N,3) array of points have shapes (N,3), (N,3,3), (N,3,3)', f'{key}:shape-array',
                       shapes=[u.shape, e.shape, s.shape])
        if not ok:
            self.ok = False
            return
        rec.count('field:points', len(x))
        sc_e = np.maximum(np.abs(e).max(axis=(1, 2)), self.bmag / (2 * np.pi * r))          # per-point strain scale
        sc_s = np.maximum(np.abs(s).max(axis=(1, 2)), 0.1 * self.cmax * self.bmag / (2 * np.pi * r))
        rec.close(1e-9 * sc_e[:, None, None], e, np.transpose(e, (0, 2, 1)), 'strain is symmetric', f'{key}:strain-symmetric')
        rec.close(1e-9 * sc_s[:, None, None], s, np.transpose(s, (0, 2, 1)), 'stress is symmetric', f'{key}:stress-symmetric')
        # strain = symmetric gradient of u
        e_fd, est = O.sym_grad(self.u, x, H_REL * r)
        rec.close(2e-6 * sc_e[:, None, None], e, e_fd, 'strain equals the symmetric central-difference gradient of the displacement (Richardson)',
                  f'{key}:strain-gradient', richardson_delta=est)
        # rotation-free part is not constrained; but the gradient along the line vanishes
        du = self.u(x + r[:, None] * self.xi) - u
        rec.close(1e-11 * self.bmag * (1 + np.abs(np.log(r / self.ls)))[:, None], du, np.zeros_like(du), 'fields do not depend on the position along the line',
                  f'{key}:line-invariance')
        # Hooke
        rec.close(3e-7 * self.cmax * sc_e[:, None, None], s, O.contract(self.c4, e), 'stress equals the stiffness contracted with the strain',
                  f'{key}:hooke')
        # equilibrium
        div, est = O.divergence(self.sig, x, H_REL * r)
        rec.close(2e-6 * (sc_s / r)[:, None], div, np.zeros_like(div), 'stress is divergence-free away from the line (central differences, relative to |sigma|/r)',
                  f'{key}:divergence', richardson_delta=est)
        # homogeneity of degree -1
        for lam in (2.0, 0.37, 1e3, -1.0, -0.61):
            e2, s2 = self.eps(lam * x), self.sig(lam * x)
            rec.close(1e-10 * sc_e[:, None, None], lam * e2, e, 'strain falls off as 1/r: eps(lambda x) = eps(x)/lambda (lambda of either sign)',
                      f'{key}:homogeneity-strain', lam=lam)
            rec.close(1e-10 * sc_s[:, None, None], lam * s2, s, 'stress falls off as 1/r: sigma(lambda x) = sigma(x)/lambda', f'{key}:homogeneity-stress', lam=lam)
        # continuity of strain / stress across the cut
        neg, _pos, rr = self._cut_points()
        d = (1e-9 * rr)[:, None] * self.n
        ea, eb = self.eps(neg + d), self.eps(neg - d)
        rec.close(1e-6 * np.abs(ea).max(axis=(1, 2))[:, None, None], ea, eb, 'strain is continuous across the cut', f'{key}:strain-cut-continuity')
        # single point <-> array, list and integer input
        for k in (0, 1, int(rng.integers(2, len(x)))):
            xk = x[k]
            arg = xk.tolist() if k == 1 else xk
            u1, e1, s1 = (np.asarray(f(arg)) for f in (self.sol.displacement, self.sol.strain, self.sol.stress))
            good = rec.check(u1.shape == (3,) and e1.shape == (3, 3) and s1.shape == (3, 3),
                             'fields of a single point have shapes (3,), (3,3), (3,3)', f'{key}:shape-single', shapes=[u1.shape, e1.shape, s1.shape])
            if good:
                rec.close(1e-12 * self.bmag * (1 + abs(np.log(r[k] / self.ls))), np.real(u1), u[k], 'single point and array row agree (displacement)', f'{key}:single-vs-array:u')
                rec.close(1e-12 * sc_e[k], np.real(e1), e[k], 'single point and array row agree (strain)', f'{key}:single-vs-array:strain')
                rec.close(1e-12 * sc_s[k], np.real(s1), s[k], 'single point and array row agree (stress)', f'{key}:single-vs-array:stress')
        for nrow in (2, 3, 6):          # small arrays whose length coincides with a tensor dimension
            sub = x[5:5 + nrow]
            us, es, ss = (np.real(np.asarray(f(sub))) for f in (self.sol.displacement, self.sol.strain, self.sol.stress))
            good = rec.check(us.shape == (nrow, 3) and es.shape == (nrow, 3, 3) and ss.shape == (nrow, 3, 3),
                             'fields of an (N,3) array with N = 2, 3, 6 have shapes (N,3), (N,3,3), (N,3,3)', f'{key}:shape-small-array', n=nrow,
                             shapes=[us.shape, es.shape, ss.shape])
            if good:
                rec.close(1e-12 * sc_e[5:5 + nrow, None, None], es, e[5:5 + nrow], 'small array and large array rows agree (strain)', f'{key}:small-vs-large:strain')
                rec.close(1e-12 * sc_s[5:5 + nrow, None, None], ss, s[5:5 + nrow], 'small array and large array rows agree (stress)', f'{key}:small-vs-large:stress')
                rec.close(1e-12 * self.bmag * (1 + np.abs(np.log(r[5:5 + nrow] / self.ls)))[:, None], us, u[5:5 + nrow],
                          'small array and large array rows agree (displacement)', f'{key}:small-vs-large:u')
        ul = np.real(np.asarray(self.sol.displacement(x.tolist())))
        rec.close(1e-12 * self.bmag * (1 + np.abs(np.log(r / self.ls)))[:, None], ul, u, 'list-of-lists input gives the array result', f'{key}:list-input')
        self.x, self.r, self.fu, self.fe, self.fs, self.sc_e, self.sc_s = x, r, u, e, s, sc_e, sc_s

    # -- the form in which positions are handed over -------------------------------------------
    def _ref(self, sol, xf):
        """Fields at the float64, C-contiguous array xf (N >= 2 rows), real parts."""
        xf = np.ascontiguousarray(xf, float)
        return tuple(np.real(np.asarray(f(xf.copy()))) for f in (sol.displacement, sol.strain, sol.stress))

    def _scales(self, xf, ref):
        """Per-point magnitudes the comparisons are relative to: (N,1), (N,1,1), (N,1,1) and the distance from the line."""
        r = np.hypot(xf @ self.m, xf @ self.n)
        u, e, s = ref
        sc_u = np.abs(u).max(axis=1) + self.bmag
        sc_e = np.maximum(np.abs(e).max(axis=(1, 2)), self.bmag / (2 * np.pi * r))
        sc_s = np.maximum(np.abs(s).max(axis=(1, 2)), 0.1 * self.cmax * self.bmag / (2 * np.pi * r))
        return sc_u[:, None], sc_e[:, None, None], sc_s[:, None, None], r

    def _judge_form(self, sol, key, klass, form, arg, ref, scales, single=False, squeeze=False):
        """One argument form: accepted, real, right shapes, equal to the float64 reference to float64 rounding, argument untouched and
        not aliased by the results."""
        import copy
        rec = self.rec
        fkey = f'{key}:positions:{klass}'
        snap = copy.deepcopy(arg)
        raw = None
        with self.ctx.guard(FORM_ACCEPT, f'{fkey}:accepted'):
            raw = [sol.displacement(arg), sol.strain(arg), sol.stress(arg)]
        rec.count(f'class:positions:{klass}:{form}')
        rec.count('clause:' + FORM_ACCEPT)
        if raw is None:
            return None
        rec.check(_same_arg(snap, arg), FORM_INPUT, f'{fkey}:input-unmodified', form=form)
        if isinstance(arg, np.ndarray):
            rec.check(not any(isinstance(g, np.ndarray) and np.shares_memory(g, arg) for g in raw), FORM_ALIAS, f'{fkey}:result-aliases-input', form=form)
        out = []
        for name, g, exp, sc in zip(('displacement', 'strain', 'stress'), raw, ref, scales):
            g = np.asarray(g)
            if not rec.check(g.dtype.kind == 'f', FORM_REAL, f'{fkey}:real-dtype:{name}', form=form, dtype=str(g.dtype)):
                g = np.real(g)
            if squeeze and g.ndim == exp.ndim + 1 and g.shape[0] == 1:          # a (1,3) argument: either a one-row result or the squeezed one
                g = g[0]
            if not rec.check(g.shape == exp.shape, FORM_SHAPE, f'{fkey}:shape:{name}', form=form, got=g.shape, expected=exp.shape):
                out.append(None)
                continue
            rec.close(1e-12 * (sc[0] if single else sc), g.astype(float), exp, FORM_VALUE, f'{fkey}:{name}', form=form)
            out.append(g.astype(float))
        return out

    def forms(self, sol=None, key=None):
        """Positions as lists / tuples / integer arrays of every width / float32 / float16 / float128 / Fortran-ordered, strided and
        read-only arrays, single points of the same kinds, (1,3) and (0,3) arrays, duplicated rows: the result must be that of the
        float64 array holding the same numbers (to float64 rounding: nothing may be stored or computed in the type of the positions);
        integer grid nodes are in addition judged on their own (strain = sym grad u, Hooke, 1/r, continuity across the cut at nodes lying
        exactly on it); results handed out earlier must survive all these calls and the first evaluation must repeat bit for bit."""
        rec, ctx = self.rec, self.ctx
        primary = sol is None
        sol = self.sol if sol is None else sol
        key = self.key if key is None else key
        m, n = self.m, self.n
        rng = np.random.default_rng([int(ctx.seed), zlib.crc32(np.concatenate([self.b, m, n, [self.ls]]).tobytes()), 4])
        rec.count('positions:solutions-probed')
        rec.count('positions:solutions-probed:' + ('Isotropic' if self.s['solver'] == 'iso' else 'Stroh'))
        # A. the same float64 numbers in another container / layout (hostile polar angles first)
        sel = list(range(10)) + sorted(int(k) for k in rng.choice(np.arange(10, len(self.x)), 2, replace=False))
        xa = self.x[sel].copy()
        first_x = xa.copy()
        first = [sol.displacement(first_x), sol.strain(first_x), sol.stress(first_x)]           # kept as handed out: judged again at the end
        first_copy = [np.array(a) for a in first]
        ref = self._ref(sol, xa)
        sc = self._scales(xa, ref)
        for form in P.SAME_VALUE_FORMS:
            self._judge_form(sol, key, 'same-numbers', form, P.same_value_form(xa, form), ref, sc[:3])
        # duplicated rows
        dup = [0, 0, 3, 0, 3, 11]
        got = self._judge_form(sol, key, 'duplicate-rows', 'float64', xa[dup], tuple(a[dup] for a in ref), tuple(a[dup] for a in sc[:3]))
        if got is not None and all(g is not None for g in got):
            rec.check(all(np.array_equal(g[0], g[1]) and np.array_equal(g[0], g[3]) and np.array_equal(g[2], g[4]) for g in got),
                      'duplicated positions in one array give identical rows', f'{key}:positions:duplicate-rows:identical')
        # B. narrow floating types: the reference is evaluated at exactly the numbers the narrow type holds
        for form in P.NARROW_FLOAT_FORMS:
            base = xa / self.ls if form == 'float16' else xa          # float16 cannot hold 1e-10 or 1e6: unit-scale coordinates
            _a, held = P.narrow_float_form(base, form)
            with np.errstate(all='ignore'):
                xh, yh = held @ m, held @ n
                keep = np.isfinite(held).all(axis=1) & (np.hypot(xh, yh) > 0.2 * np.hypot(base @ m, base @ n)) & ~((yh == 0) & (xh < 0))
            if keep.sum() < 2:
                rec.count(f'positions:exempt:{form}:fewer-than-2-points-survive-the-rounding')
                continue
            arg, held = P.narrow_float_form(base[keep], form)
            refn = self._ref(sol, held)
            self._judge_form(sol, key, 'narrow-float', form, arg, refn, self._scales(held, refn)[:3])
            rec.count('positions:narrow-float:points', int(keep.sum()))
        # C. integer grid nodes
        off, cut, _cont = P.integer_nodes(rng, m, n)
        offp, _c, _d = P.integer_nodes(rng, m, n, nonneg=True)
        nodes_ok = len(off) >= 2
        if nodes_ok:
            xf = off.astype(float)
            refi = self._ref(sol, xf)
            sci = self._scales(xf, refi)
            got64 = None
            for form in P.INTEGER_FORMS:
                unsigned = form.startswith('uint')
                nodes = offp if unsigned else off
                if len(nodes) < 2:
                    rec.count(f'positions:exempt:{form}:fewer-than-2-nodes')
                    continue
                arg = P.integer_form(nodes, form)
                if arg is None:
                    rec.count(f'positions:exempt:{form}:out-of-range')
                    continue
                if unsigned:
                    xp = offp.astype(float)
                    refp = self._ref(sol, xp)
                    self._judge_form(sol, key, 'integer', form, arg, refp, self._scales(xp, refp)[:3])
                else:
                    g = self._judge_form(sol, key, 'integer', form, arg, refi, sci[:3])
                    if form == 'int64':
                        got64 = g
            rec.count('positions:integer:nodes', len(off))
            if got64 is not None and all(g is not None for g in got64):
                u_i, e_i, s_i = got64
                r = sci[3]
                ikey = f'{key}:positions:integer-nodes'
                e_fd, est = O.sym_grad(lambda q: np.real(np.asarray(sol.displacement(q))), xf, H_REL * r)
                rec.close(2e-6 * sci[1], e_i, e_fd, 'strain at integer-typed positions equals the symmetric central-difference gradient of the displacement',
                          f'{ikey}:strain-gradient', richardson_delta=est)
                rec.close(3e-7 * self.cmax * sci[1], s_i, O.contract(self.c4, e_i), 'stress at integer-typed positions equals the stiffness contracted with the strain there',
                          f'{ikey}:hooke')
                rec.close(3e-6 * self.cmax * sci[1], s_i, O.contract(self.c4, e_fd),
                          'stress at integer-typed positions equals the stiffness contracted with the symmetric gradient of the displacement', f'{ikey}:hooke-gradient')
                for lam, form in ((2, 'int8'), (-1, 'list-of-int-lists'), (3, 'int64')):
                    arg = P.integer_form(lam * off, form)
                    with ctx.guard(FORM_ACCEPT, f'{ikey}:accepted'):
                        e2, s2 = np.real(np.asarray(sol.strain(arg))), np.real(np.asarray(sol.stress(arg)))
                        rec.close(1e-10 * sci[1], lam * e2, e_i, 'strain falls off as 1/r between integer grid nodes: eps(k x) = eps(x)/k', f'{ikey}:homogeneity-strain', k=lam)
                        rec.close(1e-10 * sci[2], lam * s2, s_i, 'stress falls off as 1/r between integer grid nodes: sigma(k x) = sigma(x)/k', f'{ikey}:homogeneity-stress', k=lam)
                rec.count('positions:integer:judged-on-their-own')
                if primary:
                    self.nodes, self.nodes_fields, self.nodes_sc = xf, (u_i, e_i, s_i), sci
            # nodes lying exactly on the cut half-plane (axis-aligned m, n): strain and stress are continuous there
            if len(cut):
                cf = cut.astype(float)
                rc = np.hypot(cf @ m, cf @ n)
                d = (1e-9 * rc)[:, None] * n
                pair = np.concatenate([cf + d, cf - d])
                two = np.concatenate([cut, cut]) if len(cut) == 1 else cut          # N >= 2 rows
                with ctx.guard(FORM_ACCEPT, f'{key}:positions:on-cut-nodes:accepted'):
                    ec, sc_ = np.real(np.asarray(sol.strain(two)))[:len(cut)], np.real(np.asarray(sol.stress(two)))[:len(cut)]
                    ep, sp = np.real(np.asarray(sol.strain(pair))), np.real(np.asarray(sol.stress(pair)))
                    for side, sl in (('upper', slice(0, len(cut))), ('lower', slice(len(cut), None))):
                        rec.close(1e-6 * np.abs(ep[sl]).max(axis=(1, 2))[:, None, None], ec, ep[sl], 'strain at integer nodes lying exactly on the cut equals its limit from either side',
                                  f'{key}:positions:on-cut-nodes:strain', side=side)
                        rec.close(1e-6 * np.abs(sp[sl]).max(axis=(1, 2))[:, None, None], sc_, sp[sl], 'stress at integer nodes lying exactly on the cut equals its limit from either side',
                                  f'{key}:positions:on-cut-nodes:stress', side=side)
                rec.count('positions:on-cut-nodes', len(cut))
        else:
            rec.count('positions:exempt:integer:fewer-than-2-nodes')
        # D. single points (and one-row arrays) of the same kinds
        if nodes_ok:
            k = int(rng.integers(0, len(off)))
            j = int(rng.integers(0, len(xa)))
            for form in P.SINGLE_POINT_FORMS:
                arg, held = P.single_point_form(off[k], xa[j], form)
                two = np.stack([held, xa[0]])
                ref2 = self._ref(sol, two)
                sc2 = self._scales(two, ref2)
                self._judge_form(sol, key, 'single-point', form, arg, tuple(a[0] for a in ref2), sc2[:3], single=True, squeeze='(1,3)' in form or 'one-list' in form)
        # E. arrays of zero points
        for form in P.EMPTY_FORMS:
            self._judge_form(sol, key, 'no-points', form, P.empty_form(form), (np.zeros((0, 3)), np.zeros((0, 3, 3)), np.zeros((0, 3, 3))),
                             (np.zeros((0, 1)), np.zeros((0, 1, 1)), np.zeros((0, 1, 1))))
        # F. what was handed out first is still what it was, and the first evaluation repeats bit for bit after all of the above
        rec.check(all(np.array_equal(a, b) for a, b in zip(first, first_copy)),
                  'arrays handed out by an earlier evaluation are not overwritten by later evaluations (other positions, other types, other shapes)',
                  f'{key}:positions:earlier-result-overwritten')
        again = [sol.displacement(first_x), sol.strain(first_x), sol.stress(first_x)]
        rec.check(all(np.asarray(a).dtype == b.dtype and np.array_equal(a, b) for a, b in zip(again, first_copy)),
                  'the same float64 positions evaluated again after positions of other types and shapes give the identical result',
                  f'{key}:positions:repeat-after-other-forms')
        rec.count('positions:history-judged')

    # -- covariance under a rotation of the whole problem ----------------------------
    def covariance(self, build, K):
        """build(R) -> solution of the problem rotated by R."""
        rec, key, rng = self.rec, self.key, self.ctx.rng
        R = G.random_rotation(rng)
        sol2 = None
        with self.ctx.guard('the rotated problem (transform\'=R.T, m\'=Rm, n\'=Rn) is solved', f'{key}:covariance:solve', accept=self.s.get('accept', ())):
            sol2 = build(R)
        if sol2 is None:
            return
        rec.count('covariance:evaluated')
        x, r = self.x, self.r
        x2 = x @ R.T
        kmax = np.abs(K).max()
        rec.close(1e-6 * kmax, sol2.K_tensor, R @ K @ R.T, 'covariance: K\' = R K R^T', f'{key}:covariance:K')
        rec.close(1e-6 * self.bmag, sol2.burgers, R @ self.b, 'covariance: b\' = R b', f'{key}:covariance:burgers')
        rec.close(0, sol2.preln, self.sol.preln, 'covariance: preln unchanged', f'{key}:covariance:preln', rtol=1e-6)
        u2 = np.real(np.asarray(sol2.displacement(x2)))
        rec.close(1e-6 * self.bmag * (1 + np.abs(np.log(r / self.ls)))[:, None], u2, self.fu @ R.T, 'covariance: u\'(Rx) = R u(x)', f'{key}:covariance:u')
        e2 = np.real(np.asarray(sol2.strain(x2)))
        rec.close(1e-6 * self.sc_e[:, None, None], e2, np.einsum('ia,pab,jb->pij', R, self.fe, R), 'covariance: eps\'(Rx) = R eps(x) R^T',
                  f'{key}:covariance:strain')
        s2 = np.real(np.asarray(sol2.stress(x2)))
        rec.close(1e-6 * self.sc_s[:, None, None], s2, np.einsum('ia,pab,jb->pij', R, self.fs, R), 'covariance: sigma\'(Rx) = R sigma(x) R^T',
                  f'{key}:covariance:stress')

    # -- repeated evaluation ------------------------------------------------------------
    def repeat(self, K):
        """After every other read (other points, other shapes, K, preln): the same
        quantity asked for again is bit-identical, and the caller's arrays are untouched."""
        rec, sol, key = self.rec, self.sol, self.key
        if not self.ok:
            return
        x = self.x.copy()
        u2, e2, s2 = (np.real(np.asarray(f(x))) for f in (sol.displacement, sol.strain, sol.stress))
        rec.check(np.array_equal(x, self.x), 'evaluating displacement, strain and stress does not modify the array of positions handed in',
                  f'{key}:input-unmodified:pos')
        for name, a, b in (('displacement', u2, self.fu), ('strain', e2, self.fe), ('stress', s2, self.fs)):
            rec.check(a.shape == b.shape and np.array_equal(a, b), f'repeated evaluation of {name} at the same points gives the identical result',
                      f'{key}:repeat:{name}', max_diff=float(np.abs(a - b).max()) if a.shape == b.shape else 'shape')
        K2 = np.real(np.asarray(sol.K_tensor))
        rec.check(np.array_equal(K2, K), 'repeated evaluation of K_tensor gives the identical result', f'{key}:repeat:K')
        xl = self.x[7].tolist()
        xl0 = list(xl)
        a, b = np.asarray(sol.stress(xl)), np.asarray(sol.stress(xl))
        rec.check(xl == xl0 and np.array_equal(a, b), 'single point given as a list: the list is untouched and the result repeats', f'{key}:repeat:single')
        rec.count('repeat:evaluated')

    def all(self):
        self.attributes()
        K = self.ktensor()
        if K is None:
            return None
        self.energy()
        self.jump()
        self.fields()
        if self.ok:
            self.forms()
        self.repeat(K)
        return K if self.ok else None


# ----------------------------------------------------------------------------
# independence of a solved object from what the caller does AFTERWARDS
#
# A solution is a value: once solve() has returned, nothing the caller does to the objects it handed in (they are the caller's,
# e.g. one ElasticConstants object or one m array re-used in a loop over materials / orientations) or to the arrays the
# solution handed back may change what the solution reports.  After solving, the harness changes every such object it still
# holds - one object at a time, through its public setters or in place (re-binding a name cannot have an effect and is not
# generated) -, re-reads every attribute and re-evaluates every field after each change and requires bit-identical results;
# the baseline itself has been judged against the ORIGINAL inputs by the Probe.  Each change is then undone in place, so that a
# live reference found by one change cannot hide (or fake) the next one; if the baseline does not come back the rest of the
# sequence is skipped and counted.
INDEP_CLAUSE = ('a solved dislocation does not depend on what the caller does afterwards to the objects it handed in or got back: after the change '
                'every attribute re-read and every field re-evaluated is bit-identical to the one taken before')
INDEP_OBJECTS = ['arg-C', 'arg-burgers', 'arg-transform', 'arg-xi_uvw', 'arg-slip_hkl', 'arg-m', 'arg-n', 'arg-box', 'arg-positions',
                 'returned-K_tensor', 'returned-burgers', 'returned-transform', 'returned-m', 'returned-n', 'returned-xi', 'returned-C',
                 'returned-eigensolution', 'returned-fields']
INDEP_MODES = ['scale', 'overwrite', 'nan']
INDEP_C_HOWS = ['setter:Cij', 'setter:Cijkl', 'setter:Sij', 'method:cubic', 'method:isotropic']
INDEP_BOX_HOWS = ['setter:vects', 'method:set(a,b,c,angles)', 'setter:origin+vects']
N_INDEP_POINTS = 12


def _scramble(obj, rng, mode):
    """Change an ndarray or (nested) list IN PLACE; returns restore() or None when the object cannot be changed in place
    (str, tuple, number, read-only array)."""
    import copy
    if isinstance(obj, np.ndarray):
        if not obj.flags.writeable or obj.size == 0:
            return None
        saved = obj.copy()
        kind = obj.dtype.kind
        if kind in 'iu':                                   # Miller indices
            if mode == 'nan':
                obj[...] = 0
            elif mode == 'scale':
                obj[...] = -3 * saved
            else:
                obj[...] = np.roll(saved, 1, axis=-1) + np.arange(1, saved.shape[-1] + 1)
        elif kind in 'fc':
            if mode == 'nan':
                obj[...] = np.nan
            elif mode == 'scale':
                obj *= -1.7
            else:
                obj[...] = rng.normal(size=obj.shape) * (float(np.abs(saved).max()) or 1.0)
        else:
            return None

        def restore():
            obj[...] = saved
        return restore
    if isinstance(obj, list):
        saved = copy.deepcopy(obj)

        def walk(l):
            for k, v in enumerate(l):
                if isinstance(v, list):
                    walk(v)
                elif isinstance(v, (int, float, np.integer, np.floating)) and not isinstance(v, bool):
                    l[k] = float('nan') if mode == 'nan' else (-1.7 * v if mode == 'scale' else float(rng.normal()) + 3.0 * v)

        def unwalk(l, s):
            for k, v in enumerate(s):
                if isinstance(v, list):
                    unwalk(l[k], v)
                else:
                    l[k] = v
        walk(obj)
        return lambda: unwalk(obj, saved)
    return None


def _all(restores):
    restores = [r for r in restores if r is not None]
    if not restores:
        return None

    def restore():
        for r in reversed(restores):          # two solutions may hold the same array: undo in reverse order
            r()
    return restore


def _readout(w):
    """Everything a solution reports, as private copies (positions are a fresh copy every time)."""
    sol = w['sol']
    x = w['x0'].copy()
    out = {}
    for name in ('burgers', 'transform', 'm', 'n', 'ξ'):
        out[name] = np.array(getattr(sol, name))
    out['tol'] = np.array(sol.tol)
    out['C.Cij'] = np.array(sol.C.Cij)
    out['C.Cijkl'] = np.array(sol.C.Cijkl)
    out['characterangle'] = np.array([sol.characterangle(), sol.characterangle(unit='radian')])
    out['K_tensor'] = np.array(sol.K_tensor)
    out['preln'] = np.array(sol.preln)
    out['K_coeff'] = np.array(sol.K_coeff)
    if w['solver'] == 'stroh':
        for name in ('p', 'A', 'L', 'k'):
            out[name] = np.array(getattr(sol, name))
    else:
        out['mu'], out['nu'] = np.array(sol.mu), np.array(sol.nu)
    for name in ('displacement', 'strain', 'stress'):
        out[name] = np.array(getattr(sol, name)(x))
    out['stress(single point)'] = np.array(sol.stress(x[0]))
    out['displacement(single point, list)'] = np.array(sol.displacement(x[1].tolist()))
    out['strain(single point)'] = np.array(sol.strain(x[2]))
    return out


def _changed(base, w):
    try:
        with np.errstate(all='ignore'):
            now = _readout(w)
    except Exception as e:                                  # noqa: BLE001 - whatever the changed object makes the solution raise
        return [f'exception {type(e).__name__}: {e}'[:200]]
    return [k for k in base if not (now[k].shape == base[k].shape and now[k].dtype == base[k].dtype and np.array_equal(now[k], base[k], equal_nan=True))]


def _indep_violation(rec, key, **detail):
    """One violation written out in full per key and worker (there are many objects x solutions; the recorder keeps 40 in full),
    the others are counted under the same key."""
    if rec.viol_keys.get(key, 0) >= 1:
        rec.n_violations += 1
        rec.viol_keys[key] += 1
    else:
        rec.fail(INDEP_CLAUSE, key, **detail)


def independence(ctx, am, idx, args, watched, orient, group, nfam=5):
    """args: the argument OBJECTS the harness still holds: C (ElasticConstants), C_src (array it was built from or None),
    burgers (list of the arrays handed in), kw (the keyword dict handed in: transform/axes, ξ_uvw, slip_hkl, box, m, n).
    watched: list of dict(sol, solver 'stroh'|'iso', entry 'direct'|'wrapper'|'re-solved'|'partner', x (N,3) points).
    orient: 'identity' | 'rotated' | 'miller'.  nfam: how many of the five families of changes (C / other arguments / cell / positions and
    returned fields / returned attributes) are applied, starting with family idx % 5 (all of them for freshly constructed solutions, two per
    step of a re-solve history)."""
    rec = ctx.rec
    rng = np.random.default_rng([int(ctx.seed), zlib.crc32(group.encode()), int(idx), 977])
    C, kw = args['C'], args['kw']
    for w in watched:
        w['x0'] = np.array(w['x'][:N_INDEP_POINTS], float)
        w['cls'] = 'Stroh' if w['solver'] == 'stroh' else 'Isotropic'
        w['base'] = _readout(w)
        sol = w['sol']
        # what the solution hands back (the objects themselves, to be changed in place later) and positions it was given
        w['xe'], w['xl'] = w['x0'].copy(), w['x0'][3].tolist()
        w['raw'] = dict(K_tensor=sol.K_tensor, burgers=sol.burgers, transform=sol.transform, m=sol.m, n=sol.n, xi=sol.ξ, C=sol.C,
                        fields=[sol.displacement(w['xe']), sol.strain(w['xe']), sol.stress(w['xe']), sol.stress(w['xl']), sol.displacement(w['xl'])],
                        eig=[getattr(sol, nm) for nm in ('p', 'A', 'L', 'k')] if w['solver'] == 'stroh' else [sol.mu, sol.nu])
        rec.count(f'class:independent:{w["cls"]}:{w["entry"]}:{orient}')
    mode_of = lambda j: INDEP_MODES[(idx + j) % len(INDEP_MODES)]           # noqa: E731

    # --- the changes: (object, how, apply) ; apply() performs the change and returns restore() or None (not applicable) ---------
    def c_values(Cobj):
        c6 = np.array(Cobj.Cij)
        cmax = float(np.abs(c6).max())
        return c6, cmax, 1.9 * c6 + 0.3 * cmax * np.eye(6)

    def c_set(Cobj, how):
        c6, cmax, new = c_values(Cobj)
        if how == 'setter:Cij':
            Cobj.Cij = new
        elif how == 'setter:Cijkl':
            Cobj.Cijkl = O.c4_from_voigt(new)
        elif how == 'setter:Sij':
            Cobj.Sij = np.linalg.inv(new)
        elif how == 'method:cubic':
            Cobj.cubic(C11=2.1 * cmax, C12=0.9 * cmax, C44=0.7 * cmax)
        else:
            Cobj.isotropic(mu=0.8 * cmax, nu=0.27)
        return c6

    def c_restore(Cobj, c6, src=None, src_saved=None):
        def restore():
            if src is not None and src.shape == (6, 6):     # hand the same array in again: the object is built exactly as it was
                src[...] = src_saved
                Cobj.Cij = src
            else:
                Cobj.Cij = c6
        return restore

    src = args.get('C_src')
    src_saved = None if src is None else src.copy()
    muts = []

    def fam_C():
        out = []
        j = len(muts)
        if src is not None:
            out.append(('arg-C', 'inplace:array-it-was-built-from:' + mode_of(j), lambda: _scramble(src, rng, mode_of(j))))
        else:
            rec.count('independent:not-applicable:arg-C:source-array')
        g = ('Cij', 'Cijkl')[idx % 2]
        out.append(('arg-C', f'inplace:array-returned-by-{g}:' + mode_of(j + 1), lambda: _scramble(getattr(C, g), rng, mode_of(j + 1))))
        how = INDEP_C_HOWS[idx % len(INDEP_C_HOWS)]
        how2 = INDEP_C_HOWS[(idx // len(INDEP_C_HOWS) + idx + 1) % len(INDEP_C_HOWS)]

        def setter(h):
            def apply():
                c6 = c_set(C, h)
                return c_restore(C, c6, src, src_saved)
            return apply
        out.append(('arg-C', how, setter(how)))
        if how2 != how:
            out.append(('arg-C', how2, setter(how2)))
        return out

    def fam_args():
        out = []
        j = len(muts) + 5
        out.append(('arg-burgers', 'inplace:' + mode_of(j), lambda: _all([_scramble(b, rng, mode_of(j)) for b in args['burgers']])))
        for nm, obj in (('transform', 'arg-transform'), ('axes', 'arg-transform'), ('ξ_uvw', 'arg-xi_uvw'), ('slip_hkl', 'arg-slip_hkl'), ('m', 'arg-m'), ('n', 'arg-n')):
            if nm in kw:
                j += 1
                out.append((obj, f'inplace:{type(kw[nm]).__name__}:' + mode_of(j), (lambda nm=nm, j=j: _scramble(kw[nm], rng, mode_of(j)))))
        return out

    def fam_box():
        box = kw.get('box')
        if box is None:
            return []
        how = INDEP_BOX_HOWS[idx % len(INDEP_BOX_HOWS)]

        def apply():
            v0, o0 = np.array(box.vects), np.array(box.origin)
            if how == 'setter:vects':
                box.vects = 1.37 * v0 @ G.random_rotation(rng).T
            elif how == 'method:set(a,b,c,angles)':
                box.set(a=2.0, b=3.1, c=4.7, alpha=81.0, beta=97.0, gamma=66.0)
            else:
                box.origin = [1.5, -2.0, 0.25]
                box.vects = np.array([[3.0, 0, 0], [0.4, 2.0, 0], [0.1, -0.3, 5.0]])

            def restore():
                box.vects = v0
                box.origin = o0
            return restore
        return [('arg-box', how, apply)]

    def fam_positions():
        j = len(muts) + 2
        return [('arg-positions', 'inplace:after-evaluation:' + mode_of(j),
                 lambda: _all([_scramble(w['xe'], rng, mode_of(j)) for w in watched] + [_scramble(w['xl'], rng, mode_of(j)) for w in watched])),
                ('returned-fields', 'inplace:' + mode_of(j + 1),
                 lambda: _all([_scramble(a, rng, mode_of(j + 1)) for w in watched for a in w['raw']['fields'] if isinstance(a, np.ndarray)]))]

    def fam_returned():
        out = []
        j = len(muts) + 7
        for nm in ('K_tensor', 'burgers', 'transform', 'm', 'n', 'xi'):
            j += 1
            out.append(('returned-' + nm, 'inplace:' + mode_of(j), (lambda nm=nm, j=j: _all([_scramble(w['raw'][nm], rng, mode_of(j)) for w in watched]))))
        out.append(('returned-eigensolution', 'inplace:' + mode_of(j + 1),
                    lambda: _all([_scramble(a, rng, mode_of(j + 1)) for w in watched for a in w['raw']['eig'] if isinstance(a, np.ndarray)])))
        how = INDEP_C_HOWS[(idx + 2) % len(INDEP_C_HOWS)]

        def ret_c_setter():
            rs = []
            for w in watched:
                Cr = w['raw']['C']
                rs.append(c_restore(Cr, c_set(Cr, how)))
            return _all(rs)
        out.append(('returned-C', how, ret_c_setter))
        out.append(('returned-C', 'inplace:array-returned-by-Cij:' + mode_of(j + 2),
                    lambda: _all([_scramble(w['raw']['C'].Cij, rng, mode_of(j + 2)) for w in watched])))
        return out

    fams = [fam_C, fam_args, fam_box, fam_positions, fam_returned]
    for f in (fams[idx % len(fams):] + fams[:idx % len(fams)])[:nfam]:
        muts.extend(f())

    for obj, how, apply in muts:
        restore = apply()
        if restore is None:
            rec.count(f'independent:not-applicable:{obj}')     # a letter / tuple / read-only array: cannot be changed in place
            continue
        hkind = how.split(':')[0]
        rec.count(f'class:independent:object:{obj}')
        rec.count(f'class:independent:how:{obj}:{how if hkind != "inplace" else "inplace"}')
        rec.count(f'class:independent:orientation:{orient}:{obj}')
        if hkind == 'inplace':
            rec.count('class:independent:in-place-change:' + how.split(':')[-1])
        dirty = False
        for w in watched:
            bad = _changed(w['base'], w)
            rec.count('clause:' + INDEP_CLAUSE)
            rec.count(f'independent:evaluated:{w["cls"]}:{w["entry"]}')
            if bad:
                dirty = True
                _indep_violation(rec, f'independent:{w["cls"]}:{obj}', changed_object=obj, how=how, results_that_changed=bad, orientation=orient,
                                 entry=w['entry'], group=group)
        restore()
        if dirty and any(_changed(w['base'], w) for w in watched):
            rec.count('independent:sequence-cut-short:state-did-not-come-back')
            return False
    rec.count('independent:sequences-completed')
    return True


# ----------------------------------------------------------------------------
def make_C(am, c6, how):
    return make_C_src(am, c6, how)[0]


def make_C_src(am, c6, how):
    """ElasticConstants object and the array the caller built it from (kept by the harness: it is changed in place later)."""
    src = np.array(c6, float) if how == 'Cij' else O.c4_from_voigt(c6).copy()
    return (am.ElasticConstants(Cij=src) if how == 'Cij' else am.ElasticConstants(Cijkl=src)), src


def _watch(sol, solver, entry, x):
    return dict(sol=sol, solver=solver, entry=entry, x=x)


def _still_original(pb):
    """After the whole sequence: the attributes and Hooke's law once more against the ORIGINAL inputs."""
    pb.attributes()
    x = pb.x[:N_INDEP_POINTS].copy()
    e, s_ = pb.eps(x), pb.sig(x)
    pb.rec.close(3e-7 * pb.cmax * pb.sc_e[:N_INDEP_POINTS, None, None], s_, O.contract(pb.c4, e), 'stress equals the stiffness contracted with the strain',
                 f'{pb.key}:hooke')
    pb.rec.count('independent:original-inputs-clauses-re-evaluated')


LSCALES = [1.0, 1e-10, 1e4]          # lengths (Burgers vector and positions): native, SI-like, large
SCALES_STROH = P.SCALES * 3 + [1e-6] + P.SCALES[:2] + [1e9]   # extreme magnitudes (e.g. SI numbers): Stroh's absolute 1e-8 self-check thresholds may refuse
#                                         them; such a refusal is accepted and counted, an accepted problem is checked in full


def stroh_problem(rng, stiff_cls, mn_cls, b_cls, orient_cls, scale, rec):
    """Random problem of the given classes, resampled until the oracle's
    sextic roots are well separated."""
    for attempt in range(60):
        oc = orient_cls
        if attempt >= 20 and orient_cls == 'identity':
            oc = 'transform'            # structurally degenerate combination (e.g. hexagonal, line along c)
        c6 = P.stiffness(rng, stiff_cls, scale)
        m_arg, n_arg, m, n = P.mn_axes(rng, mn_cls)
        okw, T = P.orientation(rng, oc)
        c4d = O.rotate4(O.c4_from_voigt(c6), T)
        gap, im = O.root_gap(c4d, m, n)
        if gap >= GAP_MIN and im >= IM_MIN:
            if oc != orient_cls:
                rec.count('stroh:degenerate-orientation-replaced')
            b_d = P.burgers_frame(rng, b_cls, m, n)
            return dict(c6=c6, m_arg=m_arg, n_arg=n_arg, m=m, n=n, okw=okw, T=T, c4=c4d, b=b_d, b_c=T.T @ b_d, gap=gap, im=im)
        rec.count('stroh:resampled-near-degenerate')
    raise RuntimeError('no well-separated problem found')


def run_stroh(ctx, am):
    rec = ctx.rec
    n_cases = ctx.pick(324, 4860)
    nS, nM, nB, nO = len(P.STIFF_CLASSES), len(P.MN_CLASSES), len(P.BURGERS_STROH), len(P.ORIENT_CLASSES)
    for i in ctx.cases('stroh', n_cases):
        rng = ctx.rng
        stiff_cls = P.STIFF_CLASSES[i % nS]
        mn_cls = P.MN_CLASSES[(i // nS) % nM]
        b_cls = P.BURGERS_STROH[i % nB]
        orient_cls = P.ORIENT_CLASSES[(i // 3) % nO]
        scale = SCALES_STROH[(i // 7) % len(SCALES_STROH)]
        ls = LSCALES[(i // 11) % 3]
        extreme = scale not in P.SCALES
        pr = stroh_problem(rng, stiff_cls, mn_cls, b_cls, orient_cls, scale, rec)
        pr['b'], pr['b_c'] = pr['b'] * ls, pr['b_c'] * ls
        for c in (stiff_cls, 'mn:' + mn_cls, 'b:' + b_cls, 'orient:' + orient_cls, f'scale:{scale:g}', f'length:{ls:g}'):
            rec.count('class:stroh:' + c)
        key = 'Stroh'
        C, C_src = make_C_src(am, pr['c6'], 'Cij' if i % 2 else 'Cijkl')
        kw = dict(pr['okw'], m=pr['m_arg'], n=pr['n_arg'])
        b_in, b_in_w = pr['b_c'].copy(), pr['b_c'].copy()          # the argument objects stay in the harness's hands
        sol = None
        with ctx.guard('Stroh solves a well-conditioned in-domain problem', f'{key}:solve', accept=(ValueError,) if extreme else ()):
            sol = am.defect.Stroh(C, b_in, **kw)
        if sol is None and extreme:
            rec.count(f'stroh:extreme-magnitude-stiffness-refused:{scale:g}')
        done = False
        if sol is not None:
            rec.count('stroh:solved')
            spec = dict(solver='stroh', key=key, c4=pr['c4'], b=pr['b'], T=pr['T'], m=pr['m'], n=pr['n'], ls=ls, accept=(ValueError,) if extreme else ())
            pb = Probe(ctx, sol, spec)
            K = pb.all()
            if K is not None:
                done = True

                def build(R, pr=pr, C=C):
                    return am.defect.Stroh(C, pr['b_c'].copy(), transform=R @ pr['T'], m=R @ pr['m'], n=R @ pr['n'])
                pb.covariance(build, K)
                # wrapper returns the anisotropic class when Stroh accepts
                w = None
                with ctx.guard('solve_volterra_dislocation solves what Stroh solves', 'wrapper:aniso:solve'):
                    w = am.defect.solve_volterra_dislocation(C, b_in_w, **kw)
                watched = [_watch(sol, 'stroh', 'direct', pb.x)]
                if w is not None:
                    rec.check(type(w) is am.defect.Stroh, 'solve_volterra_dislocation returns a Stroh solution when Stroh accepts the input',
                              'wrapper:aniso:class', got=type(w).__name__)
                    rec.close(1e-12 * np.abs(K).max(), w.K_tensor, K, 'wrapper solution equals the direct solution', 'wrapper:aniso:K')
                    rec.count('wrapper:aniso')
                    if type(w) is am.defect.Stroh and i % 2 == 1:
                        pb.forms(sol=w, key='wrapper:aniso')
                        rec.count('positions:wrapper-solution-probed')
                    if type(w) is am.defect.Stroh and i % 2 == 0:
                        watched.append(_watch(w, 'stroh', 'wrapper', pb.x))
                # ... and whatever the caller does to its objects afterwards leaves both solutions as they are
                if independence(ctx, am, i, dict(C=C, C_src=C_src, burgers=[b_in, b_in_w], kw=kw), watched,
                                'rotated' if pr['okw'] else 'identity', 'stroh'):
                    _still_original(pb)
        rec.case((stiff_cls, mn_cls, b_cls, orient_cls, scale, ls), nontrivial=done,
                 fp=fingerprint(pr['c6'], pr['b_c'], pr['T'], pr['m'], pr['n']))
        if i < 24:
            rec.sample(dict(stiffness=stiff_cls, Cij=pr['c6'], burgers=pr['b_c'], transform=pr['T'], m=pr['m'], n=pr['n'],
                            root_gap=pr['gap'], min_imag=pr['im'], K_tensor=None if sol is None else sol.K_tensor))


# ----------------------------------------------------------------------------
NU_CLASSES = P.NU_CLASSES


def run_iso(ctx, am):
    rec = ctx.rec
    n_cases = ctx.pick(144, 2160)
    nM = len(P.MN_CLASSES)
    for i in ctx.cases('iso', n_cases):
        rng = ctx.rng
        nu_cls = NU_CLASSES[i % 4]
        mn_cls = P.MN_CLASSES[(i // 4) % nM]
        b_cls = P.BURGERS_ISO[(i // 2) % 4]
        ls = LSCALES[(i // 7) % 3]
        orient_cls = P.ORIENT_CLASSES[(i // 3) % 4]
        scale = P.SCALES[(i // 5) % 3]
        lam, mu, nu = P.random_iso(rng, nu_cls)
        lam, mu = lam * scale, mu * scale
        c6 = P.iso_c6(lam, mu)
        m_arg, n_arg, m, n = P.mn_axes(rng, mn_cls)
        okw, T = P.orientation(rng, orient_cls)
        b_d = P.burgers_frame(rng, b_cls, m, n) * ls
        b_c = T.T @ b_d
        for c in ('nu:' + nu_cls, 'mn:' + mn_cls, 'b:' + b_cls, 'orient:' + orient_cls, f'length:{ls:g}'):
            rec.count('class:iso:' + c)
        how = i % 3
        C_src = None
        if how == 0:
            C_src = c6.copy()
            C = am.ElasticConstants(Cij=C_src)
        elif how == 1:
            C = am.ElasticConstants(mu=mu, nu=nu) if nu != 0 else am.ElasticConstants(mu=mu, M=lam + 2 * mu)
        else:
            C = am.ElasticConstants(C11=lam + 2 * mu, C12=lam)
        kw = dict(okw, m=m_arg, n=n_arg)
        key = 'Isotropic'
        use_wrapper = bool(i % 2)
        b_in = b_c.copy()
        sol = None
        with ctx.guard('the isotropic solver solves an in-domain problem', f'{key}:solve'):
            if use_wrapper:
                sol = am.defect.solve_volterra_dislocation(C, b_in, **kw)
            else:
                sol = am.defect.IsotropicVolterraDislocation(C, b_in, **kw)
        done = False
        if sol is not None:
            if use_wrapper:
                rec.check(type(sol) is am.defect.IsotropicVolterraDislocation,
                          'solve_volterra_dislocation returns the isotropic solution for an isotropic medium', 'wrapper:iso:class', got=type(sol).__name__)
                rec.count('wrapper:iso')
                refused = False
                try:
                    am.defect.Stroh(C, b_c.copy(), **kw)
                except ValueError:
                    refused = True
                rec.check(refused, 'the isotropic class is returned exactly when Stroh refuses', 'wrapper:iso:stroh-did-not-refuse')
            if isinstance(sol, am.defect.IsotropicVolterraDislocation):
                spec = dict(solver='iso', key=key, c4=O.iso_c4(lam, mu), b=b_d, T=T, m=m, n=n, ls=ls)
                pb = Probe(ctx, sol, spec)
                K = pb.all()
                if K is not None:
                    done = True
                    iso_closed_form(rec, sol, pb, K, mu, nu, b_d, m, n, mn_cls, key)

                    def build(R):
                        return am.defect.IsotropicVolterraDislocation(C, b_c.copy(), transform=R @ T, m=R @ m, n=R @ n)
                    pb.covariance(build, K)
                    if independence(ctx, am, i, dict(C=C, C_src=C_src, burgers=[b_in], kw=kw),
                                    [_watch(sol, 'iso', 'wrapper' if use_wrapper else 'direct', pb.x)], 'rotated' if okw else 'identity', 'iso'):
                        _still_original(pb)
        rec.case(('iso', nu_cls, mn_cls, b_cls, orient_cls, ls), nontrivial=done, fp=fingerprint(c6, b_c, T, m, n))
        if i < 12:
            rec.sample(dict(lam=lam, mu=mu, nu=nu, burgers=b_c, transform=T, m=m, n=n, K_tensor=None if sol is None else sol.K_tensor))


def _mnkind(mn_cls):
    return 'letters' if len(mn_cls) == 2 else mn_cls.split('-')[0]


def iso_closed_form(rec, sol, pb, K, mu, nu, b_d, m, n, mn_cls, key):
    """Closed-form clauses of the isotropic solver on a probed solution."""
    kmax = np.abs(K).max()
    rec.close(1e-9 * mu, sol.mu, mu, 'mu attribute is the shear modulus', f'{key}:mu')
    rec.close(1e-9, sol.nu, nu, 'nu attribute is Poisson\'s ratio', f'{key}:nu')
    rec.close(3e-8 * kmax, K, O.iso_K(mu, nu, m, n),
              'isotropic K_tensor = mu/(1-nu) (mm + nn) + mu xi xi for every m/n assignment', f'{key}:K-closed-form:{_mnkind(mn_cls)}')
    rec.close(0, sol.K_coeff, O.iso_K_coeff(mu, nu, b_d, m, n),
              'isotropic K_coeff = mu (cos^2 beta + sin^2 beta/(1-nu))', f'{key}:K_coeff-closed-form', rtol=1e-7)
    uo, eo, so = O.iso_fields(mu, nu, b_d, m, n, pb.x)
    rec.close(1e-9 * pb.sc_e[:, None, None], pb.fe, eo, 'isotropic strain equals the polar closed form (Hirth-Lothe)', f'{key}:closed-form:strain')
    rec.close(1e-9 * pb.sc_s[:, None, None], pb.fs, so, 'isotropic stress equals the polar closed form (Hirth-Lothe)', f'{key}:closed-form:stress')
    if pb.nodes is not None:
        un, en, sn = O.iso_fields(mu, nu, b_d, m, n, pb.nodes)
        rec.close(1e-9 * pb.nodes_sc[1], pb.nodes_fields[1], en, 'isotropic strain at integer-typed positions equals the polar closed form (Hirth-Lothe)',
                  f'{key}:positions:integer-nodes:closed-form:strain')
        rec.close(1e-9 * pb.nodes_sc[2], pb.nodes_fields[2], sn, 'isotropic stress at integer-typed positions equals the polar closed form (Hirth-Lothe)',
                  f'{key}:positions:integer-nodes:closed-form:stress')
        dn, dno = pb.nodes_fields[0] - pb.nodes_fields[0][0], un - un[0]
        rec.close(1e-9 * pb.nodes_sc[0], dn, dno, 'isotropic displacement at integer-typed positions equals the closed form up to a rigid translation',
                  f'{key}:positions:integer-nodes:closed-form:u')
        rec.count('positions:integer:closed-form-judged')
    du, duo = pb.fu - pb.fu[3], uo - uo[3]
    rec.close(1e-9 * pb.bmag * (1 + np.abs(np.log(pb.r / pb.ls)))[:, None], du, duo,
              'isotropic displacement equals the closed form up to a rigid translation', f'{key}:closed-form:u')


# ----------------------------------------------------------------------------
ETAS = (3e-2, 1e-2, 3e-3)


def run_limit(ctx, am):
    """Stroh on C_iso + eta*mu*D (D = cubic anisotropy, crystal axes) approaches
    the isotropic closed form linearly in eta."""
    rec = ctx.rec
    n_cases = ctx.pick(54, 540)
    for i in ctx.cases('limit', n_cases):
        rng = ctx.rng
        mn_cls = P.MN_CLASSES[i % len(P.MN_CLASSES)]
        b_cls = P.BURGERS_ISO[(i // 3) % 4]
        lam, mu, nu = P.random_iso(rng, 'typical')
        m_arg, n_arg, m, n = P.mn_axes(rng, mn_cls)
        T = G.random_rotation(rng)
        b_d = P.burgers_frame(rng, b_cls, m, n)
        b_c = T.T @ b_d
        bmag = np.linalg.norm(b_d)
        pts, rhat, th = O.ring(m, n, 24, r=float(rng.uniform(0.5, 5.0)), z=float(rng.uniform(-1, 1)))
        uo, eo, so = O.iso_fields(mu, nu, b_d, m, n, pts)
        Ko = O.iso_K(mu, nu, m, n)
        errs = []
        for eta in ETAS:
            c4 = O.iso_c4(lam, mu) + eta * mu * O.cubic_anisotropy4()
            C = am.ElasticConstants(Cij=O.voigt_from_c4(c4))
            sol = None
            with ctx.guard('Stroh solves the nearly isotropic medium', 'limit:solve', accept=(ValueError,)):
                sol = am.defect.Stroh(C, b_c.copy(), transform=T, m=m_arg, n=n_arg)
            if sol is None:
                rec.count('limit:refused')
                errs.append(None)
                continue
            K = np.real(np.asarray(sol.K_tensor))
            e = np.real(sol.strain(pts))
            s = np.real(sol.stress(pts))
            u = np.real(sol.displacement(pts))
            eK = np.abs(K - Ko).max() / np.abs(Ko).max()
            ee = np.abs(e - eo).max() / np.abs(eo).max()
            es = np.abs(s - so).max() / np.abs(so).max()
            eu = np.abs((u - u[0]) - (uo - uo[0])).max() / bmag
            errs.append((eK, ee, es, eu))
            rec.count('limit:solved')
            for name, v in zip(('K_tensor', 'strain', 'stress', 'displacement'), (eK, ee, es, eu)):
                rec.check(v <= 1.5 * eta, f'isotropic limit: Stroh {name} is within 1.5*eta of the isotropic closed form', f'limit:{name}:bound',
                          eta=eta, rel_err=v)
        # anisotropy below the isotropic solver's own acceptance tolerance (1e-4): the wrapper must still hand
        # out the anisotropic solution whenever Stroh itself accepts the medium
        eta = (3e-5, 1e-5)[i % 2]
        C = am.ElasticConstants(Cij=O.voigt_from_c4(O.iso_c4(lam, mu) + eta * mu * O.cubic_anisotropy4()))
        direct = None
        try:
            direct = am.defect.Stroh(C, b_c.copy(), transform=T, m=m_arg, n=n_arg)
        except ValueError:
            rec.count('wrapper:near-iso:stroh-refused')
        w = None
        with ctx.guard('solve_volterra_dislocation solves a medium within 1e-4 of isotropy', 'wrapper:near-iso:solve'):
            w = am.defect.solve_volterra_dislocation(C, b_c.copy(), transform=T, m=m_arg, n=n_arg)
        if w is not None:
            want = am.defect.Stroh if direct is not None else am.defect.IsotropicVolterraDislocation
            rec.check(type(w) is want, 'solve_volterra_dislocation returns the isotropic class exactly when Stroh refuses (medium within 1e-4 of isotropy)',
                      'wrapper:near-iso:class', got=type(w).__name__, stroh_accepts=direct is not None, eta=eta)
            rec.close(3 * eta * np.abs(Ko).max(), w.K_tensor, Ko, 'near-isotropic wrapper solution has the isotropic K_tensor to O(eta)', 'wrapper:near-iso:K')
            if direct is not None:
                rec.count('wrapper:near-iso:stroh-accepted')
        ok = all(e is not None for e in errs)
        if ok:
            for k, name in enumerate(('K_tensor', 'strain', 'stress', 'displacement')):
                hi, mid, lo = errs[0][k], errs[1][k], errs[2][k]
                if hi < 1e-7:
                    rec.count('limit:difference-too-small-exempt')
                    continue
                # linear: err(3e-3)/err(3e-2) = 0.1 ; a square-root law would give 0.32, no convergence 1
                rec.check(0.07 <= lo / hi <= 0.14 and 0.25 <= mid / hi <= 0.42,
                          f'isotropic limit: the Stroh/closed-form difference of {name} is linear in the anisotropy', f'limit:{name}:linear',
                          errs=[hi, mid, lo])
                rec.count('limit:linearity-evaluated')
        rec.case(('limit', mn_cls, b_cls), nontrivial=ok, fp=fingerprint(lam, mu, b_c, T, m, n))
        if i < 6:
            rec.sample(dict(lam=lam, mu=mu, burgers=b_c, transform=T, m=m, n=n, etas=ETAS, rel_errs_K_strain_stress_u=errs))


# ----------------------------------------------------------------------------
def run_miller(ctx, am):
    """Orientation given by Miller line / plane in a (mostly non-cubic) cell."""
    rec = ctx.rec
    n_cases = ctx.pick(192, 1920)
    nBox = len(P.BOX_CLASSES)
    for i in ctx.cases('miller', n_cases):
        rng = ctx.rng
        rb = i % nBox
        box_cls = P.BOX_CLASSES[rb]
        rnd = i // nBox                       # round number for this box class
        solver = 'iso' if (rnd + rb) % 3 == 2 else 'stroh'
        mn_cls = P.MN_CLASSES[rnd % len(P.MN_CLASSES)]
        fixed = P.FIXED_PAIRS[box_cls]
        ctor, vects = P.box_for(rng, box_cls)
        box = getattr(am.Box, ctor[0])(**ctor[1])
        m_arg, n_arg, m, n = P.mn_axes(rng, mn_cls)
        four = box_cls == 'hexagonal4'
        pr = None
        for attempt in range(60):
            if rnd < len(fixed) and attempt == 0:
                hkl, uvw = fixed[rnd]
                pair_kind = 'fixed'
            else:
                hkl, uvw = P.random_pair(rng)
                pair_kind = 'random'
            T0 = O.miller_frame(vects, uvw, hkl)
            T = O.frame_to_mn(T0, m, n)
            if solver == 'stroh':
                c6 = P.stiffness(rng, P.BOX_STIFF[box_cls], P.SCALES[(rnd // 2) % 3])
                c4d = O.rotate4(O.c4_from_voigt(c6), T)
                gap, im = O.root_gap(c4d, m, n)
                if gap < GAP_MIN or im < IM_MIN:
                    rec.count('miller:resampled-near-degenerate')
                    continue
            else:
                lam, mu, nu = P.random_iso(rng, 'typical')
                c6 = P.iso_c6(lam, mu)
                c4d = O.iso_c4(lam, mu)
            pr = True
            break
        if pr is None:
            raise RuntimeError('no well-separated Miller problem')
        # Burgers vector: crystal (lattice) coordinates
        w2 = P.inplane_vectors(hkl, uvw)
        bk = (rnd // 3 + rb) % 3
        if bk == 0:
            b_uvw = np.asarray(uvw, float) * rng.choice([0.5, 1.0, 1 / 3])                 # screw
        elif bk == 1 or solver == 'iso':
            b_uvw = np.asarray(w2, float) * rng.choice([0.5, 1.0]) + (0.5 * np.asarray(uvw, float) if bk == 2 else 0)   # in-plane, edge or mixed
        else:
            b_uvw = rng.integers(-2, 3, 3).astype(float)                                  # general lattice vector
            if not b_uvw.any():
                b_uvw = np.array([1.0, 0, 1.0])
            b_uvw = b_uvw / 2
        b_cart = b_uvw @ vects
        b_d = T @ b_cart
        xi_arg = np.array(uvw)
        hkl_arg = np.array(hkl)
        b_arg = b_uvw.copy()
        if four:
            xi_arg = O.uvtw_from_uvw(uvw)
            hkl_arg = O.hkil_from_hkl(hkl)
            b_arg = O.uvtw_from_uvw(b_uvw * 6) / 18.0 if np.allclose(b_uvw * 6, np.round(b_uvw * 6)) else None
            if b_arg is None:
                b_arg = b_uvw.copy()
            else:
                assert np.allclose(O.uvw_cart(b_arg, vects), b_cart, atol=1e-12)
        rec.count('class:miller:box:' + box_cls)
        rec.count('class:miller:solver:' + solver)
        rec.count('class:miller:pair:' + pair_kind)
        rec.count('class:miller:mn:' + mn_cls)
        key = f'miller:{solver}'
        ikey = 'noncubic' if box_cls != 'cubic' else 'cubic'
        C_src = c6.copy()
        C = am.ElasticConstants(Cij=C_src)
        cls = am.defect.Stroh if solver == 'stroh' else am.defect.IsotropicVolterraDislocation
        kw_m = dict(ξ_uvw=xi_arg, slip_hkl=hkl_arg, box=box, m=m_arg, n=n_arg)
        sol = None
        with ctx.guard('the solver accepts a Miller line/plane pair obeying the zone law', f'{key}:solve:{ikey}'):
            sol = cls(C, b_arg, **kw_m)
        done = False
        if sol is not None:
            rec.count('miller:solved')
            rec.close(1e-9, sol.transform, T,
                      'Miller input: transform puts the slip-plane normal along the reciprocal-lattice vector of (hkl) and the line along [uvw]',
                      f'{key}:transform:{ikey}', hkl=hkl, uvw=uvw, box=box_cls)
            nc = np.asarray(sol.transform).T @ n
            rec.close(1e-9, nc, O.plane_normal(hkl, vects), 'Miller input: the n axis maps back to the (hkl) plane normal', f'{key}:normal:{ikey}', hkl=hkl, box=box_cls)
            with ctx.guard('dislocation_system_transform accepts the same input', 'dislocation_system_transform:call'):
                Tf = am.defect.dislocation_system_transform(xi_arg, hkl_arg, m=m, n=n, box=box)
                rec.close(1e-9, Tf, T, 'dislocation_system_transform equals the reciprocal-lattice construction', f'dislocation_system_transform:{ikey}',
                          hkl=hkl, uvw=uvw, box=box_cls)
            spec = dict(solver=solver, key=key, c4=c4d, b=b_d, T=T, m=m, n=n)
            pb = Probe(ctx, sol, spec)
            K = pb.all()
            if K is not None:
                done = True
                # the same problem with the explicit rotation built by the oracle
                ref = None
                with ctx.guard('explicit-transform reference solve', f'{key}:reference-solve'):
                    ref = cls(C, b_cart.copy(), transform=T, m=m_arg, n=n_arg)
                if ref is not None:
                    kmax = np.abs(K).max()
                    rec.close(1e-7 * kmax, K, ref.K_tensor, 'Miller input gives the K_tensor of the explicit reciprocal-lattice rotation', f'{key}:K-vs-explicit:{ikey}')
                    rec.close(1e-7 * pb.sc_s[:, None, None], pb.fs, np.real(ref.stress(pb.x)),
                              'Miller input gives the stress field of the explicit reciprocal-lattice rotation', f'{key}:stress-vs-explicit:{ikey}')
                # ... and with the explicit rotation but the Burgers vector still in crystal (lattice) coordinates of the cell
                ref2 = None
                with ctx.guard('explicit transform with a cell for the Burgers vector', f'{key}:reference2-solve'):
                    ref2 = cls(C, b_arg, transform=T, box=box, m=m_arg, n=n_arg)
                if ref2 is not None:
                    rec.close(1e-7 * pb.bmag, ref2.burgers, b_d, 'transform= with box=: the Burgers vector is read as a lattice vector of the cell', f'{key}:burgers-box-transform:{ikey}')
                    rec.close(1e-7 * np.abs(K).max(), ref2.K_tensor, K, 'transform= with box= gives the K_tensor of the Miller input', f'{key}:K-box-transform:{ikey}')
                    rec.count('miller:transform-with-box')
                # jump across the crystallographic slip plane: points built from in-plane LATTICE vectors
                a_c = unitv(np.asarray(w2, float) @ vects)
                x_c = O.unit(O.uvw_cart(uvw, vects))
                s_ = rng.uniform(0.3, 30.0, 12) * rng.choice([-1.0, 1.0], 12)
                t_ = rng.uniform(-5, 5, 12)
                p_c = s_[:, None] * a_c + t_[:, None] * x_c          # crystal Cartesian, in the (hkl) plane through the line
                xd = p_c @ T.T                                       # dislocation frame
                side = xd @ m
                rec.close(1e-9 * np.abs(s_).max(), xd @ n, np.zeros(12), 'oracle sanity: lattice in-plane points lie in the n=0 plane', f'{key}:oracle-plane')
                d = (D_REL * np.abs(side))[:, None] * n
                J = pb.u(xd + d) - pb.u(xd - d)
                exp = np.where((side < 0)[:, None], b_d, 0.0)
                rec.close(2e-5 * pb.bmag, J, exp,
                          'the displacement jumps by b across the crystallographic (hkl) half-plane on the -m side of the line and nowhere else in that plane',
                          f'{key}:jump-crystal-plane:{ikey}', hkl=hkl, uvw=uvw)
                rec.count('miller:crystal-plane-jump-points', 12)
                # rotating crystal, cell and stiffness together leaves the dislocation-frame solution unchanged
                R = G.random_rotation(rng)
                sol3 = None
                with ctx.guard('the co-rotated crystal (box, C) is solved', f'{key}:corotated-solve'):
                    box3 = am.Box(vects=vects @ R.T)
                    C3 = am.ElasticConstants(Cij=O.voigt_from_c4(O.rotate4(O.c4_from_voigt(c6), R)))
                    sol3 = cls(C3, b_arg, ξ_uvw=xi_arg, slip_hkl=hkl_arg, box=box3, m=m_arg, n=n_arg)
                if sol3 is not None:
                    rec.close(1e-6 * np.abs(K).max(), sol3.K_tensor, K, 'co-rotating cell and stiffness leaves K_tensor unchanged', f'{key}:corotated:K')
                    rec.close(1e-8, sol3.transform, T @ R.T, 'co-rotating the cell composes the transform with R^T', f'{key}:corotated:transform')
                    rec.close(1e-6 * pb.bmag, sol3.burgers, b_d, 'co-rotating the cell leaves the dislocation-frame Burgers vector unchanged', f'{key}:corotated:burgers')
                    rec.count('miller:corotated')
                # the caller's cell, index arrays, stiffness, ... changed afterwards (ref2 was given the same C, Burgers array and Box)
                watched = [_watch(sol, solver, 'direct', pb.x)] + ([_watch(ref2, solver, 'direct', pb.x)] if ref2 is not None and i % 2 else [])
                if independence(ctx, am, i, dict(C=C, C_src=C_src, burgers=[b_arg], kw=kw_m), watched, 'miller', 'miller'):
                    _still_original(pb)
        rec.case(('miller', box_cls, solver, pair_kind, mn_cls), nontrivial=done, fp=fingerprint(c6, vects, hkl, uvw, b_uvw, m, n))
        if rnd < 1:
            rec.sample(dict(box=box_cls, vects=vects, slip_hkl=hkl_arg, xi_uvw=xi_arg, burgers=b_arg, m=m, n=n, solver=solver, transform=T))


def unitv(v):
    return v / np.linalg.norm(v)


# ----------------------------------------------------------------------------
# re-solve histories on ONE solution object
def _make_call(am, st):
    """atomman arguments of a state (fresh copies on every call) and pristine copies to compare with afterwards."""
    stiff, b_arg, kwd = P.hist_args(st)
    if st['solver'] == 'iso':
        lam, mu, nu, how = stiff['lam'], stiff['mu'], stiff['nu'], stiff['how']
        if how == 0:
            C = am.ElasticConstants(Cij=stiff['c6'].copy())
        elif how == 1:
            C = am.ElasticConstants(mu=mu, nu=nu) if nu != 0 else am.ElasticConstants(mu=mu, M=lam + 2 * mu)
        else:
            C = am.ElasticConstants(C11=lam + 2 * mu, C12=lam)
    else:
        C = make_C(am, stiff['c6'], 'Cij' if stiff['how'] else 'Cijkl')
    kw = dict(kwd)
    if 'box' in kw:
        ctor = kw['box']['ctor']
        kw['box'] = getattr(am.Box, ctor[0])(**ctor[1])
    return C, b_arg, kw


def _reuse_inputs(rec, st, change, parity, C, kw, prev):
    """Input OBJECTS with a history of their own: on every second re-solve the ElasticConstants object of the previous
    step is handed in again - as it is when the stiffness did not change, re-assigned through its public setters
    (Cij= / Cijkl=) when it did - and an unchanged cell is handed in as the same Box object."""
    if prev is None or parity:
        rec.count('class:resolve:C-object:new')
        return C, kw
    Cp, boxp, ctorp, c6p = prev
    if not np.array_equal(c6p, st['stiff']['c6']):          # change 'C' (or a structurally degenerate combination replaced by the generator)
        if st['solver'] == 'stroh' and st['stiff']['how']:
            Cp.Cijkl = O.c4_from_voigt(st['stiff']['c6'])
        else:
            Cp.Cij = np.array(st['stiff']['c6'])
        rec.count('class:resolve:C-object:reassigned-through-setter')
    else:
        rec.count('class:resolve:C-object:same-object-again')
    if 'box' in kw and boxp is not None and st['orient']['ctor'] == ctorp:
        kw = dict(kw, box=boxp)
        rec.count('class:resolve:box-object:same-object-again')
    return Cp, kw


def _snapshot(C, b_arg, kw):
    import copy
    snap = {k: copy.deepcopy(v) for k, v in kw.items() if k != 'box'}
    snap['burgers'] = copy.deepcopy(b_arg)
    snap['Cij'] = np.array(C.Cij)
    if 'box' in kw:
        snap['box.vects'] = np.array(kw['box'].vects)
    return snap


def _same(a, b):
    if isinstance(a, str) or isinstance(b, str) or isinstance(a, list) or isinstance(b, list):
        return type(a) is type(b) and a == b
    a, b = np.asarray(a), np.asarray(b)
    return a.shape == b.shape and a.dtype == b.dtype and np.array_equal(a, b)


def _inputs_unmodified(rec, key, snap, C, b_arg, kw):
    now = _snapshot(C, b_arg, kw)
    bad = [k for k in snap if not _same(snap[k], now[k])]
    rec.check(not bad, 'solving and evaluating results does not modify the caller\'s inputs (C, burgers, transform/axes, m, n, Miller indices, box)',
              f'{key}:input-unmodified:arguments', modified=bad)


def _cabs(a, b):
    a, b = np.asarray(a), np.asarray(b)
    if a.shape != b.shape:
        return np.array([np.inf])
    return np.abs(a - b)


FRESH_TOL = 1e-12      # same deterministic arithmetic on both objects; the only legitimate difference is the round-off of stating the
#                        same moduli in two ways (mu, nu  vs  Cij through the setter: ~1e-16, amplified by at most 1/(1-2 nu) <= 100)


def same_as_fresh(rec, sol, fresh, key, solver, x, only=None):
    """Differential clause: the re-used object is indistinguishable from a freshly constructed one."""
    cl = 'after solve() on an existing object every result equals that of a freshly constructed object for the same input: '
    k = f'{key}:vs-fresh'
    bmag = float(np.linalg.norm(fresh.burgers))
    r = np.hypot(x @ fresh.m, x @ fresh.n)

    def field(name):
        a, b = np.asarray(getattr(sol, name)(x)), np.asarray(getattr(fresh, name)(x))
        sc = np.abs(b).reshape(len(x), -1).max(axis=1) if b.shape[:1] == (len(x),) else np.abs(b).max()
        if name == 'displacement':
            sc = sc + bmag
        rec.close(FRESH_TOL, _cabs(a, b) / (sc.reshape((-1,) + (1,) * (b.ndim - 1)) if np.ndim(sc) else sc), np.zeros(b.shape), cl + name, f'{k}:{name}')
        rec.count('resolve:vs-fresh:field-comparisons')
    if only in ('u', 'strain', 'stress'):
        field(dict(u='displacement', strain='strain', stress='stress')[only])
        return
    Kf = np.asarray(fresh.K_tensor)
    kmax = np.abs(Kf).max()
    if only in (None, 'K', 'preln', 'single'):
        rec.close(FRESH_TOL * kmax, _cabs(sol.K_tensor, Kf), np.zeros((3, 3)), cl + 'K_tensor', f'{k}:K')
        rec.close(0, sol.preln, fresh.preln, cl + 'preln', f'{k}:preln', rtol=FRESH_TOL)
        rec.close(0, sol.K_coeff, fresh.K_coeff, cl + 'K_coeff', f'{k}:K_coeff', rtol=FRESH_TOL)
    if only == 'single':
        for name in ('displacement', 'strain', 'stress'):
            a, b = np.asarray(getattr(sol, name)(x[2])), np.asarray(getattr(fresh, name)(x[2]))
            rec.close(FRESH_TOL * (np.abs(b).max() + (bmag if name == 'displacement' else 0)), _cabs(a, b), np.zeros(b.shape), cl + name + ' (single point)', f'{k}:{name}')
    if only is not None:
        return
    for name in ('burgers', 'transform', 'm', 'n', 'ξ'):
        b = np.asarray(getattr(fresh, name))
        rec.close(FRESH_TOL * np.abs(b).max(), getattr(sol, name), b, cl + name + ' attribute', f'{k}:{name}')
    rec.check(sol.tol == fresh.tol, cl + 'tol attribute', f'{k}:tol')
    rec.close(FRESH_TOL * np.abs(fresh.C.Cij).max(), sol.C.Cij, fresh.C.Cij, cl + 'C attribute', f'{k}:C')
    rec.close(FRESH_TOL, sol.characterangle(), fresh.characterangle(), cl + 'characterangle', f'{k}:characterangle')
    if solver == 'stroh':
        for name in ('p', 'A', 'L', 'k'):
            b = np.asarray(getattr(fresh, name))
            rec.close(FRESH_TOL * np.abs(b).max(), _cabs(getattr(sol, name), b), np.zeros(b.shape), cl + 'Stroh ' + name, f'{k}:{name}')
    else:
        rec.close(0, sol.mu, fresh.mu, cl + 'mu', f'{k}:mu', rtol=FRESH_TOL)
        rec.close(FRESH_TOL, sol.nu, fresh.nu, cl + 'nu', f'{k}:nu')
    for name in ('displacement', 'strain', 'stress'):
        field(name)
    rec.count('resolve:vs-fresh:full')


def _pre_read(sol, kind, x):
    """The first thing read after a solve (before any monitor)."""
    if kind == 'u':
        sol.displacement(x)
    elif kind == 'strain':
        sol.strain(x)
    elif kind == 'stress':
        sol.stress(x)
    elif kind == 'K':
        sol.K_tensor
    elif kind == 'preln':
        sol.preln, sol.K_coeff
    elif kind == 'single':
        sol.stress(x[0]), sol.displacement(x[1].tolist()), sol.strain(x[2])


def run_resolve(ctx, am):
    """2-4 successive solve() calls on one object, one argument changed at a time, results read in between;
    after every solve the object is judged exactly like a fresh one and compared with a fresh one."""
    rec = ctx.rec
    nT = len(P.HIST_TEMPLATES)
    n_cases = ctx.pick(3 * nT * 4, 3 * nT * 40)
    for i in ctx.cases('resolve', n_cases):
        rng = ctx.rng
        solver = 'iso' if i % 3 == 2 else 'stroh'
        h = i // 3
        tk = h % nT
        rnd = i // (3 * nT)
        start_kind, changes = P.HIST_TEMPLATES[tk]
        light = rnd % 4 == 3                      # intermediate steps: one kind of read only; full judgement after the last solve
        use_wrapper = (rnd + h) % 2 == 1
        scale = P.SCALES[(i // 5) % 3]
        ls = 1.0 if P.template_has_miller(tk) else LSCALES[(tk + rnd + i % 3) % 3]
        cls = (am.defect.IsotropicVolterraDislocation if solver == 'iso' else am.defect.Stroh)
        name = 'Isotropic' if solver == 'iso' else 'Stroh'
        st = P.hist_start(rng, solver, start_kind, h, scale, ls, GAP_MIN, IM_MIN, rec.count)
        rec.count(f'class:resolve:solver:{solver}')
        rec.count(f'class:resolve:template:{tk}')
        rec.count(f'class:resolve:mode:{"light" if light else "full"}')
        rec.count(f'class:resolve:length:{ls:g}')
        sol = rot = prev = None
        fps, done, nsolved = [], True, 0
        steps = ('initial',) + tuple(changes)
        for sidx, change in enumerate(steps):
            if change == 'refused':
                # a solve() the solver rejects (Stroh: exactly isotropic medium; isotropic solver: anisotropic medium); whatever it leaves
                # behind, the next accepted solve() must be judged like a fresh object
                lam_, mu_, _nu = P.random_iso(rng, 'typical')
                Cbad = am.ElasticConstants(Cij=P.iso_c6(lam_ * scale, mu_ * scale) if solver == 'stroh' else P.stiffness(rng, 'triclinic', scale))
                _C, b_bad, kw_bad = _make_call(am, st)
                with ctx.guard('a medium outside the solver\'s model is refused with ValueError', f'resolve:{name}:refused-solve', accept=(ValueError,)):
                    sol.solve(Cbad, b_bad, **kw_bad)
                    rec.count('resolve:refusal-expected-but-solved')
                rec.count('resolve:refused-solves')
                continue
            if sidx:
                st = P.hist_step(rng, st, change, i + sidx, GAP_MIN, IM_MIN, rec.count)
            e = P.hist_expected(st)
            fps.append(fingerprint(st['stiff']['c6'], e['b'], e['T'], e['m'], e['n']))
            key = f'resolve:{name}:{"initial" if not sidx else "after-" + change}'
            C, b_arg, kw = _make_call(am, st)
            C, kw = _reuse_inputs(rec, st, change, (i + sidx) % 2, C, kw, prev)
            prev = (C, kw.get('box'), st['orient'].get('ctor'), st['stiff']['c6'].copy())
            snap = _snapshot(C, b_arg, kw)
            ok = False
            with ctx.guard('solve() on an existing object accepts a well-conditioned in-domain problem' if sidx else
                           'the solver accepts a well-conditioned in-domain problem', f'{key}:solve'):
                if sol is None:
                    sol = am.defect.solve_volterra_dislocation(C, b_arg, **kw) if use_wrapper else cls(C, b_arg, **kw)
                    if type(sol) is not cls:
                        rec.fail('solve_volterra_dislocation returns the solver class that accepts the medium', f'{key}:wrapper-class', got=type(sol).__name__)
                        sol = None
                else:
                    ret = sol.solve(C, b_arg, **kw)
                    rec.check(ret is None, 'solve() returns None (the object itself is updated)', f'{key}:solve-returns-none')
                    rec.count('resolve:re-solves')
                    rec.count('class:resolve:change:' + change)
                    rec.count(f'class:resolve:change:{solver}:{change}')
                    if steps[sidx - 1] == 'refused':
                        rec.count('resolve:accepted-solve-after-refused-solve')
                ok = sol is not None
            if not ok:
                done = False
                break
            nsolved += 1
            last = sidx == len(steps) - 1
            read = P.HIST_READS[(i + 3 * sidx) % len(P.HIST_READS)]
            rec.count('class:resolve:first-read:' + read)
            xq, _r, _t = P.field_points(rng, e['m'], e['n'], 40)
            xq = xq * ls
            _pre_read(sol, read, xq)
            fresh = None
            with ctx.guard('a fresh object is constructed for the same input', f'{key}:fresh-solve'):
                C2, b2, kw2 = _make_call(am, st)
                fresh = cls(C2, b2, **kw2)
            okind = {'identity': 'identity', 'miller': 'miller'}.get(st['orient']['kind'], 'rotated')
            entry = 're-solved' if sidx else ('wrapper' if use_wrapper else 'direct')
            iargs = dict(C=C, C_src=None, burgers=[b_arg], kw=kw)
            if light and not last:
                if fresh is not None and read != 'none':
                    same_as_fresh(rec, sol, fresh, key, solver, xq, only=read)
                rec.count('resolve:light-steps')
                _inputs_unmodified(rec, key, snap, C, b_arg, kw)
                independence(ctx, am, 4 * i + sidx, iargs, [_watch(sol, solver, entry, xq)], okind, 'resolve', nfam=2)
                continue
            spec = dict(solver=solver, key=key, c4=e['c4'], b=e['b'], T=e['T'], m=e['m'], n=e['n'], ls=ls)
            pb = Probe(ctx, sol, spec)
            K = pb.all()
            if K is None:
                done = False
            else:
                rec.count('resolve:probed')
                if sidx:
                    rec.count('resolve:probed-after-re-solve')
                if solver == 'iso':
                    sf = st['stiff']
                    iso_closed_form(rec, sol, pb, K, sf['mu'], sf['nu'], e['b'], e['m'], e['n'], st['mn']['cls'] if st['mn']['cls'] != 'default' else 'xy', key)

                # covariance: the rotated problem lives on a second object that is re-solved along with the first
                def build(R, e=e, C=C):
                    nonlocal rot
                    args = (C, e['b_cart'].copy())
                    kwr = dict(transform=R @ e['T'], m=R @ e['m'], n=R @ e['n'])
                    if rot is None:
                        rot = cls(*args, **kwr)
                    else:
                        rot.solve(*args, **kwr)
                        rec.count('resolve:partner-re-solves')
                    return rot
                pb.covariance(build, K)
            if fresh is not None:
                same_as_fresh(rec, sol, fresh, key, solver, xq)
            _inputs_unmodified(rec, key, snap, C, b_arg, kw)
            # the caller goes on using its objects (they are changed, then put back: the next step may hand the same objects in again)
            watched = [_watch(sol, solver, entry, xq)] + ([_watch(rot, solver, 'partner', xq)] if rot is not None and K is not None and (i + sidx) % 2 else [])
            if independence(ctx, am, 4 * i + sidx, iargs, watched, okind, 'resolve', nfam=2) and K is not None:
                _still_original(pb)
                if sidx:
                    rec.count('independent:after-re-solve')
        if done:
            rec.count('resolve:histories-completed')
            rec.count(f'resolve:histories-of-{nsolved}-solves')
        rec.case(('resolve', solver, tk, 'light' if light else 'full', use_wrapper, ls), nontrivial=done, fp=fingerprint(*fps))
        if rnd < 1 and tk < 4:
            rec.sample(dict(solver=solver, start=start_kind, changes=changes, mode='light' if light else 'full', length_scale=ls,
                            final=dict(Cij=st['stiff']['c6'], transform=e['T'], burgers_dislocation_frame=e['b'], m=e['m'], n=e['n'])))



# ----------------------------------------------------------------------------
def run_alias(ctx, am):
    """Every way of stating the reference orientation (and a symmetry rotation of a cubic medium): solved by Stroh, by the isotropic
    solver and through the wrapper, judged in full, then the caller changes its objects."""
    rec = ctx.rec
    nI = len(P.IDENT_CLASSES)
    n_cases = ctx.pick(nI * 6, nI * 36)
    for i in ctx.cases('alias', n_cases):
        rng = ctx.rng
        icls = P.IDENT_CLASSES[i % nI]
        rnd = i // nI
        variant = ('stroh', 'iso', 'wrapper-stroh', 'stroh', 'wrapper-iso', 'stroh')[rnd % 6]
        solver = 'iso' if variant.endswith('iso') else 'stroh'
        scale = P.SCALES[(rnd // 2) % 3]
        pr = None
        for attempt in range(80):
            pres = P.identity_presentation(rng, icls, rnd + attempt)
            mn_cls = 'xy' if pres['mn_fixed'] else P.MN_CLASSES[(i + rnd + attempt) % len(P.MN_CLASSES)]
            m_arg, n_arg, m, n = P.mn_axes(rng, mn_cls)
            T = pres['T']
            if solver == 'stroh':
                c6 = P.stiffness(rng, pres['stiff'] or P.STIFF_CLASSES[(i + rnd + attempt) % len(P.STIFF_CLASSES)], scale)
                c4d = O.rotate4(O.c4_from_voigt(c6), T)
                gap, im = O.root_gap(c4d, m, n)
                if gap < GAP_MIN or im < IM_MIN:
                    rec.count('alias:resampled-near-degenerate')
                    continue
                b_d = P.burgers_frame(rng, P.BURGERS_STROH[(i + rnd) % len(P.BURGERS_STROH)], m, n)
            else:
                lam, mu, nu = P.random_iso(rng, NU_CLASSES[rnd % 4])
                lam, mu = lam * scale, mu * scale
                c6 = P.iso_c6(lam, mu)
                c4d = O.iso_c4(lam, mu)
                b_d = P.burgers_frame(rng, P.BURGERS_ISO[(i + rnd) % 4], m, n)
            pr = True
            break
        if pr is None:
            raise RuntimeError('no well-separated problem in the reference orientation')
        b_cart = T.T @ b_d
        okw = dict(pres['okw'])
        if pres['vects'] is not None:                      # Burgers vector in lattice coordinates of the cell
            b_in = np.linalg.solve(pres['vects'].T, b_cart)
            ctor = okw['box']['ctor']
            okw['box'] = getattr(am.Box, ctor[0])(**ctor[1])
        else:
            b_in = b_cart.copy()
        kw = dict(okw)
        if not (pres['mn_fixed'] and rnd % 2):             # m='x', n='y' spelled out or left to the defaults
            kw.update(m=m_arg, n=n_arg)
        rec.count('class:alias:' + icls)
        rec.count('class:alias:variant:' + variant)
        rec.count(f'class:alias:{icls}:{solver}')
        C, C_src = make_C_src(am, c6, 'Cij' if rnd % 2 == 0 else 'Cijkl')
        cls = am.defect.Stroh if solver == 'stroh' else am.defect.IsotropicVolterraDislocation
        name = 'Stroh' if solver == 'stroh' else 'Isotropic'
        key = f'reference-orientation:{name}'
        sol = None
        with ctx.guard('the solver accepts a well-conditioned problem stated in the reference orientation', f'{key}:solve'):
            sol = am.defect.solve_volterra_dislocation(C, b_in, **kw) if variant.startswith('wrapper') else cls(C, b_in, **kw)
        done = False
        if sol is not None and rec.check(type(sol) is cls, 'solve_volterra_dislocation returns the solver class that accepts the medium', f'{key}:wrapper-class',
                                         got=type(sol).__name__):
            spec = dict(solver=solver, key=key, c4=c4d, b=b_d, T=T, m=m, n=n)
            pb = Probe(ctx, sol, spec)
            K = pb.all()
            if K is not None:
                done = True
                rec.count('alias:probed')
                if solver == 'iso':
                    iso_closed_form(rec, sol, pb, K, mu, nu, b_d, m, n, mn_cls, key)
                orient = 'rotated' if icls == 'symmetry-rotation' else ('miller' if icls.startswith('miller') else 'identity')
                rec.count(f'class:alias:stated-as:{icls}:{orient}')
                if independence(ctx, am, i, dict(C=C, C_src=C_src, burgers=[b_in], kw=kw),
                                [_watch(sol, solver, 'wrapper' if variant.startswith('wrapper') else 'direct', pb.x)], orient, 'alias'):
                    _still_original(pb)
        rec.case(('alias', icls, variant), nontrivial=done, fp=fingerprint(c6, b_cart, T, m, n))
        if rnd < 1 and i % 3 == 0:
            rec.sample(dict(stated_as=icls, solver=variant, keywords={k_: v_ for k_, v_ in kw.items() if k_ != 'box'}, Cij=c6, burgers=b_in))


# ----------------------------------------------------------------------------
ANCHORS = ['atomman/defect/Stroh.py', 'atomman/defect/IsotropicVolterraDislocation.py', 'atomman/defect/VolterraDislocation.py',
           'atomman/defect/solve_volterra_dislocation.py', 'atomman/defect/dislocation_system_transform.py']


def run(ctx):
    import atomman as am
    rec = ctx.rec
    cover.start(ANCHORS)
    run_stroh(ctx, am)
    run_iso(ctx, am)
    run_limit(ctx, am)
    run_miller(ctx, am)
    run_resolve(ctx, am)
    run_alias(ctx, am)
    # anchored regions actually executed
    rec.count('reach:VolterraDislocation.find_transform', cover.hits('atomman/defect/VolterraDislocation.py', 239, 256))
    rec.count('reach:VolterraDislocation.solve', cover.hits('atomman/defect/VolterraDislocation.py', 144, 184))
    rec.count('reach:Stroh.solve', cover.hits('atomman/defect/Stroh.py', 85, 133))
    rec.count('reach:Stroh.fields', cover.hits('atomman/defect/Stroh.py', 160, 333))
    rec.count('reach:Isotropic.fields', cover.hits('atomman/defect/IsotropicVolterraDislocation.py', 108, 299))
    rec.count('reach:wrapper.fallback', cover.hits('atomman/defect/solve_volterra_dislocation.py', 83, 85))
    rec.count('reach:dislocation_system_transform', cover.hits('atomman/defect/dislocation_system_transform.py', 49, 83))

    q = ctx.quick
    for c in P.STIFF_CLASSES:
        rec.floor('class:stroh:' + c, 10)
    for c in P.MN_CLASSES:
        rec.floor('class:stroh:mn:' + c, 10)
        rec.floor('class:iso:mn:' + c, 6)
        rec.floor('class:miller:mn:' + c, 6)
    for c in P.BURGERS_STROH:
        rec.floor('class:stroh:b:' + c, 20)
    for c in P.BURGERS_ISO:
        rec.floor('class:iso:b:' + c, 10)
    for c in P.ORIENT_CLASSES:
        rec.floor('class:stroh:orient:' + c, 20)
    for sc_ in set(SCALES_STROH):
        rec.floor(f'class:stroh:scale:{sc_:g}', 20)
    for ls_ in LSCALES:
        rec.floor(f'class:stroh:length:{ls_:g}', 60)
        rec.floor(f'class:iso:length:{ls_:g}', 30)
    for c in NU_CLASSES:
        rec.floor('class:iso:nu:' + c, 10)
    for c in P.BOX_CLASSES:
        rec.floor('class:miller:box:' + c, 8)
    rec.floor('class:miller:pair:fixed', 15)
    rec.floor('class:miller:pair:random', 120)
    rec.floor('class:miller:solver:stroh', 100)
    rec.floor('class:miller:solver:iso', 50)
    rec.floor('stroh:solved', 260)
    rec.floor('miller:solved', 180)
    rec.floor('miller:corotated', 180)
    rec.floor('miller:transform-with-box', 180)
    rec.floor('stroh:sextic-roots-compared', 350)
    rec.floor('miller:crystal-plane-jump-points', 2000)
    rec.floor('wrapper:aniso', 260)
    rec.floor('wrapper:iso', 60)
    rec.floor('covariance:evaluated', 380)
    rec.floor('K:integral-oracle-evaluated', 540)
    rec.floor('jump:points', 10000)
    rec.floor('continuity:points', 50000)
    rec.floor('field:points', 20000)
    rec.floor('limit:solved', 120)
    rec.floor('wrapper:near-iso:stroh-accepted', 30)
    rec.floor('limit:linearity-evaluated', 150)
    for name in ('clause:strain equals the symmetric central-difference gradient of the displacement (Richardson)',
                 'clause:stress equals the stiffness contracted with the strain',
                 'clause:stress is divergence-free away from the line (central differences, relative to |sigma|/r)',
                 'clause:preln equals the energy prefactor of the solution\'s own fields: int 1/2 sigma:eps r^2 dtheta'):
        rec.floor(name, 540)
    # re-solve histories, repeated evaluation, untouched inputs
    rec.floor('class:resolve:solver:stroh', 112)
    rec.floor('class:resolve:solver:iso', 56)
    for k_ in range(len(P.HIST_TEMPLATES)):
        rec.floor(f'class:resolve:template:{k_}', 12)
    for c in P.HIST_CHANGES:
        rec.floor('class:resolve:change:' + c, 24)
        rec.floor('class:resolve:change:stroh:' + c, 16)
        rec.floor('class:resolve:change:iso:' + c, 8)
    for c in P.HIST_READS:
        rec.floor('class:resolve:first-read:' + c, 70)
    rec.floor('class:resolve:C-object:reassigned-through-setter', 34)
    rec.floor('class:resolve:C-object:same-object-again', 150)
    rec.floor('class:resolve:box-object:same-object-again', 36)
    rec.floor('class:resolve:mode:full', 126)
    rec.floor('class:resolve:mode:light', 42)
    rec.floor('class:resolve:length:1e-10', 28)
    rec.floor('class:resolve:length:10000', 28)
    rec.floor('resolve:re-solves', 400)
    rec.floor('resolve:refused-solves', 24)
    rec.floor('resolve:accepted-solve-after-refused-solve', 24)
    rec.floor('resolve:partner-re-solves', 290)
    rec.floor('resolve:probed-after-re-solve', 340)
    rec.floor('resolve:vs-fresh:full', 460)
    rec.floor('resolve:vs-fresh:field-comparisons', 1400)
    rec.floor('resolve:light-steps', 95)
    rec.floor('resolve:histories-completed', 164)
    rec.floor('resolve:histories-of-4-solves', 90)
    rec.floor('repeat:evaluated', 1000)
    rec.floor('clause:evaluating displacement, strain and stress does not modify the array of positions handed in', 2000)
    rec.floor('clause:solving and evaluating results does not modify the caller\'s inputs (C, burgers, transform/axes, m, n, Miller indices, box)', 560)
    # independence of solved objects from later changes of the caller's objects (quick-tier numbers; the thorough tier has more of everything)
    for k_, v_ in {
            'class:independent:Isotropic:direct:identity': 23,
            'class:independent:Isotropic:direct:miller': 76,
            'class:independent:Isotropic:direct:rotated': 44,
            'class:independent:Isotropic:partner:identity': 6,
            'class:independent:Isotropic:partner:miller': 25,
            'class:independent:Isotropic:partner:rotated': 23,
            'class:independent:Isotropic:re-solved:identity': 14,
            'class:independent:Isotropic:re-solved:miller': 33,
            'class:independent:Isotropic:re-solved:rotated': 47,
            'class:independent:Isotropic:wrapper:identity': 14,
            'class:independent:Isotropic:wrapper:miller': 9,
            'class:independent:Isotropic:wrapper:rotated': 52,
            'class:independent:Stroh:direct:identity': 67,
            'class:independent:Stroh:direct:miller': 154,
            'class:independent:Stroh:direct:rotated': 175,
            'class:independent:Stroh:partner:identity': 16,
            'class:independent:Stroh:partner:miller': 39,
            'class:independent:Stroh:partner:rotated': 54,
            'class:independent:Stroh:re-solved:identity': 28,
            'class:independent:Stroh:re-solved:miller': 67,
            'class:independent:Stroh:re-solved:rotated': 95,
            'class:independent:Stroh:wrapper:identity': 43,
            'class:independent:Stroh:wrapper:miller': 16,
            'class:independent:Stroh:wrapper:rotated': 88,
            'class:independent:how:arg-C:inplace': 1053,
            'class:independent:how:arg-C:method:cubic': 205,
            'class:independent:how:arg-C:method:isotropic': 270,
            'class:independent:how:arg-C:setter:Cij': 272,
            'class:independent:how:arg-C:setter:Cijkl': 207,
            'class:independent:how:arg-C:setter:Sij': 207,
            'class:independent:how:arg-box:method:set(a,b,c,angles)': 67,
            'class:independent:how:arg-box:setter:origin+vects': 67,
            'class:independent:how:arg-box:setter:vects': 68,
            'class:independent:how:returned-C:inplace': 641,
            'class:independent:how:returned-C:method:cubic': 95,
            'class:independent:how:returned-C:method:isotropic': 96,
            'class:independent:how:returned-C:setter:Cij': 177,
            'class:independent:how:returned-C:setter:Cijkl': 174,
            'class:independent:how:returned-C:setter:Sij': 95,
            'class:independent:in-place-change:nan': 3005,
            'class:independent:in-place-change:overwrite': 2993,
            'class:independent:in-place-change:scale': 2982,
            'class:independent:object:arg-C': 2219,
            'class:independent:object:arg-box': 203,
            'class:independent:object:arg-burgers': 639,
            'class:independent:object:arg-m': 171,
            'class:independent:object:arg-n': 172,
            'class:independent:object:arg-positions': 639,
            'class:independent:object:arg-slip_hkl': 203,
            'class:independent:object:arg-transform': 332,
            'class:independent:object:arg-xi_uvw': 203,
            'class:independent:object:returned-C': 1283,
            'class:independent:object:returned-K_tensor': 641,
            'class:independent:object:returned-burgers': 641,
            'class:independent:object:returned-eigensolution': 429,
            'class:independent:object:returned-fields': 639,
            'class:independent:object:returned-m': 641,
            'class:independent:object:returned-n': 641,
            'class:independent:object:returned-transform': 641,
            'class:independent:object:returned-xi': 641,
            'class:independent:orientation:identity:arg-C': 411,
            'class:independent:orientation:identity:arg-burgers': 119,
            'class:independent:orientation:identity:arg-m': 28,
            'class:independent:orientation:identity:arg-n': 27,
            'class:independent:orientation:identity:arg-positions': 122,
            'class:independent:orientation:identity:arg-transform': 16,
            'class:independent:orientation:identity:returned-C': 242,
            'class:independent:orientation:identity:returned-K_tensor': 121,
            'class:independent:orientation:identity:returned-burgers': 121,
            'class:independent:orientation:identity:returned-eigensolution': 81,
            'class:independent:orientation:identity:returned-fields': 122,
            'class:independent:orientation:identity:returned-m': 121,
            'class:independent:orientation:identity:returned-n': 121,
            'class:independent:orientation:identity:returned-transform': 121,
            'class:independent:orientation:identity:returned-xi': 121,
            'class:independent:orientation:miller:arg-C': 723,
            'class:independent:orientation:miller:arg-box': 203,
            'class:independent:orientation:miller:arg-burgers': 203,
            'class:independent:orientation:miller:arg-m': 56,
            'class:independent:orientation:miller:arg-n': 55,
            'class:independent:orientation:miller:arg-positions': 204,
            'class:independent:orientation:miller:arg-slip_hkl': 203,
            'class:independent:orientation:miller:arg-xi_uvw': 203,
            'class:independent:orientation:miller:returned-C': 410,
            'class:independent:orientation:miller:returned-K_tensor': 205,
            'class:independent:orientation:miller:returned-burgers': 205,
            'class:independent:orientation:miller:returned-eigensolution': 137,
            'class:independent:orientation:miller:returned-fields': 204,
            'class:independent:orientation:miller:returned-m': 205,
            'class:independent:orientation:miller:returned-n': 205,
            'class:independent:orientation:miller:returned-transform': 205,
            'class:independent:orientation:miller:returned-xi': 205,
            'class:independent:orientation:rotated:arg-C': 1080,
            'class:independent:orientation:rotated:arg-burgers': 315,
            'class:independent:orientation:rotated:arg-m': 83,
            'class:independent:orientation:rotated:arg-n': 85,
            'class:independent:orientation:rotated:arg-positions': 312,
            'class:independent:orientation:rotated:arg-transform': 315,
            'class:independent:orientation:rotated:returned-C': 630,
            'class:independent:orientation:rotated:returned-K_tensor': 315,
            'class:independent:orientation:rotated:returned-burgers': 315,
            'class:independent:orientation:rotated:returned-eigensolution': 209,
            'class:independent:orientation:rotated:returned-fields': 312,
            'class:independent:orientation:rotated:returned-m': 315,
            'class:independent:orientation:rotated:returned-n': 315,
            'class:independent:orientation:rotated:returned-transform': 315,
            'class:independent:orientation:rotated:returned-xi': 315,
            'independent:evaluated:Isotropic:direct': 2261,
            'independent:evaluated:Isotropic:partner': 361,
            'independent:evaluated:Isotropic:re-solved': 606,
            'independent:evaluated:Isotropic:wrapper': 1005,
            'independent:evaluated:Stroh:direct': 6732,
            'independent:evaluated:Stroh:partner': 753,
            'independent:evaluated:Stroh:re-solved': 1304,
            'independent:evaluated:Stroh:wrapper': 2102,
    }.items():
        rec.floor(k_, v_)
    rec.floor('independent:sequences-completed', 1008)
    rec.floor('independent:after-re-solve', 278)
    rec.floor('independent:original-inputs-clauses-re-evaluated', 926)
    rec.floor('clause:' + INDEP_CLAUSE, 17322)
    for c in P.IDENT_CLASSES:
        rec.floor('class:alias:' + c, 6)
        rec.floor(f'class:alias:{c}:stroh', 4)
        rec.floor(f'class:alias:{c}:iso', 2)
    for c, v_ in (('stroh', 27), ('iso', 9), ('wrapper-stroh', 9), ('wrapper-iso', 9)):
        rec.floor('class:alias:variant:' + c, v_)
    rec.floor('alias:probed', 50)
    # the form in which positions are handed over (every probed solution of every group goes through every form; quick-tier numbers)
    for klass, forms_ in (('same-numbers', P.SAME_VALUE_FORMS), ('narrow-float', P.NARROW_FLOAT_FORMS), ('integer', P.INTEGER_FORMS),
                          ('single-point', P.SINGLE_POINT_FORMS), ('no-points', P.EMPTY_FORMS), ('duplicate-rows', ['float64'])):
        for f_ in forms_:
            rec.floor(f'class:positions:{klass}:{f_}', 900 if f_.startswith('uint') else 1000)
    rec.floor('positions:solutions-probed:Stroh', 700)
    rec.floor('positions:solutions-probed:Isotropic', 300)
    rec.floor('positions:wrapper-solution-probed', 100)
    rec.floor('positions:integer:nodes', 10000)
    rec.floor('positions:integer:judged-on-their-own', 1000)
    rec.floor('positions:integer:closed-form-judged', 250)
    rec.floor('positions:narrow-float:points', 40000)
    rec.floor('positions:on-cut-nodes', 1500)
    rec.floor('positions:history-judged', 1000)
    for name in (FORM_VALUE, FORM_REAL, FORM_SHAPE):
        rec.floor('clause:' + name, 120000)
    for name in (FORM_ACCEPT, FORM_INPUT):
        rec.floor('clause:' + name, 40000)
    rec.floor('clause:' + FORM_ALIAS, 30000)
    rec.floor('clause:strain at integer-typed positions equals the symmetric central-difference gradient of the displacement', 1000)
    rec.floor('clause:stress at integer-typed positions equals the stiffness contracted with the symmetric gradient of the displacement', 1000)
    rec.floor('clause:strain falls off as 1/r between integer grid nodes: eps(k x) = eps(x)/k', 3000)
    rec.floor('clause:arrays handed out by an earlier evaluation are not overwritten by later evaluations (other positions, other types, other shapes)', 1000)
    rec.floor('reach:VolterraDislocation.find_transform', 8)
    rec.floor('reach:Stroh.solve', 25)
    rec.floor('reach:Stroh.fields', 40)
    rec.floor('reach:Isotropic.fields', 60)
    rec.floor('reach:wrapper.fallback', 1)
    rec.floor('reach:dislocation_system_transform', 12)
